"""Shared helpers to tie mapproxy.grid.TileGrid objects to the exact model coq/theories/Grid.v.

A GridCase wraps a real TileGrid built through the real constructor together with the exact rational value
of every double it holds, scaled to integers by S (S*value is an integer for all grid parameters; 10 | S*res).
Used by C03 and by the properties that consume Grid.v (C01, C02, C04, C11, C16).
"""
from fractions import Fraction
import math

from common import zlit, blit, llit


def frac(v):
    return Fraction(v)


def lcm(a, b):
    return a * b // math.gcd(a, b)


class GridCase:
    def __init__(self, name, grid, stretch=None, shrink=None, extra_den=1):
        """grid: mapproxy.grid.TileGrid.  stretch/shrink: Fractions overriding the float attributes when
        the float is not the intended rational (only for exact streams use the exact float value)."""
        self.name = name
        self.grid = grid
        self.bbox = [frac(v) for v in grid.bbox]
        self.res = [frac(r) for r in grid.resolutions]
        self.tw, self.th = int(grid.tile_size[0]), int(grid.tile_size[1])
        self.ul = bool(grid.flipped_y_axis)
        self.sf = frac(grid.stretch_factor) if stretch is None else stretch
        self.shr = frac(grid.max_shrink_factor) if shrink is None else shrink
        den = extra_den
        for v in self.bbox + self.res:
            den = lcm(den, v.denominator)
        self.S = den * 10

    def z(self, v):
        """scaled integer of a double / Fraction (must be exact)."""
        q = frac(v) * self.S
        if q.denominator != 1:
            raise ValueError('value %r not representable at scale %d' % (v, self.S))
        return int(q)

    def can_scale(self, *vals):
        return all((frac(v) * self.S).denominator == 1 for v in vals)

    def gallina(self):
        return '(mkGrid %s %s %s %s %d %d %s %s %d %d %d %d)' % (
            zlit(self.z(self.bbox[0])), zlit(self.z(self.bbox[1])), zlit(self.z(self.bbox[2])), zlit(self.z(self.bbox[3])),
            self.tw, self.th, llit([self.z(r) for r in self.res]), blit(self.ul),
            self.sf.numerator, self.sf.denominator, self.shr.numerator, self.shr.denominator)

    def definition(self):
        return 'Definition %s : grid := %s.' % (self.name, self.gallina())

    def zbbox(self, b):
        return '(%s, %s, %s, %s)' % tuple(zlit(self.z(v)) for v in b)

    # exact geometry (independent of the Coq model; used by oracles)
    def tile_rect(self, x, y, l):
        r = self.res[l]
        x0 = self.bbox[0] + x * r * self.tw
        x1 = x0 + r * self.tw
        if self.ul:
            y1 = self.bbox[3] - y * r * self.th
            y0 = y1 - r * self.th
        else:
            y0 = self.bbox[1] + y * r * self.th
            y1 = y0 + r * self.th
        return (x0, y0, x1, y1)

    def grid_size(self, l):
        r = self.res[l]
        w = self.bbox[2] - self.bbox[0]
        h = self.bbox[3] - self.bbox[1]
        nx = max(math.ceil(Fraction(math.floor(w / r), self.tw)), 1)
        ny = max(math.ceil(Fraction(math.floor(h / r), self.th)), 1)
        return nx, ny

    def tile_pos(self, px, py, l):
        """exact fractional tile position of a point."""
        r = self.res[l]
        fx = (frac(px) - self.bbox[0]) / (r * self.tw)
        fy = ((self.bbox[3] - frac(py)) if self.ul else (frac(py) - self.bbox[1])) / (r * self.th)
        return fx, fy


def near_integer(f, rel=Fraction(1, 10**9)):
    """True when the Fraction f is within rel*max(1,|f|) of an integer (float rounding may decide either way)."""
    n = round(f)
    return abs(f - n) <= rel * max(1, abs(f))


def is_exact_float_grid(gc):
    """All parameters are integers of moderate size: every float operation of grid.py on them is exact."""
    vals = gc.bbox + gc.res
    return all(v.denominator == 1 and abs(v) < 2**26 for v in vals) and all(r % 10 == 0 for r in gc.res)
