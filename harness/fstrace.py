"""Raw file-system tracing for the storing code of MapProxy (properties C06 and C19).

`Tracer(root)` records, in issue order, the operations that reach the operating system:

    ('create', path)                 os.open(path, O_CREAT|O_EXCL|...) or open(path, 'wb'/'w+b') creating/truncating
    ('write', path, offset, bytes)   one raw write(2): FileIO.write below the Python buffer layer
    ('rename', src, dst)  ('unlink', path)  ('symlink', target_text, path)  ('link', src, dst)
    ('mkdir', path)  ('chmod', path)

Paths are relative to `root`.  The interposition is done per module: the module-level names `open` and `os`
of the modules given to `Tracer.patch` are replaced (`os` by a proxy that forwards everything except the
calls listed above), so that nothing outside the code under test is disturbed.  A buffered file object opened
through the tracer is an `io.BufferedRandom/BufferedWriter/BufferedReader` over a `FileIO` subclass that logs
`(tell(), bytes)` of every raw write: what is recorded is what CPython hands to write(2), *after* buffering.

File identity: a raw write is recorded under the name the file has *at the time of the write*: the tracer follows
every open raw file across the renames and unlinks it records (a file that was renamed after it was opened is
written under its new name; writes to a file that has no name any more are recorded as ('write-unlinked', old
path, offset, bytes) and have no visible effect).  So every prefix of a recorded sequence can be replayed by path.

`replay(ops, directory)` applies a list of recorded operations (or a prefix, or a prefix with a shortened
last write) to a directory: this rebuilds the state a crash would leave behind.
"""
import io
import os as _os
import shutil
import weakref


class _RawFile(io.FileIO):
    """FileIO that logs every raw write with the offset it lands at."""

    def __init__(self, tracer, path, name, mode, **kw):
        io.FileIO.__init__(self, name, mode, **kw)
        self._tracer = tracer
        self._tpath = tracer.canon(path)      # current name of the file (None once it has no name)
        self._told = self._tpath
        tracer.live.add(self)

    def write(self, b):
        pos = self.tell()
        b = self._tracer.shorten(bytes(b))
        n = io.FileIO.write(self, b)
        if n is None:
            n = 0
        if self._tpath is None:
            self._tracer.log(('write-unlinked', self._tracer.rel(self._told), pos, b[:n]))
        else:
            self._tracer.log(('write', self._tracer.rel(self._tpath), pos, b[:n]))
        return n

    def truncate(self, size=None):
        r = io.FileIO.truncate(self, size)
        if self._tpath is not None:
            self._tracer.log(('truncate', self._tracer.rel(self._tpath), r))
        return r


class _OsProxy(object):
    """Stands in for the `os` module inside one traced module."""

    def __init__(self, tracer):
        object.__setattr__(self, '_t', tracer)

    def __getattr__(self, name):
        return getattr(_os, name)

    # --- intercepted calls
    def open(self, path, flags, mode=0o777, **kw):
        t = self._t
        existed = _os.path.lexists(path)
        fd = _os.open(path, flags, mode, **kw)
        if flags & _os.O_CREAT and not existed:
            t.log(('create', t.rel(path)))
        elif flags & _os.O_TRUNC:
            t.log(('create', t.rel(path)))
        t.fd_paths[fd] = path
        return fd

    def fdopen(self, fd, mode='r', *a, **kw):
        t = self._t
        path = t.fd_paths.pop(fd, None)
        if path is None or 'b' not in mode:
            return _os.fdopen(fd, mode, *a, **kw)
        raw = _RawFile(t, path, fd, mode.replace('b', ''), closefd=True)
        if '+' in mode:
            return io.BufferedRandom(raw)
        if 'w' in mode or 'a' in mode:
            return io.BufferedWriter(raw)
        return io.BufferedReader(raw)

    # --- raw writes through a file descriptor, next to a (buffered) file object or without one
    def pwrite(self, fd, data, offset):
        data = self._t.shorten(bytes(data)) if self._t.path_of_fd(fd) is not None else data
        n = _os.pwrite(fd, data, offset)
        path = self._t.path_of_fd(fd)
        if path is not None:
            self._t.log(('write', self._t.rel(path), offset, bytes(data)[:n]))
        return n

    def write(self, fd, data):
        path = self._t.path_of_fd(fd)
        pos = _os.lseek(fd, 0, 1) if path is not None else None
        if path is not None:
            data = self._t.shorten(bytes(data))
        n = _os.write(fd, data)
        if path is not None:
            self._t.log(('write', self._t.rel(path), pos, bytes(data)[:n]))
        return n

    def close(self, fd):
        self._t.fd_paths.pop(fd, None)
        return _os.close(fd)

    def rename(self, src, dst, **kw):
        _os.rename(src, dst, **kw)
        self._t.moved(src, dst)
        self._t.log(('rename', self._t.rel(src), self._t.rel(dst)))

    def replace(self, src, dst, **kw):
        _os.replace(src, dst, **kw)
        self._t.moved(src, dst)
        self._t.log(('rename', self._t.rel(src), self._t.rel(dst)))

    def unlink(self, path, **kw):
        _os.unlink(path, **kw)
        self._t.moved(path, None)
        self._t.log(('unlink', self._t.rel(path)))

    def remove(self, path, **kw):
        _os.remove(path, **kw)
        self._t.moved(path, None)
        self._t.log(('unlink', self._t.rel(path)))

    def symlink(self, src, dst, **kw):
        _os.symlink(src, dst, **kw)
        self._t.log(('symlink', src, self._t.rel(dst)))

    def link(self, src, dst, **kw):
        _os.link(src, dst, **kw)
        self._t.log(('link', self._t.rel(src), self._t.rel(dst)))

    def mkdir(self, path, *a, **kw):
        _os.mkdir(path, *a, **kw)
        self._t.log(('mkdir', self._t.rel(path)))

    def chmod(self, path, *a, **kw):
        _os.chmod(path, *a, **kw)
        self._t.log(('chmod', self._t.rel(path)))


class Tracer(object):
    def __init__(self, root):
        self.root = _os.path.realpath(root)
        self.ops = []
        self.fd_paths = {}
        self._patched = []
        self.enabled = True
        self.live = weakref.WeakSet()      # open raw files, to follow them across rename / unlink
        self.short_write = False           # fault: the next raw write of more than one byte is a short write

    def shorten(self, b):
        """fault injection: when armed, the next raw write accepts only the first half of its bytes (write(2) may
        return a short count: disk nearly full, RLIMIT_FSIZE, signal); the caller sees the short count."""
        if self.short_write and self.enabled and len(b) > 1:
            self.short_write = False
            return b[:len(b) // 2]
        return b

    # --- recording
    def canon(self, path):
        p = _os.path.abspath(_os.fsdecode(path))
        d, b = _os.path.split(p)
        return _os.path.join(_os.path.realpath(d), b)     # do not resolve a final symlink component

    def path_of_fd(self, fd):
        """current name of the file behind a descriptor that was opened through the tracer (None: not ours / no name)"""
        for f in list(self.live):
            try:
                if not f.closed and f.fileno() == fd:
                    return f._tpath
            except (OSError, ValueError):
                pass
        p = self.fd_paths.get(fd)
        return None if p is None else self.canon(p)

    def moved(self, src, dst):
        """the directory entry src now is dst (rename) or is gone (dst None): re-name the open files behind it."""
        src = self.canon(src)
        dst = None if dst is None else self.canon(dst)
        for f in list(self.live):
            if f.closed:
                continue
            if dst is not None and f._tpath == dst:
                f._tpath = None                # the file that was replaced has no name any more
            elif f._tpath == src:
                f._tpath = dst

    def rel(self, path):
        p = self.canon(path)
        if p == self.root:
            return '.'
        if p.startswith(self.root + _os.sep):
            return p[len(self.root) + 1:]
        return p

    def log(self, op):
        if self.enabled:
            self.ops.append(op)

    def take(self):
        ops, self.ops = self.ops, []
        return ops

    # --- the replacement of the builtin open
    def traced_open(self, name, mode='r', buffering=-1, *a, **kw):
        if 'b' not in mode or not isinstance(name, (str, bytes)):
            return io.open(name, mode, buffering, *a, **kw)
        m = mode.replace('b', '')
        writable = any(c in m for c in 'wa+x')
        if not writable:
            return io.open(name, mode, buffering, *a, **kw)
        existed = _os.path.lexists(name)
        raw = _RawFile(self, name, name, m)
        if ('w' in m) or ('x' in m) or (not existed):
            self.log(('create', self.rel(name)))
        if '+' in m:
            return io.BufferedRandom(raw)
        return io.BufferedWriter(raw)

    # --- patching
    def patch(self, *modules):
        """Replace `open` and `os` in the given (already imported) modules."""
        proxy = _OsProxy(self)
        self.proxy = proxy      # callers may set attributes on it (e.g. proxy.getpid = stub)
        for mod in modules:
            saved = {}
            for name, repl in (('open', self.traced_open), ('os', proxy)):
                had = name in mod.__dict__
                saved[name] = (had, mod.__dict__.get(name))
                if name == 'os' and not had:
                    continue
                setattr(mod, name, repl)
            self._patched.append((mod, saved))
        return self

    def unpatch(self):
        for mod, saved in reversed(self._patched):
            for name, (had, val) in saved.items():
                if had:
                    setattr(mod, name, val)
                elif name in mod.__dict__:
                    delattr(mod, name)
        self._patched = []

    def __enter__(self):
        return self

    def __exit__(self, *a):
        self.unpatch()


def store_modules():
    """The modules whose file-system calls make up a store (imported lazily)."""
    import mapproxy.util.fs
    import mapproxy.cache.file
    import mapproxy.cache.compact
    import mapproxy.cache.legend
    import mapproxy.seed.util
    return [mapproxy.util.fs, mapproxy.cache.file, mapproxy.cache.compact, mapproxy.cache.legend,
            mapproxy.seed.util]


# ------------------------------------------------------------------------------------------ replay

def apply_op(root, op, cut=None):
    """Apply one recorded operation below `root`.  `cut` shortens a write to its first `cut` bytes."""
    kind = op[0]
    def p(r):
        if not _os.path.isabs(r):
            return _os.path.join(root, r)
        # a path outside the traced root (e.g. a temp file in the system temp directory) is replayed in a shadow
        # directory next to the replay root, never at its real place
        q = _os.path.join(root.rstrip(_os.sep) + '.outside', r.lstrip(_os.sep))
        _os.makedirs(_os.path.dirname(q), exist_ok=True)
        return q
    if kind == 'create':
        fd = _os.open(p(op[1]), _os.O_CREAT | _os.O_WRONLY | _os.O_TRUNC, 0o664)
        _os.close(fd)
    elif kind == 'write':
        data = op[3] if cut is None else op[3][:cut]
        fd = _os.open(p(op[1]), _os.O_WRONLY)
        try:
            _os.lseek(fd, op[2], 0)
            if data:
                _os.write(fd, data)
        finally:
            _os.close(fd)
    elif kind == 'write-unlinked':
        pass
    elif kind == 'truncate':
        _os.truncate(p(op[1]), op[2])
    elif kind == 'rename':
        _os.rename(p(op[1]), p(op[2]))
    elif kind == 'unlink':
        _os.unlink(p(op[1]))
    elif kind == 'symlink':
        _os.symlink(op[1], p(op[2]))
    elif kind == 'link':
        _os.link(p(op[1]), p(op[2]))
    elif kind == 'mkdir':
        _os.makedirs(p(op[1]), exist_ok=True)
    elif kind == 'chmod':
        pass
    else:
        raise ValueError('unknown op %r' % (op,))


def replay(ops, root, last_cut=None):
    for i, op in enumerate(ops):
        apply_op(root, op, last_cut if (i == len(ops) - 1 and op[0] == 'write') else None)


def copy_tree(src, dst):
    """Copy a directory tree preserving symlinks and hard-link structure is NOT needed here: hard links are
    copied as independent files (the readers only look at content)."""
    if _os.path.exists(dst):
        shutil.rmtree(dst)
    shutil.rmtree(dst.rstrip(_os.sep) + '.outside', ignore_errors=True)
    shutil.copytree(src, dst, symlinks=True)
    if _os.path.isdir(src.rstrip(_os.sep) + '.outside'):
        shutil.copytree(src.rstrip(_os.sep) + '.outside', dst.rstrip(_os.sep) + '.outside', symlinks=True)
