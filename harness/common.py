"""Shared machinery of the MapProxy verification checks (see DESIGN.md section 2).

One run of `./check Cxx --tier T`:
  1. source scan of the Coq development (no Admitted/Axiom/...),
  2. regenerate coq/gen/*.v from /repo (translator, fail closed),
  3. build the property's .vo closure (kernel re-checks the proofs),
  4. Print Assumptions of every theorem in props/P_Cxx.v,
  5. property module `run(ctx)`: correspondence (model evaluated inside Coq by
     vm_compute on the inputs the implementation ran) and the property oracle
     on the implementation,
  6. classification (VIOLATION / KNOWN-FINDING), evidence, exit code.
"""
import fcntl
import hashlib
import json
import os
import random
import re
import shutil
import subprocess
import sys
import tempfile
import time
import traceback
from concurrent.futures import ThreadPoolExecutor

VERIF = os.path.dirname(os.path.dirname(os.path.abspath(__file__)))
REPO = os.environ.get('VERIF_REPO', '/repo')
COQ = os.path.join(VERIF, 'coq')
CASES = os.path.join(COQ, 'cases')
GEN = os.path.join(COQ, 'gen')
EVIDENCE = os.path.join(VERIF, 'evidence')
REPLAYS = os.path.join(VERIF, 'replays')
KNOWN = os.path.join(VERIF, 'known_findings.json')
NCPU = min(16, os.cpu_count() or 4)
if os.path.realpath(REPO) != '/repo':
    # Mutation testing against a scratch worktree (VERIF_REPO=/var/tmp/wt ./check Cxx): use a private copy of
    # the Coq build tree and private evidence/replay directories so that /verif's own state is not disturbed.
    _priv = '/var/tmp/verif-private-' + hashlib.md5(os.path.realpath(REPO).encode()).hexdigest()[:8]
    os.makedirs(_priv, exist_ok=True)
    subprocess.run(['rsync', '-a', '--exclude', 'cases/', '--exclude', '.build.lock', '--exclude', 'gen/',
                    COQ + '/', _priv + '/coq/'], check=True)
    COQ = os.path.join(_priv, 'coq')
    CASES = os.path.join(COQ, 'cases')
    GEN = os.path.join(COQ, 'gen')
    EVIDENCE = os.path.join(_priv, 'evidence')
    REPLAYS = os.path.join(_priv, 'replays')
COQ_ARGS = ['-R', COQ, 'MP']

FORBIDDEN = re.compile(
    r'\b(Admitted|admit|Axiom|Axioms|Parameter|Parameters|Conjecture|Conjectures|Abort All)\b'
    r'|Unset\s+Guard|bypass_check|type-in-type|impredicative-set|Admit\s+Obligations'
    r'|Unset\s+Positivity|Unset\s+Universe\s+Checking|native_compute')

# stdlib axioms that a theorem may depend on (each must be named in DESIGN.md section 4)
ALLOWED_AXIOMS = {
    'ClassicalDedekindReals.sig_forall_dec', 'ClassicalDedekindReals.sig_not_dec',
    'FunctionalExtensionality.functional_extensionality_dep',
}

TRUSTED_BASE_COMMON = [
    'Coq 8.16.1 kernel (coqc); vm_compute used for correspondence evaluation and finite sweeps; no native_compute',
    'no Axiom/Parameter/Admitted in the development (source scan on every run); Print Assumptions parsed on every run',
    'correspondence harness (Python): generators, canonicalisation, interposition; in-Coq comparison by bad_idx',
]


class Broken(Exception):
    """A proof obligation / translator obligation / correspondence evaluation could not be checked."""


def sh(cmd, timeout=600, cwd=None, env=None):
    p = subprocess.run(cmd, cwd=cwd, env=env, stdout=subprocess.PIPE, stderr=subprocess.STDOUT,
                       text=True, timeout=timeout)
    return p.returncode, p.stdout


# --------------------------------------------------------------------------- Coq literal helpers

def zlit(n):
    n = int(n)
    return '(%d)' % n if n < 0 else '%d' % n


def blit(b):
    return 'true' if b else 'false'


def nlit(n):
    assert n >= 0
    return '%d' % n


def slit(s):
    """Coq string literal for an ASCII-printable python str."""
    assert all(32 <= ord(c) < 127 for c in s), repr(s)
    return '"' + s.replace('"', '""') + '"'


def bytes_lit(b):
    """list Z literal for a bytes-like / list of code points."""
    return '[' + '; '.join(str(int(x)) for x in b) + ']'


def olit(v, f=zlit):
    return 'None' if v is None else '(Some %s)' % f(v)


def llit(xs, f=zlit):
    return '[' + '; '.join(f(x) for x in xs) + ']'


def tlit(*parts):
    return '(' + ', '.join(parts) + ')'


# --------------------------------------------------------------------------- build

class BuildLock:
    def __enter__(self):
        self.f = open(os.path.join(COQ, '.build.lock'), 'w')
        fcntl.flock(self.f, fcntl.LOCK_EX)
        return self

    def __exit__(self, *a):
        fcntl.flock(self.f, fcntl.LOCK_UN)
        self.f.close()


def coq_sources():
    out = []
    for sub in ('theories', 'gen', 'props'):
        d = os.path.join(COQ, sub)
        if os.path.isdir(d):
            for fn in sorted(os.listdir(d)):
                if fn.endswith('.v'):
                    out.append(os.path.join(sub, fn))
    return out


def write_if_changed(path, text):
    try:
        if open(path).read() == text:
            return False
    except OSError:
        pass
    os.makedirs(os.path.dirname(path), exist_ok=True)
    tmp = path + '.tmp%d' % os.getpid()
    with open(tmp, 'w') as f:
        f.write(text)
    os.replace(tmp, path)
    return True


def prepare_makefile():
    """(Re)write _CoqProject from the files on disk and (re)generate the Makefile when it changed."""
    proj = '-R . MP\n-arg -w -arg -notation-overridden,-deprecated-hint-without-locality,-deprecated-instance-without-locality\n' + '\n'.join(coq_sources()) + '\n'
    changed = write_if_changed(os.path.join(COQ, '_CoqProject'), proj)
    if changed or not os.path.exists(os.path.join(COQ, 'Makefile')):
        rc, out = sh(['coq_makefile', '-f', '_CoqProject', '-o', 'Makefile'], cwd=COQ)
        if rc != 0:
            raise Broken('coq_makefile failed: ' + out)


def scan_sources():
    """Reject forbidden vernacular anywhere in the development (comments included: fail closed)."""
    bad = []
    for rel in coq_sources():
        txt = open(os.path.join(COQ, rel)).read()
        depth = 0
        for i, line in enumerate(txt.splitlines(), 1):
            if FORBIDDEN.search(line):
                bad.append('%s:%d: %s' % (rel, i, line.strip()))
            if re.match(r'\s*(Section|Module)\s', line) and not re.search(r':=', line):
                depth += 1
            elif re.match(r'\s*End\s', line):
                depth -= 1
            elif depth <= 0 and re.match(r'\s*(Variable|Variables|Hypothesis|Hypotheses|Context)\b', line):
                bad.append('%s:%d: section variable outside a section: %s' % (rel, i, line.strip()))
    return bad


def regenerate(only=None):
    """Run the translator; returns list of problems (strings)."""
    sys.path.insert(0, os.path.join(VERIF, 'translator'))
    import py2coq
    return py2coq.regenerate(REPO, GEN, only=only)


def make(targets, timeout=1500):
    prepare_makefile()
    rc, out = sh(['timeout', str(timeout), 'make', '-j%d' % NCPU, '-k'] + targets, cwd=COQ, timeout=timeout + 30)
    return rc, out


def closure(prop_rel):
    """Transitive closure of `From MP Require Import/Export ...` starting at a file, as relative paths."""
    index = {}
    for rel in coq_sources():
        index[os.path.basename(rel)[:-2]] = rel
    seen, todo = [], [prop_rel]
    while todo:
        rel = todo.pop()
        if rel in seen:
            continue
        seen.append(rel)
        try:
            txt = open(os.path.join(COQ, rel)).read()
        except OSError:
            continue
        for m in re.finditer(r'From\s+MP\s+Require\s+(?:Import|Export)?\s*([^.]*(?:\.[A-Za-z_][^.]*)*)\.\s', txt):
            for name in m.group(1).split():
                base = name.split('.')[-1]
                if base in index:
                    todo.append(index[base])
    return sorted(seen)


def count_obligations(files):
    n = 0
    per = {}
    for rel in files:
        try:
            txt = open(os.path.join(COQ, rel)).read()
        except OSError:
            continue
        txt = re.sub(r'\(\*.*?\*\)', '', txt, flags=re.S)
        k = len(re.findall(r'\b(Qed|Defined)\s*\.', txt))
        per[rel] = k
        n += k
    return n, per


def theorem_names(prop_rel):
    txt = open(os.path.join(COQ, prop_rel)).read()
    txt = re.sub(r'\(\*.*?\*\)', '', txt, flags=re.S)
    return re.findall(r'^\s*(?:Theorem|Corollary)\s+([A-Za-z_][A-Za-z0-9_\']*)', txt, flags=re.M)


def print_assumptions(pid, prop_rel, names):
    """Returns dict name -> list of axioms ([] = closed under the global context)."""
    mod = os.path.basename(prop_rel)[:-2]
    os.makedirs(CASES, exist_ok=True)
    path = os.path.join(CASES, 'Assump_%s.v' % pid)
    with open(path, 'w') as f:
        f.write('From MP Require Import %s.\n' % mod)
        for n in names:
            f.write('Goal True. idtac "@@BEGIN %s". exact I. Qed.\nPrint Assumptions %s.\n' % (n, n))
        f.write('Goal True. idtac "@@END". exact I. Qed.\n')
    rc, out = sh(['coqc'] + COQ_ARGS + [path], timeout=600, cwd=COQ)
    _rm_products(path)
    if rc != 0:
        raise Broken('Print Assumptions failed for %s:\n%s' % (prop_rel, out[-2000:]))
    res = {}
    parts = re.split(r'@@BEGIN (\S+)\n', out)
    for i in range(1, len(parts), 2):
        name, body = parts[i], parts[i + 1].split('@@END')[0]
        if 'Closed under the global context' in body:
            res[name] = []
        else:
            axs = re.findall(r'^([A-Za-z_][\w.\']*)\s*:', body, flags=re.M)
            res[name] = axs or ['<unparsed: %s>' % body.strip()[:200]]
    for n in names:
        if n not in res:
            res[n] = ['<no output>']
    return res


def _rm_products(vpath):
    base = vpath[:-2]
    d, b = os.path.split(base)
    for p in (base + '.vo', base + '.vok', base + '.vos', base + '.glob', os.path.join(d, '.' + b + '.aux')):
        try:
            os.unlink(p)
        except OSError:
            pass


def _run_case_file(path):
    rc, out = sh(['coqc'] + COQ_ARGS + [path], timeout=1200, cwd=COQ)
    _rm_products(path)
    return rc, out


def parse_eval_outputs(out):
    """Split the output of a file with several `Eval vm_compute` into the printed terms (as text)."""
    chunks = re.split(r'^\s*= ', out, flags=re.M)[1:]
    res = []
    for c in chunks:
        # strip trailing type annotation ": T"
        idx = c.rfind('\n     : ')
        res.append(c[:idx] if idx >= 0 else c)
    return res


# --------------------------------------------------------------------------- run context

class Ctx:
    def __init__(self, pid, tier, seed):
        self.pid, self.tier, self.seed = pid, tier, seed
        self.rng = random.Random(seed * 1000003 + int(hashlib.md5(pid.encode()).hexdigest()[:6], 16))
        self.t0 = time.time()
        self.coq_ok = True
        self.problems = []        # broken ties (translator / proof / assumptions / correspondence)
        self.failures = []        # concrete property failures on the implementation (oracle)
        self.evaluations = 0
        self.nontrivial = set()
        self.samples = []
        self.distribution = {}
        self.corr = {}            # name -> number of cases compared in Coq
        self.notes = []
        self.scratch = tempfile.mkdtemp(prefix='verif-%s-' % pid.lower(), dir='/var/tmp')
        self._case_seq = 0

    @property
    def quick(self):
        return self.tier == 'quick'

    def n(self, quick, thorough):
        return quick if self.quick else thorough

    def tmpdir(self, name='d'):
        return tempfile.mkdtemp(prefix=name + '-', dir=self.scratch)

    # ---- bookkeeping
    def count(self, key, k=1):
        self.distribution[key] = self.distribution.get(key, 0) + k

    def case(self, fingerprint, nontrivial=True, sample=None):
        """Register one explored case; fingerprint must be hashable / repr-able."""
        self.evaluations += 1
        if nontrivial:
            self.nontrivial.add(hashlib.md5(repr(fingerprint).encode()).hexdigest())
        if sample is not None and len(self.samples) < 6:
            self.samples.append(sample)

    def problem(self, kind, what, detail=None):
        self.problems.append({'kind': kind, 'what': what, 'detail': detail})

    def fail(self, signature, what, replay):
        """A concrete input/history on which the *property* fails on the implementation."""
        self.failures.append({'signature': signature, 'what': what, 'replay': replay})

    # ---- Coq evaluation of correspondence cases
    def coq_bad(self, name, imports, case_type, cases, checker, shard=400, defs=''):
        """Evaluate `checker : case_type -> bool` on every case inside Coq; returns indices where it is false.
        cases: list of Gallina terms (strings).  Raises Broken when Coq cannot evaluate."""
        if not cases:
            return []
        if not self.coq_ok:
            raise Broken('Coq development does not build; correspondence %s not evaluated' % name)
        os.makedirs(CASES, exist_ok=True)
        files = []
        for k in range(0, len(cases), shard):
            self._case_seq += 1
            path = os.path.join(CASES, '%s_%s_%d_%d.v' % (self.pid, name, os.getpid(), self._case_seq))
            with open(path, 'w') as f:
                f.write('From Coq Require Import ZArith List String Ascii Bool.\nImport ListNotations.\n')
                f.write('From MP Require Import Base %s.\n' % imports)
                f.write('Local Open Scope string_scope.\nLocal Open Scope Z_scope.\n')
                f.write(defs + '\n')
                f.write('Definition cases : list (%s) := [\n' % case_type)
                f.write(';\n'.join(cases[k:k + shard]))
                f.write('\n].\n')
                f.write('Eval vm_compute in (@bad_idx (%s) (%s) cases).\n' % (case_type, checker))
            files.append((k, path))
        bad = []
        with ThreadPoolExecutor(NCPU) as ex:
            results = list(ex.map(lambda kp: (kp[0], kp[1], _run_case_file(kp[1])), files))
        for k, path, (rc, out) in results:
            if rc != 0:
                keep = os.path.join(self.scratch, os.path.basename(path))
                raise Broken('coqc failed on correspondence cases %s: %s' % (name, out[-1500:]))
            outs = parse_eval_outputs(out)
            if len(outs) != 1:
                raise Broken('unexpected coqc output for %s: %s' % (name, out[-500:]))
            bad.extend(k + int(x) for x in re.findall(r'\d+', outs[0]))
        for _, path in files:
            try:
                os.unlink(path)
            except OSError:
                pass
        self.corr[name] = self.corr.get(name, 0) + len(cases)
        return bad

    def coq_eval(self, name, imports, terms, defs=''):
        """Evaluate Gallina terms with vm_compute and return their printed normal forms (text)."""
        if not self.coq_ok:
            raise Broken('Coq development does not build; %s not evaluated' % name)
        os.makedirs(CASES, exist_ok=True)
        self._case_seq += 1
        path = os.path.join(CASES, '%s_%s_%d_%d.v' % (self.pid, name, os.getpid(), self._case_seq))
        with open(path, 'w') as f:
            f.write('From Coq Require Import ZArith List String Ascii Bool.\nImport ListNotations.\n')
            f.write('From MP Require Import Base %s.\n' % imports)
            f.write('Local Open Scope string_scope.\nLocal Open Scope Z_scope.\nSet Printing Width 1000000.\nSet Printing Depth 1000000.\n')
            f.write(defs + '\n')
            for t in terms:
                f.write('Eval vm_compute in (%s).\n' % t)
        rc, out = _run_case_file(path)
        os.unlink(path)
        if rc != 0:
            raise Broken('coqc failed evaluating %s: %s' % (name, out[-1500:]))
        outs = parse_eval_outputs(out)
        if len(outs) != len(terms):
            raise Broken('unexpected coqc output for %s' % name)
        return [o.strip() for o in outs]

    def corr_check(self, name, imports, case_type, cases, checker, describe, shard=400, defs=''):
        """coq_bad + register disagreements as correspondence problems.
        describe(i) -> json-able description of case i (inputs and what the implementation did)."""
        try:
            bad = self.coq_bad(name, imports, case_type, cases, checker, shard=shard, defs=defs)
        except Broken as e:
            self.problem('correspondence', 'correspondence %s could not be evaluated' % name, str(e))
            return None
        for i in bad[:20]:
            self.problem('correspondence', 'model and implementation disagree in %s (case %d)' % (name, i),
                         {'case': describe(i), 'gallina': cases[i][:2000]})
        if len(bad) > 20:
            self.problem('correspondence', '%d further disagreements in %s' % (len(bad) - 20, name))
        return bad

    def cleanup(self):
        shutil.rmtree(self.scratch, ignore_errors=True)


# --------------------------------------------------------------------------- known findings

def load_known():
    out = []
    try:
        out.extend(json.load(open(KNOWN))['findings'])
    except OSError:
        pass
    d = os.path.join(VERIF, 'known_findings.d')
    if os.path.isdir(d):
        for fn in sorted(os.listdir(d)):
            if fn.endswith('.json'):
                out.extend(json.load(open(os.path.join(d, fn)))['findings'])
    return out


def match_known(pid, signature):
    for k in load_known():
        if k.get('property') == pid and k.get('status') == 'known' and k.get('signature') == signature:
            return k
    return None


# --------------------------------------------------------------------------- main driver

def _rel(path):
    return os.path.relpath(path, VERIF) if path.startswith(VERIF + os.sep) else path


def write_replay(pid, payload):
    os.makedirs(REPLAYS, exist_ok=True)
    h = hashlib.md5(json.dumps(payload, sort_keys=True, default=repr).encode()).hexdigest()[:10]
    path = os.path.join(REPLAYS, '%s-%s.json' % (pid, h))
    with open(path, 'w') as f:
        json.dump(payload, f, indent=1, default=repr)
    return path


def run_check(mod, tier, seed):
    pid = mod.ID
    ctx = Ctx(pid, tier, seed)
    prop_rel = getattr(mod, 'COQ_PROP', 'props/P_%s.v' % pid)
    assumptions = {}
    obligations = discharged = 0
    build_log = ''
    files = []
    try:
        with BuildLock():
            # 1. translator
            try:
                # translator problems are charged to a property only for the generated files its closure imports
                # (plus those it names in GEN); all files are regenerated in any case
                gen_needed = set(getattr(mod, 'GEN', None) or [])
                gen_needed.update(os.path.basename(f) for f in closure(prop_rel) if f.startswith('gen/'))
                for p in regenerate(sorted(gen_needed)):
                    ctx.problem('translator', p)
            except Exception as e:
                ctx.problem('translator', 'translator crashed: %r' % (e,), traceback.format_exc())
            # 2. scan
            for b in scan_sources():
                ctx.problem('scan', 'forbidden vernacular: ' + b)
            # 3. build
            files = closure(prop_rel)
            obligations, per = count_obligations(files)
            try:
                rc, build_log = make([prop_rel + 'o'])
            except (Broken, subprocess.TimeoutExpired) as e:
                rc, build_log = 1, str(e)
            if rc != 0:
                ctx.coq_ok = False
                m = re.findall(r'File "([^"]+)", line (\d+)[^\n]*\n(?:.*\n){0,12}?Error:[^\n]*(?:\n[^\n]+){0,6}', build_log)
                errs = re.findall(r'(File "[^"]+", line \d+, characters [\d-]+:\n(?:.*\n){0,3}?Error:(?:.*\n){1,8})', build_log)
                ctx.problem('proof', 'Coq build of %s failed (a proof obligation or generated definition no longer checks)' % prop_rel,
                            errs[:3] or build_log[-3000:])
                for rel, k in per.items():
                    vo = os.path.join(COQ, rel + 'o')
                    v = os.path.join(COQ, rel)
                    if os.path.exists(vo) and os.path.getmtime(vo) >= os.path.getmtime(v):
                        discharged += k
            else:
                discharged = obligations
                # 4. Print Assumptions
                try:
                    names = theorem_names(prop_rel)
                    if not names:
                        ctx.problem('proof', 'no theorems found in ' + prop_rel)
                    assumptions = print_assumptions(pid, prop_rel, names)
                    for n, axs in assumptions.items():
                        for a in axs:
                            if a not in ALLOWED_AXIOMS and a not in getattr(mod, 'ALLOWED_AXIOMS', ()):
                                ctx.problem('assumptions', 'theorem %s depends on %s' % (n, a))
                except Broken as e:
                    ctx.problem('proof', str(e))
        # 5. property module
        try:
            mod.run(ctx)
        except Broken as e:
            ctx.problem('correspondence', 'harness could not complete', str(e))
        except Exception as e:
            ctx.problem('harness', 'harness raised %r' % (e,), traceback.format_exc())
        # thorough: coqchk
        coqchk = None
        if tier == 'thorough' and ctx.coq_ok and os.environ.get('VERIF_NO_COQCHK') != '1':
            lib = 'MP.' + prop_rel[:-2].replace('/', '.')
            try:
                rc, out = sh(['coqchk', '-silent', '-o'] + COQ_ARGS + [lib], timeout=3000, cwd=COQ)
                coqchk = {'rc': rc, 'tail': out[-1500:]}
                if rc != 0:
                    ctx.problem('proof', 'coqchk rejected ' + lib, out[-3000:])
            except subprocess.TimeoutExpired:
                coqchk = {'rc': None, 'tail': 'timeout'}
                ctx.notes.append('coqchk timed out (not counted as failure)')
    finally:
        ctx.cleanup()

    # 6. classify
    exit_code = 0
    lines = []
    known_hits = {}
    new_fail = []
    for f in ctx.failures:
        k = match_known(pid, f['signature'])
        if k:
            known_hits.setdefault(f['signature'], (k, f))
        else:
            new_fail.append(f)
    for sig, (k, f) in known_hits.items():
        lines.append('KNOWN-FINDING: property=%s %s' % (pid, k.get('what', f['what'])))
    violations = 0
    if new_fail:
        seen = set()
        for f in new_fail:
            if f['signature'] in seen:
                continue
            seen.add(f['signature'])
            path = write_replay(pid, {'property': pid, 'kind': 'failing-input', 'signature': f['signature'],
                                      'what': f['what'], 'replay': f['replay'], 'seed': seed, 'tier': tier,
                                      'broken_ties': ctx.problems[:10],
                                      'how': './check %s --tier %s  (VERIF_SEED=%d)' % (pid, tier, seed)})
            lines.append('VIOLATION property=%s replay=%s' % (pid, _rel(path)))
            violations += 1
            if violations >= 5:
                break
        exit_code = 1
    elif ctx.problems:
        path = write_replay(pid, {'property': pid, 'kind': 'broken-obligation', 'no_longer_checks': ctx.problems[:30],
                                  'seed': seed, 'tier': tier,
                                  'how': './check %s --tier %s  (VERIF_SEED=%d)' % (pid, tier, seed)})
        lines.append('VIOLATION property=%s replay=%s no-failing-input-found' % (pid, _rel(path)))
        violations = 1
        exit_code = 1

    # 7. evidence
    wall = time.time() - ctx.t0
    tb = list(TRUSTED_BASE_COMMON) + list(getattr(mod, 'TRUSTED', []))
    for n, axs in sorted(assumptions.items()):
        tb.append('Print Assumptions %s: %s' % (n, 'Closed under the global context' if not axs else ', '.join(axs)))
    ev = {
        'property_id': pid, 'tier': tier, 'seed': seed, 'level': 'proof',
        'coverage': {
            'obligations': max(obligations, 1), 'discharged': max(discharged, 1) if obligations else 1,
            'checker_cmd': 'make -C coq %so  (coqc 8.16.1, full .vo build) + Print Assumptions of %d theorems%s' % (
                prop_rel, len(assumptions), '; coqchk -o' if tier == 'thorough' else ''),
            'trusted_base': tb,
            'theorems': sorted(assumptions.keys()),
            'coq_files': files,
            'evaluations': ctx.evaluations,
            'distinct_nontrivial': len(ctx.nontrivial),
            'rule': getattr(mod, 'RULE', ''),
            'samples': ctx.samples or ['(no correspondence cases ran)'],
            'correspondence_cases_compared_in_coq': ctx.corr,
            'input_distribution': ctx.distribution,
            'broken_ties': [p['what'] for p in ctx.problems][:20],
            'property_failures_on_implementation': [f['what'] for f in ctx.failures][:20],
            'known_findings_reproduced': sorted(known_hits.keys()),
            'notes': ctx.notes,
            'explanation': getattr(mod, 'EXPLANATION', ''),
        },
        'assumptions': list(getattr(mod, 'ASSUMPTIONS', [])),
        'wall_s': round(wall, 2),
        'violations': violations,
    }
    if obligations == 0:
        ev['coverage']['obligations'] = 1
        ev['coverage']['discharged'] = 0
    if coqchk is not None:
        ev['coverage']['coqchk'] = coqchk
    os.makedirs(EVIDENCE, exist_ok=True)
    tmp = os.path.join(EVIDENCE, '.%s.json.tmp' % pid)
    with open(tmp, 'w') as f:
        json.dump(ev, f, indent=1, default=repr)
    os.replace(tmp, os.path.join(EVIDENCE, '%s.json' % pid))

    for l in lines:
        print(l)
    print('%s tier=%s seed=%d: obligations=%d discharged=%d correspondence=%s evaluations=%d nontrivial=%d problems=%d failures=%d wall=%.1fs' % (
        pid, tier, seed, obligations, discharged, ctx.corr, ctx.evaluations, len(ctx.nontrivial),
        len(ctx.problems), len(ctx.failures), wall))
    if ctx.problems and exit_code:
        for p in ctx.problems[:5]:
            print('  broken:', p['kind'], '-', p['what'])
            if p.get('detail') and os.environ.get('VERIF_VERBOSE'):
                print('    ', json.dumps(p['detail'], default=repr)[:3000])
    return exit_code
