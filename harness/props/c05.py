"""C05  Every cache backend behaves like a map from tile address to bytes.

Models: coq/theories/CacheMap.v (specification, keyed store, rendering of the generated path tokens),
FileCache.v (file system with symlinked / hardlinked single-colour tiles), SqlCache.v (sqlite row store, bulk
load with argument batching, per-level dispatch), CacheBackends.v (all back-ends behind one type).
Theorems: coq/props/P_C05.v.

Tie:
 * translator: the six path layouts (gen/Gen_path.v), bundle name / slot arithmetic (gen/Gen_compact.v) and the
   batching constants of the sqlite bulk load (gen/Gen_sqlbatch.v) are regenerated from /repo on every run; the
   injectivity and batching proofs are re-checked against them.
 * correspondence: histories of store / bulk store / load / bulk load / is_cached / remove are run on the real
   back-ends (FileCache x 6 layouts x {no link, symlink, hardlink} x dimension sets, MBTilesCache,
   MBTilesLevelCache, GeopackageCache, GeopackageLevelCache, CompactCacheV1, CompactCacheV2) through the public
   cache API and the outputs are compared inside Coq with `model_outs backend history`; the generated path and
   slot functions are compared with the Python functions on boundary and random coordinates.
Oracle: the specification map itself (a Python dict address -> payload), evaluated on what the implementation
returned, independent of the Coq model.

Further streams (search for failing inputs; the models see them through what was observed):
 * compact caches with a write fault: the n-th write() of a store fails with EIO; the store then either took place
   or did not (read back at once), and every later operation must still answer like the map (a failed store must
   not make a later store to another address of the bundle change this one);
 * compact caches whose bundle file has grown past 4 GiB (bundles only grow; the dead space is a sparse hole):
   records beyond 2^32 are stored, bulk stored, loaded, removed;
 * the real TileManager (meta tiles, single tiles, bulk meta tiles) on a file cache with a TIME dimension under the
   schedules in which another request stores the tiles between this request's look-up and its tile lock: the
   request returns what is stored for exactly (coord, TIME value), tiles at the same coordinate with another / no
   dimension value stay untouched.  Oracle only (the tile manager is not part of the C05 models).
 * the dimensions argument is a dict: the oracle identifies addresses whose dimension dicts hold the same values in
   another key order (`akey`); deterministic probes store / load / remove one address under two key orders
   (`dimension_order_probes`, also as fixed cases of the `paths` correspondence).
"""
import glob
import itertools
import json
import os
from io import BytesIO

from common import VERIF, blit, llit, slit, zlit

ID = 'C05'
GEN = ['Gen_path.v', 'Gen_compact.v', 'Gen_sqlbatch.v', 'Gen_compact_fmt.v']
TECHNIQUE = ('Coq proof (refinement of every back-end model to the abstract map; injectivity of the generated path / '
             'slot functions) + fail-closed translation of the path, slot and batching code + correspondence check of the '
             'models against the real back-ends on colliding histories')
LEVEL_TEXT = ('Theorems over Gallina models of all storage back-ends for every history of store, bulk store, load, bulk '
              'load, is_cached and remove (unbounded length, any addresses satisfying the stated validity conditions): the '
              'outputs equal those of the abstract map address -> bytes.  The address -> path / bundle slot / row key '
              'functions are generated from the Python source; their injectivity is proved on the generated definitions.')
LEVEL_NOTE = ('Proved in full for all back-ends: file cache (6 layouts x 3 link modes x dimensions), compact v1/v2, the four '
              'sqlite back-ends (incl. the bulk load with its batching, requests that repeat a coordinate, and the per-level '
              'dispatch). '
              'Trusted: Coq kernel, translator, hand-written operational models (FileCache.v, SqlCache.v) validated by the '
              'correspondence check; SQLite, the file system and the image codecs are modelled, not verified; the byte '
              'level of compact bundles belongs to C19 (here: keyed store over bundle file and index slot). Operations get '
              'fresh Tile objects (the location / stored / source caching on a re-used Tile object is not modelled).')
DESIGN_REF = 'DESIGN.md section 5, C05'
RULE = ('case = (back-end configuration, history, outputs); non-trivial = the history touches at least two addresses that '
        'collide in some internal addressing (same path digit group, bundle, database, link target, or differing only in '
        'level / dimension value) and contains a store followed by a load; distinct by full tuple')
TRUSTED = ['translator specs path.py / compact_slot.py / sqlbatch.py (ast -> Gallina), cross-checked by correspondence',
           'models FileCache.v / SqlCache.v hand-written from mapproxy/cache/file.py, mbtiles.py, geopackage.py',
           'SQLite = relation with unique key (INSERT OR REPLACE / SELECT / DELETE); file system = map path -> node with '
           'atomic rename, unlink, link, symlink; directories implicit',
           'compact caches: keyed store over (bundle file, index slot); byte level proved in C19; a store interrupted by '
           'a write error is, for the model, the store it is observed to be (complete or absent)',
           'payloads are opaque (channel count + pixel values of RGB / RGBA tiles); single-colour payloads are canonical '
           'per colour tuple (same tile size in one cache)',
           'compact caches at byte level: C19 model Bundle.v (files as byte sequences), tied here by the compact_bytes '
           'correspondence stream (payload = PNG bytes) and proved to answer like the map',
           'mbtiles with ttl: SqlTtl.v (rows carry last_modified in whole seconds, datetime() text comparison = '
           'comparison of seconds, localtime = UTC + one offset per process); which statements carry the localtime '
           'modifier is read from the source text (ttl_sites), histories in five time zones run on the model with all '
           'clock readings equal (ttl_histories); the per-level sqlite cache with ttl is probed (oracle) and compared '
           'with the model without ttl only']
ASSUMPTIONS = ['tile coordinates and levels are non-negative',
               'all addresses of one cache use the same dimension keys (lower case, distinct); values are arbitrary text',
               'quadkey layout: x, y < 2^z and no dimensions; arcgis layout: no dimensions (finding F4 otherwise)',
               'sqlite / compact back-ends: no dimensions (the configuration loader refuses dimension layers there)',
               'mbtiles / sqlite with a ttl: all clock readings of the history lie in one window shorter than the ttl '
               '(>= 1 h in the probes); after that rows disappear by design (theorem hypothesis in_window)',
               'compact back-ends: x, y < 2^31 (the v1 bundle header stores the bundle origin in 32 bit fields and '
               'struct.pack refuses larger values; the key-level model has no such limit)',
               'every operation is given fresh Tile objects; no concurrent writers (C06/C07/C08 cover those)',
               'temporary names (location + .tmp-<random>) of write_atomic and of the link store are unused names']
EXPLANATION = ('refinement to the abstract map proved per back-end model for all histories; generated path / slot / '
               'batching definitions; real back-ends driven through colliding histories and compared in Coq')

LAYOUTS = ['tc', 'mp', 'tms', 'reverse_tms', 'quadkey', 'arcgis']
NO_DIM_LAYOUTS = ('quadkey', 'arcgis')
LINKS = ['none', 'symlink', 'hardlink']
SQL_KINDS = ['mbtiles', 'sqlite', 'geopackage', 'geopackage_level']
COMPACT_KINDS = ['compact1', 'compact2']

SIG_F4_DIMS = 'file,layout=%s,dimensions-ignored'
SIG_F4_QUAD = 'file,layout=quadkey,collision-outside-quad-range'


# ----------------------------------------------------------------------------- payloads

class Payloads(object):
    """payload id -> 2x2 PNG (RGB or RGBA); ids below n_mono are single-colour tiles (canonical per colour tuple).
    The model sees a payload as [number of channels] + pixel values."""
    MONO = [(0, 0, 0), (255, 255, 255), (254, 0, 4), (254, 0, 5), (1, 2, 3), (16, 0, 0)]
    # RGBA: fully transparent colours that differ in the colour channels, opaque and half transparent ones, and the
    # RGBA twin of an RGB colour (another tuple, another link file)
    MONO_RGBA = [(0, 0, 0, 0), (255, 255, 255, 0), (255, 0, 0, 0), (254, 0, 4, 255), (254, 0, 4, 128), (0, 0, 0, 255)]

    def __init__(self):
        from PIL import Image
        self.pixels, self.png, self.by_png = [], [], {}
        pix = [[c] * 4 for c in self.MONO]
        for i in range(14):
            a = (10 * i + 1, 7 * i % 256, 255 - i)
            b = (i, i + 1, i + 2)
            if i % 5 == 4:
                a, b = a + (0,), b + (255 - i,)
            pix.append([a, b, a, b] if i % 3 else [a, a, a, b])
        first_rgba = len(pix)
        pix += [[c] * 4 for c in self.MONO_RGBA]
        self.mono_ids = list(range(len(self.MONO))) + list(range(first_rgba, len(pix)))
        self.rgba_mono_ids = list(range(first_rgba, len(pix)))
        for p in pix:
            ch = len(p[0])
            img = Image.new('RGB' if ch == 3 else 'RGBA', (2, 2))
            img.putdata(p)
            buf = BytesIO()
            img.save(buf, 'PNG')
            data = buf.getvalue()
            assert data not in self.by_png
            self.by_png[data] = len(self.png)
            self.png.append(data)
            self.pixels.append([ch] + [self.pack(v) for v in p])
        self.n = len(self.png)
        self.n_mono = len(self.MONO)          # ids below: RGB single-colour tiles (see mono_ids for all)

    @staticmethod
    def pack(v):
        n = 0
        for c in v:
            n = n * 256 + c
        return n

    def decode(self, data):
        """bytes read back from a cache -> what the model calls the payload"""
        if data in self.by_png:
            return list(self.pixels[self.by_png[data]])
        try:
            from PIL import Image
            img = Image.open(BytesIO(data))
            if img.mode not in ('RGB', 'RGBA'):
                img = img.convert('RGBA')
            return [len(img.mode)] + [self.pack(v) for v in img.getdata()]
        except Exception:  # noqa
            return [-1, len(data)]


# ----------------------------------------------------------------------------- back-ends

def cfg_name(cfg):
    if cfg['kind'] == 'file':
        return 'file/%s/%s' % (cfg['layout'], cfg['link'])
    if cfg.get('ttl'):
        return '%s/ttl=%d/TZ=%s' % (cfg['kind'], cfg['ttl'], cfg.get('tz', 'UTC'))
    return cfg['kind']


def cfg_sig(cfg):
    if cfg['kind'] == 'file':
        return 'file,layout=%s,link=%s' % (cfg['layout'], cfg['link'])
    if cfg.get('ttl'):
        return cfg['kind'] + ',ttl'
    return cfg['kind']


def cfg_lit(cfg):
    k = cfg['kind']
    if k == 'file':
        return '(BFile %s %s)' % (slit(cfg['layout']), {'none': 'LNone', 'symlink': 'LSym', 'hardlink': 'LHard'}[cfg['link']])
    return {'mbtiles': 'BMbtiles', 'sqlite': 'BSqlite', 'geopackage': 'BGpkg', 'geopackage_level': 'BGpkgLevel',
            'compact1': '(BCompact false)', 'compact2': '(BCompact true)'}[k]


def make_backend(cfg, d):
    k = cfg['kind']
    if k == 'file':
        from mapproxy.cache.file import FileCache
        link = {'none': False, 'symlink': 'symlink', 'hardlink': 'hardlink'}[cfg['link']]
        return FileCache(d, 'png', directory_layout=cfg['layout'], link_single_color_images=link)
    if k == 'mbtiles':
        from mapproxy.cache.mbtiles import MBTilesCache
        if cfg.get('ttl'):
            return MBTilesCache(os.path.join(d, 'c.mbtiles'), with_timestamps=True, ttl=cfg['ttl'])
        return MBTilesCache(os.path.join(d, 'c.mbtiles'))
    if k == 'sqlite':
        from mapproxy.cache.mbtiles import MBTilesLevelCache
        if cfg.get('ttl'):
            return MBTilesLevelCache(d, ttl=cfg['ttl'])
        return MBTilesLevelCache(d)
    if k in ('geopackage', 'geopackage_level'):
        from mapproxy.cache.geopackage import GeopackageCache, GeopackageLevelCache
        from mapproxy.grid import tile_grid
        g = tile_grid(3857, name='global-webmarcator')
        if k == 'geopackage':
            return GeopackageCache(os.path.join(d, 'c.gpkg'), tile_grid=g, table_name='tiles')
        return GeopackageLevelCache(d, tile_grid=g, table_name='tiles')
    if k == 'compact1':
        from mapproxy.cache.compact import CompactCacheV1
        return CompactCacheV1(d)
    if k == 'compact2':
        from mapproxy.cache.compact import CompactCacheV2
        return CompactCacheV2(d)
    raise ValueError(k)


def close_backend(cache):
    try:
        if hasattr(cache, 'cleanup'):
            cache.cleanup()
    except Exception:  # noqa
        pass


# ----------------------------------------------------------------------------- running a history

def dims_arg(dims):
    return dict(dims) if dims else None


def read_source(pay, tile):
    src = tile.source
    if src is None:
        return None
    buf = src.as_buffer()
    try:
        buf.seek(0)
    except Exception:  # noqa
        pass
    data = buf.read()
    src.close_buffers()
    return pay.decode(data)


def new_tile(pay, coord, pid=None):
    from mapproxy.cache.tile import Tile
    from mapproxy.image import ImageSource
    if pid is None:
        return Tile(tuple(coord))
    return Tile(tuple(coord), ImageSource(BytesIO(pay.png[pid])))


def run_op(pay, cache, op):
    """-> observation (JSON-able).  Addresses are (x, y, z, dims) with dims a tuple of (key, value)."""
    kind = op[0]
    try:
        if kind == 'store':
            (x, y, z, dims), pid = op[1], op[2]
            cache.store_tile(new_tile(pay, (x, y, z), pid), dimensions=dims_arg(dims))
            return ['done']
        if kind == 'store_many':
            items, dims = op[1], op[2]
            cache.store_tiles([new_tile(pay, c, pid) for (c, pid) in items], dimensions=dims_arg(dims))
            return ['done']
        if kind == 'load':
            x, y, z, dims = op[1]
            t = new_tile(pay, (x, y, z))
            ok = cache.load_tile(t, dimensions=dims_arg(dims))
            return ['load', bool(ok), read_source(pay, t)]
        if kind == 'load_many':
            coords, dims = op[1], op[2]
            tiles = [new_tile(pay, c) for c in coords]
            ok = cache.load_tiles(tiles, dimensions=dims_arg(dims))
            return ['load_many', bool(ok), [read_source(pay, t) for t in tiles]]
        if kind == 'cached':
            x, y, z, dims = op[1]
            return ['cached', bool(cache.is_cached(new_tile(pay, (x, y, z)), dimensions=dims_arg(dims)))]
        if kind == 'remove':
            x, y, z, dims = op[1]
            cache.remove_tile(new_tile(pay, (x, y, z)), dimensions=dims_arg(dims))
            return ['done']
    except Exception as e:  # an unexpected exception is an observation
        return ['raised', type(e).__name__]
    raise ValueError(kind)


GROW_BASE = 1 << 32


def grow_bundle(cfg, cache, arg):
    """compact caches: the bundle file of the address grows past 4 GiB (bundles only grow: replaced and removed
    tiles stay in the file as dead records until defragmentation).  The dead space is a sparse hole."""
    (x, y, z), pad = arg
    try:
        fname = cache._get_bundle_fname_and_offset((x, y, z))[0] + '.bundle'
        if not os.path.exists(fname):
            return ['done']
        size = os.path.getsize(fname)
        os.truncate(fname, max(size, GROW_BASE) + pad)
        return ['done']
    except Exception as e:  # noqa
        return ['raised', type(e).__name__]


class FaultyFile(object):
    """file object of mapproxy.cache.compact whose n-th write() fails with EIO (earlier writes reach the disk
    when the file is closed)"""

    def __init__(self, fobj, state):
        self._f, self._state = fobj, state

    def write(self, data):
        self._state['n'] += 1
        if self._state['n'] == self._state['fail_at']:
            self._state['failed'] = True
            import errno
            raise OSError(errno.EIO, 'injected write error')
        return self._f.write(data)

    def __getattr__(self, name):
        return getattr(self._f, name)

    def __enter__(self):
        return self

    def __exit__(self, *a):
        self._f.close()
        return False


def run_store_fault(pay, cache, op):
    """store_tile during which the n-th write() to a bundle / index file fails; afterwards the address is read
    back: ['fault', content or None] or ['nofault'] when the store issued fewer writes."""
    import builtins
    import mapproxy.cache.compact as cc
    (x, y, z, dims), pid, n = op[1], op[2], op[3]
    state = {'n': 0, 'fail_at': n, 'failed': False}

    def faulty_open(name, mode='r', *a, **kw):
        f = builtins.open(name, mode, *a, **kw)
        if '+' in mode or 'w' in mode or 'a' in mode:
            return FaultyFile(f, state)
        return f
    cc.open = faulty_open
    try:
        try:
            cache.store_tile(new_tile(pay, (x, y, z), pid), dimensions=dims_arg(dims))
        except OSError:
            pass
        except Exception as e:  # noqa
            return ['raised', type(e).__name__]
    finally:
        del cc.open
    if not state['failed']:
        return ['nofault']
    try:
        t = new_tile(pay, (x, y, z))
        cache.load_tile(t, dimensions=dims_arg(dims))
        return ['fault', read_source(pay, t)]
    except Exception as e:  # noqa
        return ['raised', type(e).__name__]


def set_tz(tz):
    """switch the time zone of this process (the C library's localtime, which SQLite's 'localtime' modifier uses);
    returns the previous value of TZ"""
    import time
    old = os.environ.get('TZ')
    if tz is None:
        os.environ.pop('TZ', None)
    else:
        os.environ['TZ'] = tz
    time.tzset()
    return old


def run_history(ctx, pay, cfg, ops):
    if cfg.get('tz'):
        # configurations with a ttl: the whole history runs in the given time zone (POSIX TZ strings, no tzdata
        # needed: 'XXX5' = five hours west of UTC).  The ttl is far longer than the history takes.
        old = set_tz(cfg['tz'])
        try:
            return run_history_1(ctx, pay, cfg, ops)
        finally:
            set_tz(old)
    return run_history_1(ctx, pay, cfg, ops)


def run_history_1(ctx, pay, cfg, ops):
    d = ctx.tmpdir('c')
    cache = make_backend(cfg, d)
    try:
        outs = []
        for op in ops:
            if op[0] == 'reopen':
                # the mapping is persistent: drop the cache object, open the directory / database again
                try:
                    close_backend(cache)
                    cache = make_backend(cfg, d)
                    outs.append(['done'])
                except Exception as e:  # noqa
                    outs.append(['raised', type(e).__name__])
            elif op[0] == 'grow':
                outs.append(grow_bundle(cfg, cache, op[1]))
            elif op[0] == 'store_fault':
                outs.append(run_store_fault(pay, cache, op))
            else:
                outs.append(run_op(pay, cache, op))
        return outs
    finally:
        close_backend(cache)
        import shutil
        shutil.rmtree(d, ignore_errors=True)


# ----------------------------------------------------------------------------- oracle: the specification map

def op_addresses(op):
    k = op[0]
    if k in ('reopen', 'grow'):
        return []
    if k in ('store', 'load', 'cached', 'remove', 'store_fault'):
        return [tuple(op[1])]
    if k == 'store_many':
        return [(c[0], c[1], c[2], tuple(op[2])) for (c, _) in op[1]]
    return [(c[0], c[1], c[2], tuple(op[2])) for c in op[1]]


def akey(a):
    """identity of an address: level, column, row and the dimension values; the dimensions are handed over as a dict,
    which is the same value whatever order its keys were inserted in"""
    a = tuple(a)
    return (a[0], a[1], a[2], tuple(sorted(tuple(kv) for kv in a[3])))


def spec_outputs(pay, ops, observed=None):
    m, outs = {}, []
    for i, op in enumerate(ops):
        k = op[0]
        if k == 'store_fault':
            # a store that fails half way either took place or did not (decided by what the address returns right
            # afterwards); anything else - and any later effect on another address - is a failure
            a, pid = akey(op[1]), op[2]
            got = observed[i] if observed is not None else ['nofault']
            old = m.get(a)
            if got == ['nofault']:
                m[a] = pid
                outs.append(got)
            elif got[0] == 'fault' and got[1] == list(pay.pixels[pid]):
                m[a] = pid
                outs.append(got)
            elif got[0] == 'fault' and got[1] == (None if old is None else list(pay.pixels[old])):
                outs.append(got)
            else:
                outs.append(['fault', 'old-or-new-content-expected'])
            continue
        if k == 'store':
            m[akey(op[1])] = op[2]
            outs.append(['done'])
        elif k == 'store_many':
            for a, (_, pid) in zip(op_addresses(op), op[1]):
                m[akey(a)] = pid
            outs.append(['done'])
        elif k == 'load':
            pid = m.get(akey(op[1]))
            outs.append(['load', pid is not None, None if pid is None else list(pay.pixels[pid])])
        elif k == 'load_many':
            r = [m.get(akey(a)) for a in op_addresses(op)]
            outs.append(['load_many', all(p is not None for p in r), [None if p is None else list(pay.pixels[p]) for p in r]])
        elif k == 'cached':
            outs.append(['cached', akey(op[1]) in m])
        elif k == 'remove':
            m.pop(akey(op[1]), None)
            outs.append(['done'])
        else:
            outs.append(['done'])          # reopen, grow
    return outs


def quad_out_of_range(a):
    x, y, z = a[0], a[1], a[2]
    return x >= (1 << z) or y >= (1 << z)


def classify(cfg, ops, i, exp, got):
    """signature of the failure class of op i (expected exp, observed got)"""
    base = cfg_sig(cfg)
    if got and got[0] == 'raised':
        return base + ',raised-' + got[1]
    k = ops[i][0]
    if k == 'store_fault':
        what = 'failed-store-leaves-foreign-content'
    elif k == 'load':
        if exp[2] is None:
            what = 'load-returns-data-for-absent-address'
        elif got[2] is None:
            what = 'load-misses-stored-tile'
        elif got[2] != exp[2]:
            what = 'load-returns-other-bytes'
        else:
            what = 'load-return-flag'
    elif k == 'load_many':
        if got[2] != exp[2]:
            what = 'bulk-load-content'
        else:
            what = 'bulk-load-return-flag'
    elif k == 'cached':
        what = 'is-cached-wrong'
    else:
        what = 'unexpected-output'
    return base + ',' + what


def explain_f4(cfg, ops, i):
    """Is the deviation at op i explained by finding F4?  F4 = the arcgis / quadkey layouts do not put dimensions
    into the path, and quadkey drops the bits of x, y at and above 2^z.  Decided on the addresses alone: the
    address read at op i and an address written before it are different but equal after the projection that F4
    describes (and no pair of addresses of the history that differs otherwise is involved)."""
    if cfg['kind'] != 'file' or cfg['layout'] not in NO_DIM_LAYOUTS:
        return None
    lay = cfg['layout']

    def proj(a):
        x, y, z = a[0], a[1], a[2]
        if lay == 'quadkey':
            mask = (1 << z) - 1
            return (x & mask, y & mask, z)
        return (x, y, z)
    reads = op_addresses(ops[i])
    earlier = set()
    for op in ops[:i]:
        if op[0] in ('store', 'store_many', 'remove'):
            earlier.update(op_addresses(op))
    dims_hit = quad_hit = False
    for r in reads:
        for w in earlier:
            if w != r and proj(w) == proj(r):
                if (w[0], w[1], w[2]) == (r[0], r[1], r[2]):
                    dims_hit = True
                else:
                    quad_hit = True
    if quad_hit:
        return SIG_F4_QUAD
    if dims_hit:
        return SIG_F4_DIMS % lay
    return None


def oracle(ctx, pay, cfg, ops, outs, origin):
    exp = spec_outputs(pay, ops, outs)
    for i, (e, g) in enumerate(zip(exp, outs)):
        if e == g:
            continue
        sig = None
        if g and g[0] != 'raised':
            sig = explain_f4(cfg, ops, i)
        if sig is None:
            sig = classify(cfg, ops, i, e, g)
        # minimal replay: the operations that touch the addresses of op i
        touched = set(op_addresses(ops[i]))
        if (cfg['kind'] == 'file' and cfg['layout'] in NO_DIM_LAYOUTS) or i < 16:
            keep = list(range(i + 1))     # short: the whole prefix (the culprit is an operation on ANOTHER address)
        else:
            keep = [j for j in range(i + 1) if touched & set(op_addresses(ops[j]))]
        ctx.fail(sig, '%s: operation %d %r returned %r, the map address -> bytes says %r' % (
            cfg_name(cfg), i, ops[i], g, e),
            {'backend': cfg, 'origin': origin, 'history': [ops[j] for j in keep], 'failing_operation': ops[i],
             'implementation_returned': g, 'specification_says': e,
             'how': 'run the history on a fresh cache of this configuration (harness/props/c05.py: run_history)'})
        return False
    return True


# ----------------------------------------------------------------------------- Gallina terms

def codes(s):
    return '[' + '; '.join('%d' % b for b in s.encode('utf-8')) + ']'


def dims_lit(dims):
    return '[' + '; '.join('(%s, %s)' % (codes(k), codes(v)) for (k, v) in dims) + ']'


def addr_lit(a):
    return '(AC %s %s %s %s)' % (zlit(a[0]), zlit(a[1]), zlit(a[2]), dims_lit(a[3]))


def pl_lit(pay, pid):
    return llit(pay.pixels[pid])


def op_lit(pay, op):
    k = op[0]
    if k == 'store':
        return '(Store %s %s)' % (addr_lit(op[1]), pl_lit(pay, op[2]))
    if k == 'store_many':
        return '(StoreMany [%s])' % '; '.join(
            '(%s, %s)' % (addr_lit((c[0], c[1], c[2], op[2])), pl_lit(pay, pid)) for (c, pid) in op[1])
    if k == 'load':
        return '(Load %s)' % addr_lit(op[1])
    if k == 'load_many':
        return '(LoadMany [%s])' % '; '.join(addr_lit((c[0], c[1], c[2], op[2])) for c in op[1])
    if k == 'cached':
        return '(IsCached %s)' % addr_lit(op[1])
    return '(Remove %s)' % addr_lit(op[1])


def obytes_lit(v):
    return 'None' if v is None else '(Some %s)' % llit(v)


def out_lit(o):
    k = o[0]
    if k == 'done':
        return 'ODone'
    if k == 'load':
        # the model has no separate return flag for load_tile: a flag that contradicts the content is a value
        # the model cannot produce
        if o[1] != (o[2] is not None):
            return '(OCached %s)' % blit(o[1])
        return '(OLoad %s)' % obytes_lit(o[2])
    if k == 'load_many':
        return '(OLoadMany %s [%s])' % (blit(o[1]), '; '.join(obytes_lit(v) for v in o[2]))
    if k == 'cached':
        return '(OCached %s)' % blit(o[1])
    return 'OErr'


DEFS = '''
Definition tx (l : list Z) : text := map (fun c => ascii_of_N (Z.to_N c)) l.
Definition AC (x y z : Z) (d : list (list Z * list Z)) : addr :=
  mkAddr x y z (map (fun kv => (tx (fst kv), tx (snd kv))) d).
'''
IMPORTS = 'Gen_path Gen_compact Gen_sqlbatch CacheMap FileCache SqlCache CacheBackends'


# ----------------------------------------------------------------------------- generators

COORD_EDGE = [0, 1, 2, 3, 126, 127, 128, 129, 255, 256, 999, 1000, 1001, 1999, 2000, 9999, 10000, 10001, 19999, 20000,
              65535, 65536, 999999, 1000000, 1000001, 1001000, 1999999, 2000000, 9999999, 10000000, 10000001, 11000000]
LEVELS = [0, 1, 2, 3, 4, 9, 10, 11, 12, 19, 20, 21]
DIM_VALUES = ['', 'a', 'b', 'A', 'a/b', 'a_b', 'a%2Fb', 'a\\b', '..', '../x', '%', '%25', '2020-08-25T00:00:00Z',
              '2020-08-25T00:00:01Z', 'default', 'x-y', 'x', ' ', 'a b']
DIM_KEYSETS = [(), ('time',), ('time',), ('elevation', 'time'), ('time', 'dim_level'), ('dim_b', 'dim_a', 'time')]


def collide_variants(rng, layout_or_kind, x, y, z):
    """addresses that share something with (x, y, z) in the internal addressing of the back-end"""
    v = [(x, y, z), (y, x, z), (x, y, z + 1), (x, y, max(0, z - 1)), (x + 1, y, z), (x, y + 1, z),
         (x + 1000, y, z), (x, y + 1000, z), (x + 1000000, y, z), (x % 1000, y, z), (x + 10000, y, z),
         (x + 128, y, z), (x, y + 128, z), (x % 128, y % 128, z), (x + 128, y + 128, z), (x * 1000, y, z),
         (x // 1000, y, z), (z, y, x) if x < 30 else (x, y, z), (x, z, y) if y < 30 else (x, y, z),
         (x ^ 1, y, z), (x, y ^ 1, z), (x ^ 128, y, z), (x + 65536, y, z), (x, y + 65536, z),
         (x + 100, y, z), (x + 100000, y, z), (x, y + 10000, z), (x + 2000, y, z), (x + 20000, y, z), (x, y + 100000, z),
         (x + 10000000, y, z), (x, y + 1000000, z), (x, y + 10000000, z), (x + 100000000, y, z)]
    return v


def quad_fix(a):
    """make an address valid for a quad grid: x, y < 2^z"""
    x, y, z = a
    if z > 40:
        z = 40
    m = (1 << z) - 1
    return (x & m, y & m, z)


def gen_pool(rng, cfg, size, valid=True):
    """a pool of addresses (x, y, z, dims) chosen to collide"""
    kind = cfg['kind']
    layout = cfg.get('layout')
    no_dims = kind != 'file' or layout in NO_DIM_LAYOUTS
    keys = () if (no_dims and valid) else rng.choice(DIM_KEYSETS)
    if not valid and not keys and rng.random() < 0.7:
        keys = ('time',)
    x = rng.choice(COORD_EDGE)
    y = rng.choice(COORD_EDGE)
    z = rng.choice(LEVELS)
    if kind in ('sqlite', 'geopackage_level'):
        z = rng.choice([0, 1, 2, 3, 10])          # every level is one more database file
    cand = collide_variants(rng, layout or kind, x, y, z)
    rng.shuffle(cand)
    coords = []
    for c in [(x, y, z)] + cand:
        if kind in ('sqlite', 'geopackage_level') and c[2] > 12:
            c = (c[0], c[1], c[2] % 4)
        if layout == 'quadkey' and valid:
            c = quad_fix(c)
        if kind in COMPACT_KINDS:
            # the v1 bundle header keeps the bundle origin (+127) in unsigned 32 bit fields: struct.error beyond
            c = (c[0] % (1 << 31), c[1] % (1 << 31), c[2])
        if c not in coords:
            coords.append(c)
    coords = coords[:max(2, size)]
    pool = []
    if keys:
        # addresses that differ only in one dimension value, values that differ in one character
        base = tuple((k, rng.choice(DIM_VALUES)) for k in keys)
        dimsets = [base]
        for _ in range(3):
            d = list(base)
            j = rng.randrange(len(d))
            d[j] = (d[j][0], rng.choice(DIM_VALUES))
            if tuple(d) not in dimsets:
                dimsets.append(tuple(d))
        for c in coords[:max(2, size // 2)]:
            for d in dimsets[:rng.choice([2, 2, 3])]:
                pool.append((c[0], c[1], c[2], d))
    else:
        pool = [(c[0], c[1], c[2], ()) for c in coords]
    rng.shuffle(pool)
    return pool[:size]


def gen_ops(rng, pay, pool, length, link=False, compact=False):
    ops = []
    mono_bias = 0.5 if link else 0.2
    by_dims = {}
    for a in pool:
        by_dims.setdefault(a[3], []).append(a)

    def pid():
        if rng.random() < mono_bias:
            return rng.choice(pay.mono_ids)
        return rng.randrange(pay.n)
    for _ in range(length):
        r = rng.random()
        a = rng.choice(pool)
        if compact and rng.random() < 0.08:
            if rng.random() < 0.75:
                ops.append(('store_fault', a, pid(), rng.randrange(1, 8)))
            else:
                ops.append(('grow', ((a[0], a[1], a[2]), rng.randrange(0, 6000))))
            continue
        if r < 0.27:
            ops.append(('store', a, pid()))
        elif r < 0.34:
            group = by_dims[a[3]]
            k = rng.randrange(1, min(5, len(group)) + 1)
            items = [((b[0], b[1], b[2]), pid()) for b in (rng.sample(group, k) if rng.random() < 0.8
                                                          else [rng.choice(group) for _ in range(k)])]
            ops.append(('store_many', items, a[3]))
        elif r < 0.62:
            ops.append(('load', a))
        elif r < 0.74:
            group = by_dims[a[3]]
            k = rng.randrange(1, min(6, len(group)) + 1)
            # a request may name an address more than once (every tile object has to be filled)
            sel = rng.sample(group, k) if rng.random() < 0.75 else [rng.choice(group) for _ in range(k + 1)]
            ops.append(('load_many', [(b[0], b[1], b[2]) for b in sel], a[3]))
        elif r < 0.84:
            ops.append(('cached', a))
        elif r < 0.97:
            ops.append(('remove', a))
        else:
            ops.append(('reopen',))
    return ops


def exhaustive_alphabet(pool3, p, q):
    """operations over three addresses with the same dimensions and two payloads"""
    a0, a1, a2 = pool3
    d = a0[3]
    c = [(a[0], a[1], a[2]) for a in pool3]
    alpha = []
    for a in pool3:
        alpha += [('store', a, p), ('store', a, q), ('load', a), ('cached', a), ('remove', a)]
    alpha += [('store_many', [(c[0], p), (c[1], q)], d), ('store_many', [(c[1], p), (c[2], p)], d),
              ('load_many', [c[0], c[1], c[2]], d), ('load_many', [c[2], c[0]], d)]
    return alpha


def all_configs():
    cfgs = []
    for lay in LAYOUTS:
        for link in LINKS:
            cfgs.append({'kind': 'file', 'layout': lay, 'link': link})
    for k in SQL_KINDS + COMPACT_KINDS:
        cfgs.append({'kind': k})
    return cfgs


def special_triples(cfg):
    """three addresses that collide in the internal addressing of the back-end (same dimensions)"""
    k = cfg['kind']
    lay = cfg.get('layout')
    t = []
    if k == 'file':
        if lay == 'tc':
            t = [[(999, 0, 0), (1000, 0, 0), (0, 1000, 0)], [(1000000, 1, 1), (1, 1000000, 1), (1000, 1000, 1)],
                 [(0, 0, 0), (0, 0, 1), (0, 0, 10)], [(0, 0, 2), (1000000, 0, 2), (0, 1000000, 2)],
                 [(9999999, 5, 3), (10999999, 5, 3), (19999999, 5, 3)]]
        elif lay == 'mp':
            t = [[(9999, 0, 0), (10000, 0, 0), (0, 10000, 0)], [(12345678, 1, 2), (1234, 5678, 2), (5678, 1234, 2)],
                 [(0, 0, 1), (10000, 0, 1), (100000000, 0, 1)]]
        elif lay in ('tms', 'reverse_tms'):
            t = [[(1, 2, 3), (3, 2, 1), (2, 1, 3)], [(0, 0, 0), (0, 0, 1), (1, 0, 0)], [(11, 1, 1), (1, 11, 1), (1, 1, 11)]]
        elif lay == 'quadkey':
            t = [[(0, 0, 0), (0, 0, 1), (1, 0, 1)], [(1, 0, 1), (0, 1, 1), (1, 1, 1)], [(2, 1, 2), (1, 2, 2), (0, 1, 3)]]
        else:
            t = [[(255, 16, 0), (16, 255, 0), (255, 16, 1)], [(0, 0, 0), (0, 0, 10), (10, 0, 0)],
                 [(4294967295, 0, 3), (4294967296, 0, 3), (0, 4294967296, 3)]]
    elif k in SQL_KINDS:
        t = [[(0, 0, 0), (0, 0, 1), (1, 0, 0)], [(1, 1, 2), (1, 1, 3), (1, 2, 1)], [(2, 3, 0), (3, 2, 0), (0, 2, 3)]]
    else:
        t = [[(127, 0, 0), (128, 0, 0), (0, 127, 0)], [(127, 127, 1), (128, 128, 1), (255, 255, 1)],
             [(0, 0, 0), (0, 0, 1), (128, 0, 1)], [(1, 0, 2), (0, 1, 2), (129, 128, 2)],
             [(65535, 0, 3), (65536, 0, 3), (0, 65536, 3)]]
    return [[(c[0], c[1], c[2], ()) for c in tr] for tr in t]


def chunk_histories(hists, reset_pool, max_ops):
    """concatenate short histories (each preceded by the removal of the pool) into histories of at most max_ops"""
    out, cur = [], []
    for h in hists:
        seg = [('remove', a) for a in reset_pool] + list(h)
        if cur and len(cur) + len(seg) > max_ops:
            out.append(cur)
            cur = []
        cur += seg
    if cur:
        out.append(cur)
    return out


def corpus_cases(ctx):
    out = []
    for fn in sorted(glob.glob(os.path.join(VERIF, 'corpus', 'C05', '*.json'))):
        try:
            d = json.load(open(fn))
            ops = [normalise_op(o) for o in d['history']]
            out.append((d['backend'], ops, 'corpus:' + os.path.basename(fn)))
        except Exception as ex:  # noqa
            ctx.problem('harness', 'corpus file unreadable: %s: %r' % (fn, ex))
    return out


def norm_addr(a):
    return (a[0], a[1], a[2], tuple((k, v) for (k, v) in a[3]))


def normalise_op(o):
    k = o[0]
    if k == 'store':
        return ('store', norm_addr(o[1]), o[2])
    if k == 'store_many':
        return ('store_many', [((c[0], c[1], c[2]), pid) for (c, pid) in o[1]], tuple((a, b) for (a, b) in o[2]))
    if k == 'load_many':
        return ('load_many', [(c[0], c[1], c[2]) for c in o[1]], tuple((a, b) for (a, b) in o[2]))
    if k in ('load', 'cached', 'remove'):
        return (k, norm_addr(o[1]))
    if k == 'reopen':
        return ('reopen',)
    if k == 'grow':
        return ('grow', ((o[1][0][0], o[1][0][1], o[1][0][2]), o[1][1]))
    if k == 'store_fault':
        return ('store_fault', norm_addr(o[1]), o[2], o[3])
    raise ValueError(k)


def f4_probes():
    """finding F4 (known, unrepaired): the minimal histories"""
    out = []
    for lay in NO_DIM_LAYOUTS:
        a = (1, 1, 1, (('time', 'a'),))
        b = (1, 1, 1, (('time', 'b'),))
        out.append(({'kind': 'file', 'layout': lay, 'link': 'none'},
                    [('store', a, 6), ('store', b, 7), ('load', a)], 'probe:F4-dimensions'))
        out.append(({'kind': 'file', 'layout': lay, 'link': 'none'},
                    [('store', a, 6), ('remove', b), ('cached', a)], 'probe:F4-dimensions-remove'))
    out.append(({'kind': 'file', 'layout': 'quadkey', 'link': 'none'},
                [('store', (0, 0, 0, ()), 6), ('store', (1, 0, 0, ()), 7), ('load', (0, 0, 0, ()))], 'probe:F4-quadkey'))
    out.append(({'kind': 'file', 'layout': 'quadkey', 'link': 'none'},
                [('store', (1, 2, 2, ()), 6), ('store', (5, 2, 2, ()), 7), ('load', (1, 2, 2, ()))], 'probe:F4-quadkey'))
    return out


def compact_probes():
    """interrupted stores and bundles beyond 4 GiB (compact v1 / v2)"""
    out = []
    a, b, c = (127, 127, 3, ()), (0, 0, 3, ()), (5, 6, 3, ())
    for k in COMPACT_KINDS:
        for n in range(1, 8):
            out.append(({'kind': k}, [('store', c, 8), ('store_fault', a, 9, n), ('store', b, 10), ('load', a), ('load', b),
                                      ('load', c), ('load_many', [(127, 127, 3), (0, 0, 3), (5, 6, 3)], ()),
                                      ('store_fault', b, 11, n), ('store', c, 12), ('load', a), ('load', b), ('load', c)],
                        'probe:interrupted-store'))
        # the same 128x128 block on different levels (bundle files differ in the level directory only)
        out.append(({'kind': k}, [('store', (1, 1, 1, ()), 6), ('store', (1, 1, 2, ()), 7), ('store', (0, 0, 0, ()), 8),
                                  ('load_many', [(1, 1, 1), (1, 1, 2)], ()), ('load_many', [(0, 0, 0), (1, 1, 1)], ()),
                                  ('remove', (1, 1, 2, ())), ('load_many', [(1, 1, 2), (1, 1, 1)], ()),
                                  ('load_many', [(1, 1, 1), (1, 1, 2)], ()),
                                  ('store_many', [((2, 2, 1), 9), ((2, 2, 2), 10)], ()),
                                  ('load_many', [(2, 2, 2), (2, 2, 1), (1, 1, 1)], ()), ('load', (2, 2, 1, ())),
                                  ('load', (2, 2, 2, ()))], 'probe:same-block-other-level'))
        # neighbouring index entries (v1: (x, y+1) follows (x, y); v2: (x+1, y) follows (x, y)): removing / storing one
        # leaves the neighbours alone
        nb = [(5, 6, 3), (5, 7, 3), (6, 6, 3), (5, 5, 3), (4, 6, 3), (5, 127, 3), (6, 0, 3), (127, 6, 3), (0, 7, 3)]
        out.append(({'kind': k}, [('store', c + ((),), 6 + i) for i, c in enumerate(nb)] +
                    [('remove', (5, 6, 3, ())), ('load_many', nb, ()), ('remove', (5, 127, 3, ())), ('remove', (127, 6, 3, ())),
                     ('load_many', nb, ()), ('store', (5, 6, 3, ()), 16), ('load_many', nb, ()), ('reopen',),
                     ('cached', (5, 7, 3, ())), ('cached', (6, 0, 3, ())), ('cached', (0, 7, 3, ()))],
                    'probe:index-neighbours'))
        for pad in (0, 60, 64 + 8 * 16384 + 4, 4999):
            out.append(({'kind': k}, [('store', (255, 255, 9, ()), 6), ('store', (128, 128, 9, ()), 7),
                                      ('grow', ((128, 128, 9), pad)),
                                      ('store', (129, 128, 9, ()), 8), ('load', (129, 128, 9, ())),
                                      ('store_many', [((130, 128, 9), 9), ((255, 255, 9), 10)], ()),
                                      ('load_many', [(255, 255, 9), (128, 128, 9), (129, 128, 9), (130, 128, 9)], ()),
                                      ('remove', (129, 128, 9, ())), ('cached', (129, 128, 9, ())), ('cached', (130, 128, 9, ())),
                                      ('store', (128, 128, 9, ()), 11), ('reopen',), ('load', (128, 128, 9, ())),
                                      ('load', (130, 128, 9, ())), ('load', (255, 255, 9, ()))],
                        'probe:bundle-beyond-4GiB'))
    return out


def deep_level_probes():
    """compact v1 / v2: addresses of deep levels whose column / row differ by a power of two >= 2^16 (same slot inside
    their bundles, bundle names differ in the high hex digits only); file layouts get the same addresses."""
    out = []
    cfgs = [{'kind': k} for k in COMPACT_KINDS] + [{'kind': 'file', 'layout': lay, 'link': 'none'}
                                                   for lay in ('tc', 'mp', 'tms', 'arcgis')]
    for cfg in cfgs:
        for (z, strides) in ((17, (1 << 16,)), (31, (1 << 17, 1 << 20, 1 << 24, 1 << 30))):
            for s in strides:
                a, b, c, d = (5, 7, z), (s + 5, 7, z), (5, s + 7, z), (s + 5, s + 7, z)
                e = () if cfg['kind'] != 'file' else ()
                A, B, C, D = a + (e,), b + (e,), c + (e,), d + (e,)
                ops = [('store', A, 6), ('cached', B), ('cached', C), ('load', B), ('load', C), ('load', D),
                       ('store', B, 7), ('store', C, 8), ('load', A), ('load', B), ('load', C),
                       ('load_many', [a, b, c, d], ()), ('store_many', [(d, 9), (a, 10)], ()),
                       ('load_many', [d, c, b, a], ()), ('remove', B), ('remove', C), ('load', A), ('cached', D),
                       ('reopen',), ('load_many', [a, b, c, d], ()), ('remove', D), ('load', A), ('cached', B)]
                out.append((cfg, ops, 'probe:deep-level-stride-2^%d' % (s.bit_length() - 1)))
    return out


# POSIX TZ strings (positive = west of UTC) and the offset local time - UTC in seconds
TTL_ZONES = ['UTC0', 'XXX5', 'XXX-5', 'XXX11:30', 'XXX-13']
TZ_OFFSET = {'UTC0': 0, 'XXX5': -18000, 'XXX-5': 18000, 'XXX11:30': -41400, 'XXX-13': 46800}


def ttl_sites(ctx):
    """which of the three SQL statements of MBTilesCache (INSERT in _store_bulk, SELECT in load_tile, SELECT in
    load_tiles) carry the 'localtime' modifier in their datetime() call: read from the source text (ast; fail closed)
    -> Gallina term of type `sites`, or None"""
    import ast
    try:
        import mapproxy.cache.mbtiles as mod
        tree = ast.parse(open(mod.__file__.replace('.pyc', '.py')).read())
        cls = [n for n in tree.body if isinstance(n, ast.ClassDef) and n.name == 'MBTilesCache']
        if len(cls) != 1:
            raise ValueError('class MBTilesCache not found once')
        flags = []
        for fname in ('_store_bulk', 'load_tile', 'load_tiles'):
            fns = [n for n in cls[0].body if isinstance(n, ast.FunctionDef) and n.name == fname]
            if len(fns) != 1:
                raise ValueError('method %s not found once' % fname)
            texts = [n.value for n in ast.walk(fns[0]) if isinstance(n, ast.Constant) and isinstance(n.value, str)
                     and 'datetime(' in n.value]
            n_calls = sum(t.count('datetime(') for t in texts)
            if n_calls != 1:
                raise ValueError('%s: %d datetime() calls in string constants, one expected' % (fname, n_calls))
            t = texts[0]
            call = t[t.index('datetime('):]
            call = call[:call.index(')') + 1]
            args = [a.strip() for a in call[len('datetime('):-1].split(',')]
            want = {'_store_bulk': (['?', "'unixepoch'"], ['?', "'unixepoch'", "'localtime'"]),
                    'load_tile': (["'now'", "'%d seconds'"], ["'now'", "'localtime'", "'%d seconds'"]),
                    'load_tiles': (["'now'", "'%d seconds'"], ["'now'", "'localtime'", "'%d seconds'"])}[fname]
            if args == want[1]:
                flags.append(True)
            elif args == want[0]:
                flags.append(False)
            else:
                raise ValueError('%s: datetime() arguments %r not understood' % (fname, args))
        return '(mkSites %s %s %s)' % tuple(blit(f) for f in flags), flags
    except Exception as ex:  # noqa
        ctx.problem('harness', 'ttl statements of mbtiles.py not understood: %r' % (ex,), {})
        return None, None


def ttl_probes():
    """mbtiles / per-level sqlite configured with a ttl (option `ttl`, time stamps on) that is far longer than the
    history takes, in time zones west and east of UTC: the cache is the same map (single load, bulk load, existence
    check agree with the stores of a moment ago)."""
    out = []
    a, b, c, d = (0, 0, 0), (127, 128, 9), (128, 127, 9), (1, 0, 1)
    e = ()
    for k in ('mbtiles', 'sqlite'):
        for tz in TTL_ZONES:
            for ttl in (3600, 86400 * 365):
                if ttl != 3600 and tz not in ('XXX5', 'XXX-5'):
                    continue
                ops = [('store', a + (e,), 6), ('store', b + (e,), 7), ('load', a + (e,)), ('load', b + (e,)),
                       ('cached', a + (e,)), ('load_many', [a, b], ()), ('load_many', [b], ()), ('load_many', [a, b, c], ()),
                       ('store_many', [(c, 8), (d, 9), (a, 10)], ()), ('load_many', [a, b, c, d], ()),
                       ('cached', c + (e,)), ('load', d + (e,)), ('remove', b + (e,)), ('load_many', [a, c, d], ()),
                       ('load_many', [b, a], ()), ('reopen',), ('load_many', [d, c, a], ()), ('load', a + (e,)),
                       ('store', b + (e,), 11), ('load_many', [b], ()), ('cached', b + (e,))]
                out.append(({'kind': k, 'ttl': ttl, 'tz': tz}, ops, 'probe:ttl-time-zone'))
    return out


def layout_probes():
    """every digit group / modulus border of the path layouts, deterministically: distinct payloads at the borders,
    read back, half removed, read back"""
    out = []
    xs = [0, 1, 999, 1000, 9999, 10000, 99999, 100000, 999999, 1000000, 1999999, 9999999, 10000000, 10999999,
          19999999, 100000000]
    for lay in LAYOUTS:
        z = 30 if lay == 'quadkey' else 3
        addrs = [(x, 5, z, ()) for x in xs] + [(5, x, z, ()) for x in xs if x != 5]
        ops = [('store', a, i % 14 + 6) for i, a in enumerate(addrs)]
        ops.append(('load_many', [(a[0], a[1], a[2]) for a in addrs], ()))
        ops += [('remove', a) for a in addrs[::2]]
        ops.append(('load_many', [(a[0], a[1], a[2]) for a in addrs], ()))
        ops += [('cached', a) for a in addrs[:6]]
        out.append(({'kind': 'file', 'layout': lay, 'link': 'none'}, ops, 'probe:layout-borders'))
    return out


def colour_probes(pay):
    """linked single-colour tiles whose colour tuples are close: fully transparent colours that differ in the colour
    channels, an RGB colour and its opaque / half transparent RGBA twins"""
    out = []
    ids = pay.rgba_mono_ids + [2, 0]
    addrs = [(i, 1000 * i, 12, ()) for i in range(len(ids))]
    for lay in ('tc', 'tms'):
        for link in ('symlink', 'hardlink'):
            ops = [('store', a, p) for a, p in zip(addrs, ids)]
            ops.append(('load_many', [(a[0], a[1], a[2]) for a in addrs], ()))
            ops += [('store', addrs[0], ids[1]), ('load', addrs[1]), ('load', addrs[0]), ('remove', addrs[1]), ('load', addrs[0]),
                    ('store', addrs[2], 7), ('load', addrs[2]), ('load', addrs[0]), ('reopen',),
                    ('load_many', [(a[0], a[1], a[2]) for a in reversed(addrs)], ())]
            out.append(({'kind': 'file', 'layout': lay, 'link': link}, ops, 'probe:close-colours'))
    return out


def dimension_value_probes():
    """dimension values that differ only where one of them is empty / the literal 'default' / differs in case or by
    one character: different addresses on every layout that supports dimensions"""
    out = []
    vals = ['', 'default', 'Default', 'default ', '0', 'None', '-', 'a', 'a-']
    for lay in ('tc', 'mp', 'tms', 'reverse_tms'):
        for link in ('none', 'hardlink'):
            for key in ('time', 'elevation', 'dim_level'):
                addrs = [(3, 4, 2, ((key, v),)) for v in vals]
                ops = [('load', addrs[1]), ('store', addrs[0], 6), ('load', addrs[1]), ('cached', addrs[1]), ('store', addrs[1], 7),
                       ('load', addrs[0]), ('load', addrs[1])]
                ops += [('store', a, 8 + i) for i, a in enumerate(addrs[2:])]
                ops += [('load', a) for a in addrs]
                ops += [('remove', addrs[1]), ('load', addrs[0]), ('cached', addrs[0]), ('remove', addrs[0]), ('load', addrs[1]),
                        ('load_many', [(3, 4, 2)], ((key, ''),)), ('load_many', [(3, 4, 2)], ((key, 'default'),))]
                # two dimensions, one of them empty
                two = [(3, 4, 2, (('time', tv), ('elevation', ev))) for (tv, ev) in
                       (('', ''), ('', 'default'), ('default', ''), ('default', 'default'))]
                ops += [('store', a, 14 + i) for i, a in enumerate(two)] + [('load', a) for a in two]
                out.append(({'kind': 'file', 'layout': lay, 'link': link}, ops, 'probe:dimension-values'))
    return out


DIM_ORDERS = [((('time', 't1'), ('elevation', 'e1')), (('elevation', 'e1'), ('time', 't1')),
               (('time', 'e1'), ('elevation', 't1'))),
              ((('zone', 'a'), ('dim_b', '1'), ('time', 'b'), ('dim_a', '2'), ('elevation', 'c')),
               (('dim_a', '2'), ('elevation', 'c'), ('dim_b', '1'), ('time', 'b'), ('zone', 'a')),
               (('zone', 'c'), ('dim_b', '1'), ('time', 'b'), ('dim_a', '2'), ('elevation', 'a')))]


def dimension_order_probes():
    """the dimensions argument is a dict: the same values handed over in dicts built in different key order (WMS
    request-parameter order, seeder configuration, tile service) are the same address; the same keys with swapped
    values are another one"""
    out = []
    for lay in ('tc', 'mp', 'tms', 'reverse_tms'):
        for link in ('none', 'hardlink'):
            ops = []
            for n, (d1, d2, other) in enumerate(DIM_ORDERS):
                a, b, c = (3, 4, 2, d1), (3, 4, 2, d2), (3, 4, 2, other)
                ops += [('load', b), ('store', a, 6), ('load', b), ('cached', b), ('load', c), ('store', b, 7), ('load', a),
                        ('load_many', [(3, 4, 2)], d1), ('store', c, 8), ('load', a), ('load', b), ('remove', b), ('load', a),
                        ('cached', a), ('load', c), ('store_many', [((3, 4, 2), 9), ((5, 4, 2), 10)], d2),
                        ('load_many', [(5, 4, 2), (3, 4, 2)], d1), ('remove', a), ('cached', b), ('load', (5, 4, 2, d1)),
                        ('remove', c), ('remove', (5, 4, 2, d2)), ('load', (5, 4, 2, d1))]
            out.append(({'kind': 'file', 'layout': lay, 'link': link}, ops, 'probe:dimension-key-order'))
    return out


def bulk_store_dup_probes():
    """a bulk store is a sequence of stores: the last tile of the list that names an address decides"""
    out = []
    for cfg in all_configs():
        z = 30 if cfg.get('layout') == 'quadkey' else 3
        a, b, c = (5, 5, z), (0, 0, z), (5, 5, z + 1)
        ops = [('store_many', [(a, 6), (a, 7)], ()), ('load', a + ((),)),
               ('store_many', [(b, 8), (a, 9), (b, 10), (c, 11), (a, 12), (c, 13)], ()),
               ('load_many', [a, b, c], ()),
               ('store_many', [(c, 14), (b, 15), (c, 16)], ()), ('load', c + ((),)), ('load', b + ((),)),
               ('store_many', [(a, 17), (a, 17), (a, 6)], ()), ('reopen',), ('load_many', [c, a, b, a], ())]
        out.append((cfg, ops, 'probe:bulk-store-repeated-address'))
    return out


def dup_probes():
    out = []
    for k in SQL_KINDS:
        out.append(({'kind': k}, [('store', (1, 2, 3, ()), 6), ('load_many', [(1, 2, 3), (1, 2, 3)], ())],
                    'probe:repeated-address'))
    return out


def big_bulk_history(rng, pay, cfg, n):
    """bulk load of more tiles than one SQL statement takes (333 per batch): batch borders, absent and present"""
    levels = [0] if cfg['kind'] in ('mbtiles', 'geopackage') and rng.random() < 0.5 else [0, 1, 2]
    coords = []
    for i in range(n):
        coords.append((i % 40, i // 40, rng.choice(levels)))
    present = set([0, 1, 331, 332, 333, 334, 664, 665, 666, 667, n - 2, n - 1]) | set(rng.sample(range(n), n // 3))
    ops = []
    items = [(coords[i], rng.randrange(pay.n)) for i in sorted(present) if i < n]
    for k in range(0, len(items), 50):
        ops.append(('store_many', items[k:k + 50], ()))
    ops.append(('load_many', coords, ()))
    ops.append(('remove', coords[332] + ((),)))
    ops.append(('remove', coords[333] + ((),)))
    ops.append(('load_many', list(reversed(coords)), ()))
    ops.append(('load_many', coords[:333], ()))
    ops.append(('load_many', coords[:334], ()))
    # repeated coordinates inside one batch and across batches (present and absent ones)
    ops.append(('load_many', coords + [coords[0], coords[333], coords[2], coords[n - 1]] + coords[300:340], ()))
    return ops


# ----------------------------------------------------------------------------- path / slot correspondence

def path_cases(ctx, terms, descr):
    from mapproxy.cache.file import FileCache
    from mapproxy.cache.tile import Tile
    rng = ctx.rng
    n = ctx.n(420, 6000)
    caches = {lay: FileCache('/CD', 'png', directory_layout=lay) for lay in LAYOUTS}
    # deterministic: the same dimension values in dicts of different key order (one path), swapped values (another)
    fixed = []
    for lay in LAYOUTS:
        if lay in NO_DIM_LAYOUTS:
            continue
        for group in DIM_ORDERS:
            for dims in group:
                fixed.append((lay, 3, 4, 2, dims))
    for i in range(-len(fixed), n):
        if i < 0:
            lay, x, y, z, dims = fixed[i]
            p = caches[lay].tile_location(Tile((x, y, z)), dimensions=dims_arg(dims))
            rel = p[len('/CD/'):] if p.startswith('/CD/') else '<outside>' + p
            ctx.case(('path', lay, x, y, z, dims), True)
            ctx.count('path/' + lay)
            terms.append('(%s, %s, %s)' % (slit(lay), addr_lit((x, y, z, dims)), codes(rel)))
            descr.append({'layout': lay, 'coord': [x, y, z], 'dimensions': dims, 'tile_location': rel})
            continue
        lay = LAYOUTS[i % len(LAYOUTS)]
        mode = rng.random()
        if mode < 0.5:
            x, y = rng.choice(COORD_EDGE), rng.choice(COORD_EDGE)
        elif mode < 0.9:
            x, y = rng.randrange(0, 10 ** rng.randrange(1, 13)), rng.randrange(0, 10 ** rng.randrange(1, 13))
        else:
            x, y = rng.randrange(-2000, 0), rng.randrange(-2000000, 2000000)
        z = rng.choice(LEVELS + [99, 100, 101, 5, 6, 30])
        if lay in ('quadkey', 'arcgis') and (x < 0 or y < 0):
            x, y = abs(x), abs(y)          # '%x' of a negative number / bit tests of negatives: not tile coordinates
        keys = rng.choice(DIM_KEYSETS)
        dims = tuple((k, rng.choice(DIM_VALUES + ['\x00', 'a\x00b', '\x7f'])) for k in keys)
        try:
            p = caches[lay].tile_location(Tile((x, y, z)), dimensions=dims_arg(dims))
            rel = p[len('/CD/'):] if p.startswith('/CD/') else '<outside>' + p
        except Exception as e:  # noqa
            rel = '<raised %s>' % type(e).__name__
        ctx.case(('path', lay, x, y, z, dims), x >= 1000 or y >= 1000 or bool(dims))
        ctx.count('path/' + lay)
        terms.append('(%s, %s, %s)' % (slit(lay), addr_lit((x, y, z, dims)), codes(rel)))
        descr.append({'layout': lay, 'coord': [x, y, z], 'dimensions': dims, 'tile_location': rel})


def slot_cases(ctx, terms, descr):
    from mapproxy.cache.compact import CompactCacheV1, CompactCacheV2, BundleV1, BundleIndexV1, BundleV2
    rng = ctx.rng
    c1 = CompactCacheV1('/CD')
    n = ctx.n(300, 4000)
    for i in range(n):
        if rng.random() < 0.6:
            x, y = rng.choice(COORD_EDGE), rng.choice(COORD_EDGE)
        else:
            x, y = rng.randrange(0, 1 << rng.randrange(1, 34)), rng.randrange(0, 1 << rng.randrange(1, 34))
        z = rng.choice(LEVELS + [99, 100])
        fname, off = c1._get_bundle_fname_and_offset((x, y, z))
        rel = fname[len('/CD/'):] if fname.startswith('/CD/') else '<outside>' + fname
        b1 = BundleV1('/CD/b', off)
        r1 = b1._rel_tile_coord((x, y, z))
        o1 = BundleIndexV1('/CD/b.bundlx')._tile_index_offset(*r1)
        b2 = BundleV2('/CD/b')
        r2 = b2._rel_tile_coord((x, y, z))
        o2 = b2._tile_idx_offset(*r2)
        ctx.case(('slot', x, y, z), x >= 128 or y >= 128)
        ctx.count('slot')
        terms.append('(%s, %s, (%s, %s), %s, %s)' % (addr_lit((x, y, z, ())), codes(rel), zlit(off[0]), zlit(off[1]),
                                                    zlit(o1), zlit(o2)))
        descr.append({'coord': [x, y, z], 'bundle': rel, 'offset': list(off), 'v1_index_offset': o1, 'v2_index_offset': o2})


# ----------------------------------------------------------------------------- calls through a re-used Tile object

OBJ_DEFS = '''
Definition mkd (d : list (list Z * list Z)) : dims := map (fun kv => (tx (fst kv), tx (snd kv))) d.
Definition tobs_eqb (a b : tobs) : bool :=
  let '(r1, l1, s1, f1) := a in let '(r2, l2, s2, f2) := b in
  opt_eqb Bool.eqb r1 r2 && opt_eqb path_eqb l1 l2 && opt_eqb bytes_eqb s1 s2 && Bool.eqb f1 f2.
Definition mkobs (r : option bool) (l : option (list (list Z))) (s : option bytes) (f : bool) : tobs :=
  (r, match l with Some p => Some (map tx p) | None => None end, s, f).
'''


def object_cases(ctx, pay, terms, descr):
    """One Tile object is passed to several cache calls with varying dimensions (FileCache keeps tile.location,
    tile.source and tile.stored on the object)."""
    from mapproxy.cache.file import FileCache
    from mapproxy.cache.tile import Tile
    from mapproxy.image import ImageSource
    import shutil
    rng = ctx.rng
    n = ctx.n(60, 600)
    for i in range(n):
        layout = rng.choice(['tc', 'mp', 'tms', 'reverse_tms', 'arcgis'])
        link = rng.choice(LINKS)
        cfg = {'kind': 'file', 'layout': layout, 'link': link}
        x, y, z = rng.choice(COORD_EDGE[:20]), rng.choice(COORD_EDGE[:20]), rng.choice([0, 1, 3, 12])
        dimsets = [(), (('time', 'a'),), (('time', 'b'),), (('time', 'a/b'),)]
        pre = []
        for d in dimsets:
            if rng.random() < 0.4:
                pre.append(('store', (x, y, z, d), rng.randrange(pay.n)))
        calls = []
        for _ in range(rng.choice([2, 3, 4, 6])):
            d = rng.choice(dimsets)
            r = rng.random()
            if r < 0.3:
                calls.append(('load', d))
            elif r < 0.5:
                calls.append(('cached', d))
            elif r < 0.85:
                calls.append(('store', d, rng.choice(pay.mono_ids) if (link != 'none' and rng.random() < 0.5)
                              else rng.randrange(pay.n)))
            else:
                calls.append(('remove', d))
            if rng.random() < 0.3:
                # a store whose write fails (ENOSPC), then the retry through the same Tile object
                pid_f = rng.choice(pay.mono_ids) if (link != 'none' and rng.random() < 0.4) else rng.randrange(pay.n)
                calls.append(('store_fail', rng.choice(dimsets), pid_f))
                calls.append(('store', rng.choice(dimsets), pid_f if rng.random() < 0.6 else rng.randrange(pay.n)))
        post = [('load', (x, y, z, d)) for d in dimsets]
        cdir = ctx.tmpdir('obj')
        cache = make_backend(cfg, cdir)
        obs = []
        try:
            for op in pre:
                run_op(pay, cache, op)
            t = Tile((x, y, z))
            completed = [False]
            for c in calls:
                try:
                    if c[0] == 'load':
                        ret = bool(cache.load_tile(t, dimensions=dims_arg(c[1])))
                    elif c[0] == 'cached':
                        ret = bool(cache.is_cached(t, dimensions=dims_arg(c[1])))
                    elif c[0] == 'store':
                        t.source = ImageSource(BytesIO(pay.png[c[2]]))
                        cache.store_tile(t, dimensions=dims_arg(c[1]))
                        ret = None
                        first_completed, completed[0] = not completed[0], True
                        if first_completed:
                            # the first store through this object that returns normally (earlier ones, if any, raised):
                            # its address (fixed by the first call that needed the location) now holds the payload
                            chk = Tile((x, y, z))
                            chk.location = t.location
                            cache.load_tile(chk)
                            if read_source(pay, chk) != list(pay.pixels[c[2]]):
                                ctx.fail('file,tile-object,store-returned-without-writing',
                                         'the first store_tile through a Tile object that returned normally did not write: a load of '
                                         'its location does not return the payload (calls so far: %r)' % (calls[:len(obs) + 1],),
                                         {'backend': cfg, 'coord': [x, y, z], 'pre': pre, 'calls': calls[:len(obs) + 1]})
                    elif c[0] == 'store_fail':
                        import errno
                        import mapproxy.cache.file as fc
                        t.source = ImageSource(BytesIO(pay.png[c[2]]))
                        orig = fc.write_atomic

                        def failing(filename, data):
                            raise OSError(errno.ENOSPC, 'injected: no space left on device')
                        fc.write_atomic = failing
                        try:
                            try:
                                cache.store_tile(t, dimensions=dims_arg(c[1]))
                                ret = None
                                completed[0] = True
                            except OSError:
                                ret = False
                        finally:
                            fc.write_atomic = orig
                    else:
                        cache.remove_tile(t, dimensions=dims_arg(c[1]))
                        ret = None
                    loc = t.location
                    if loc is not None:
                        loc = os.path.relpath(loc, cdir).split(os.sep)
                    src = None
                    if t.source is not None:
                        buf = t.source.as_buffer()
                        buf.seek(0)
                        src = pay.decode(buf.read())
                        buf.seek(0)
                    obs.append([ret, loc, src, bool(t.stored)])
                except Exception as e:  # noqa
                    obs.append(['raised', type(e).__name__])
            outs = [run_op(pay, cache, op) for op in post]
        finally:
            shutil.rmtree(cdir, ignore_errors=True)
        ctx.case(('obj', layout, link, x, y, z, repr(pre), repr(calls)), len(set(c[1] for c in calls)) > 1)
        ctx.count('tile-object/' + layout)
        # oracle: the object acts on the address fixed by its first call that needed the location
        first = None
        for c, o in zip(calls, obs):
            if first is None and o[0] != 'raised' and o[1] is not None:
                first = c[1]
        if layout != 'arcgis' and first is not None:
            try:
                want = FileCache('/CD', 'png', directory_layout=layout).tile_location(Tile((x, y, z)), dimensions=dims_arg(first))
                want = os.path.relpath(want, '/CD').split(os.sep)
            except Exception:  # noqa
                want = None
            bad = [o for o in obs if o[0] != 'raised' and o[1] is not None and o[1] != want]
            if bad:
                ctx.fail('file,tile-object,location-changed', 'tile.location of a re-used Tile object changed: %r' % (bad[0],),
                         {'backend': cfg, 'coord': [x, y, z], 'pre': pre, 'calls': calls, 'observed': obs})

        def olit(o):
            if o[0] == 'raised':
                return '(mkobs (Some true) None None true)' if False else '(mkobs None None (Some [(-7)]) false)'
            ret = 'None' if o[0] is None else '(Some %s)' % blit(o[0])
            loc = 'None' if o[1] is None else '(Some [%s])' % '; '.join(codes(p) for p in o[1])
            return '(mkobs %s %s %s %s)' % (ret, loc, obytes_lit(o[2]), blit(o[3]))

        def clit(c):
            if c[0] == 'load':
                return '(TLoad (mkd %s))' % dims_lit(c[1])
            if c[0] == 'cached':
                return '(TCached (mkd %s))' % dims_lit(c[1])
            if c[0] == 'store':
                return '(TStore (mkd %s) %s)' % (dims_lit(c[1]), pl_lit(pay, c[2]))
            if c[0] == 'store_fail':
                return '(TStoreFail (mkd %s) %s)' % (dims_lit(c[1]), pl_lit(pay, c[2]))
            return '(TRemove (mkd %s))' % dims_lit(c[1])
        link_l = {'none': 'LNone', 'symlink': 'LSym', 'hardlink': 'LHard'}[link]
        terms.append('(%s, %s, [%s], (%s, %s, %s), [%s], [%s], [%s], [%s])' % (
            slit(layout), link_l, '; '.join(op_lit(pay, o) for o in pre), zlit(x), zlit(y), zlit(z),
            '; '.join(clit(c) for c in calls), '; '.join(op_lit(pay, o) for o in post),
            '; '.join(olit(o) for o in obs), '; '.join(out_lit(o) for o in outs)))
        descr.append({'backend': cfg, 'coord': [x, y, z], 'pre': pre, 'calls_on_one_tile_object': calls, 'post': post,
                      'observed_after_each_call(ret, location, source, stored)': obs, 'post_outputs': outs})


# ----------------------------------------------------------------------------- tile manager on a dimension cache

TM_COLORS = {'A': (0, 0, 255), 'B': (0, 255, 0), None: (255, 0, 0)}


class GatedCache(object):
    """The cache object of the second request: after its first load_tiles / is_cached answer another request
    (`between`) runs to completion - the schedule in which a concurrent request creates the tiles between the
    look-up of this request and its tile lock."""

    def __init__(self, real, gate, between):
        self.__dict__.update(_real=real, _gate=gate, _between=between, _done=False)

    def __getattr__(self, name):
        return getattr(self._real, name)

    def _fire(self):
        if not self._done:
            self.__dict__['_done'] = True
            self._between()

    def load_tiles(self, tiles, with_metadata=False, dimensions=None):
        r = self._real.load_tiles(tiles, with_metadata, dimensions=dimensions)
        if self._gate == 'after-lookup':
            self._fire()
        return r

    def is_cached(self, tile, dimensions=None):
        r = self._real.is_cached(tile, dimensions=dimensions)
        if self._gate == 'after-is-cached':
            self._fire()
        return r


def tilemanager_cases(ctx, pay):
    """Requests through the real TileManager (meta tiles, single tiles, bulk meta tiles) on a file cache with a
    TIME dimension: what a request returns for (coord, TIME=A) is what is stored for exactly that address, also
    when another request stored the tiles while this one was between its look-up and its tile lock, and with
    tiles at the same coordinate that differ only in the dimension value."""
    from PIL import Image
    from mapproxy.cache.base import TileLocker
    from mapproxy.cache.file import FileCache
    from mapproxy.cache.tile import Tile, TileManager
    from mapproxy.grid import TileGrid
    from mapproxy.image import ImageSource
    from mapproxy.image.opts import ImageOptions
    from mapproxy.layer import MapLayer
    from mapproxy.srs import SRS
    import shutil

    def make_source(meta):
        class DimSource(MapLayer):
            supports_meta_tiles = meta

            def __init__(self):
                MapLayer.__init__(self)
                self.requested = []

            def get_map(self, query):
                value = (query.dimensions or {}).get('time')
                self.requested.append(value)
                img = Image.new('RGB', query.size, TM_COLORS.get(value, (9, 9, 9)))
                img.putpixel((0, 0), (1, 2, 3))      # not a single colour image
                return ImageSource(img, image_opts=ImageOptions(format='image/png'))
        return DimSource()

    def tbytes(tile):
        if tile is None or tile.source is None:
            return None
        buf = tile.source.as_buffer()
        buf.seek(0)
        return buf.read()

    def colour(data):
        if data is None:
            return None
        return Image.open(BytesIO(data)).convert('RGB').getpixel((128, 128))

    opts = ImageOptions(format='image/png')
    modes = {'meta': dict(meta_size=[2, 2], meta_buffer=0), 'single': dict(meta_size=[1, 1], meta_buffer=0),
             'bulk-meta': dict(meta_size=[2, 2], meta_buffer=0, bulk_meta_tiles=True)}
    n = 0
    for layout in ('tc', 'tms', 'mp', 'reverse_tms'):
        for mode in ('meta', 'single', 'bulk-meta'):
            for gate in ('none', 'after-lookup', 'after-is-cached'):
                for prefill in ('nothing', 'no-dimension', 'other-value'):
                    if ctx.quick and layout in ('mp', 'reverse_tms'):
                        continue
                    n += 1
                    d = ctx.tmpdir('tm')
                    desc = {'stream': 'tile-manager', 'layout': layout, 'mode': mode, 'schedule': gate,
                            'prefilled': prefill, 'request': {'coords': [[1, 0, 2], [0, 1, 2]], 'dimensions': {'time': 'A'}}}
                    ctx.case(('tm', layout, mode, gate, prefill), gate != 'none' or prefill != 'nothing')
                    ctx.count('tile-manager/' + mode)
                    try:
                        cache = FileCache(os.path.join(d, 'cache'), 'png', directory_layout=layout)
                        grid = TileGrid(SRS(4326), bbox=[-180, -90, 180, 90])
                        src = make_source(mode != 'bulk-meta')
                        kw = modes[mode]
                        mgr1 = TileManager(grid, cache, [src], 'png', image_opts=opts,
                                           locker=TileLocker(os.path.join(d, 'locks'), 10, 'c05'), **kw)
                        coords = [(1, 0, 2), (0, 1, 2)]
                        dims = {'time': 'A'}
                        other = {'no-dimension': None, 'other-value': {'time': 'B'}}.get(prefill)
                        prefilled = {}
                        if prefill != 'nothing':
                            for c in coords:
                                img = Image.new('RGB', (256, 256), TM_COLORS[other['time'] if other else None])
                                img.putpixel((0, 0), (3, 2, 1))
                                cache.store_tile(Tile(c, ImageSource(img, image_opts=opts)), dimensions=other)
                                t = Tile(c)
                                cache.load_tile(t, dimensions=other)
                                prefilled[c] = tbytes(t)
                        gated = GatedCache(cache, gate, lambda: mgr1.load_tile_coords(coords, dimensions=dims))
                        mgr2 = TileManager(grid, gated, [src], 'png', image_opts=opts,
                                           locker=TileLocker(os.path.join(d, 'locks'), 10, 'c05'), **kw)
                        got = [tbytes(t) for t in mgr2.load_tile_coords(coords, dimensions=dims)]
                        problems = []
                        for c, g in zip(coords, got):
                            t = Tile(c)
                            cache.load_tile(t, dimensions=dims)
                            stored = tbytes(t)
                            if stored is None or colour(stored) != TM_COLORS['A']:
                                problems.append(('store-address', 'nothing / wrong content stored for %r TIME=A (colour %r)'
                                                 % (c, colour(stored))))
                            elif g != stored:
                                problems.append(('load-address', 'request returned %s for %r TIME=A, stored for that address: colour %r'
                                                 % ('no tile' if g is None else 'colour %r' % (colour(g),), c, colour(stored))))
                            if prefill != 'nothing':
                                t = Tile(c)
                                cache.load_tile(t, dimensions=other)
                                if tbytes(t) != prefilled[c]:
                                    problems.append(('other-address-changed', 'tile %r %r changed' % (c, other)))
                        for kind, what in problems[:1]:
                            ctx.fail('tile-manager,mode=%s,%s' % (mode, kind),
                                     'TileManager(%s) on FileCache(%s), schedule %s, prefilled %s: %s' % (
                                         mode, layout, gate, prefill, what), desc)
                    except Exception as e:  # noqa
                        ctx.fail('tile-manager,mode=%s,raised-%s' % (mode, type(e).__name__),
                                 'TileManager request raised %r' % (e,), desc)
                    finally:
                        shutil.rmtree(d, ignore_errors=True)
    return n


# ----------------------------------------------------------------------------- main

def nontrivial_history(ops):
    addrs = set()
    stored = False
    sl = False
    for op in ops:
        addrs.update(op_addresses(op))
        if op[0] in ('store', 'store_many'):
            stored = True
        if stored and op[0] in ('load', 'load_many'):
            sl = True
    return sl and len(addrs) >= 2


def run(ctx):
    rng = ctx.rng
    pay = Payloads()
    todo = []          # (cfg, ops, origin, check_oracle)

    # 1. corpus and probes of the known findings first
    for cfg, ops, origin in corpus_cases(ctx):
        todo.append((cfg, ops, origin))
    todo += f4_probes()
    todo += dup_probes()
    todo += compact_probes()
    todo += layout_probes()
    todo += deep_level_probes()
    todo += ttl_probes()
    todo += colour_probes(pay)
    todo += [c for c in bulk_store_dup_probes() if not ctx.quick or c[0].get('link', 'none') == 'none']
    todo += [c for c in dimension_value_probes() if not ctx.quick or c[0]['link'] == 'none']
    todo += [c for c in dimension_order_probes() if not ctx.quick or c[0]['link'] == 'none']

    cfgs = all_configs()
    # 2. bounded exhaustive short histories over three colliding addresses (each from the empty state of the
    #    three addresses), concatenated into long histories
    ex_len = 2 if ctx.quick else 3
    for cfg in cfgs:
        triples = special_triples(cfg)
        if ctx.quick:
            triples = [triples[rng.randrange(len(triples))]]
        else:
            triples = rng.sample(triples, min(2, len(triples)))
        slow = cfg['kind'] in SQL_KINDS
        for tr in triples:
            if cfg['kind'] == 'file' and cfg['layout'] not in NO_DIM_LAYOUTS and rng.random() < 0.5:
                d = (('time', rng.choice(DIM_VALUES)),)
                tr = [(a[0], a[1], a[2], d) for a in tr]
                if rng.random() < 0.5:       # three addresses that differ only in the dimension value
                    tr = [(tr[0][0], tr[0][1], tr[0][2], (('time', v),)) for v in rng.sample(DIM_VALUES, 3)]
            mono = cfg.get('link', 'none') != 'none'
            p, q = (rng.choice(pay.mono_ids), rng.choice([rng.choice(pay.mono_ids), rng.randrange(pay.n)])) if mono \
                else (rng.randrange(pay.n), rng.randrange(pay.n))
            if tr[0][3] != tr[1][3]:
                # bulk operations take one dimensions argument: use the single-address alphabet only
                alpha = [o for o in exhaustive_alphabet([tr[0], tr[0], tr[0]], p, q)[:5]]
                alpha += [(o[0], tr[1]) + tuple(o[2:]) for o in alpha[:5]] + [(o[0], tr[2]) + tuple(o[2:]) for o in alpha[:5]]
            else:
                alpha = exhaustive_alphabet(tr, p, q)
            hists = list(itertools.product(alpha, repeat=ex_len))
            cap = ctx.n(70 if slow else 120, 800 if slow else 2000)
            if len(hists) > cap:
                hists = rng.sample(hists, cap)
            # a sample of longer ones
            for _ in range(ctx.n(20, 300)):
                hists.append(tuple(rng.choice(alpha) for _ in range(ex_len + 1 + rng.randrange(2))))
            for h in chunk_histories(hists, tr, 240):
                todo.append((cfg, h, 'exhaustive-%d' % ex_len))

    # 3. random long histories on colliding pools
    for cfg in cfgs:
        slow = cfg['kind'] in SQL_KINDS
        for _ in range(ctx.n(3 if slow else 4, 30 if slow else 60)):
            pool = gen_pool(rng, cfg, rng.choice([3, 4, 6, 8, 10, 14]))
            length = rng.choice([10, 30, 60, 120, 200]) if not (slow and ctx.quick) else rng.choice([10, 30, 60])
            todo.append((cfg, gen_ops(rng, pay, pool, length, cfg.get('link', 'none') != 'none',
                                      compact=cfg['kind'] in COMPACT_KINDS), 'random'))
    # 3b. the regime of finding F4 (dimensions on arcgis / quadkey, quadkey addresses outside the quad range)
    for lay in NO_DIM_LAYOUTS:
        for _ in range(ctx.n(2, 20)):
            cfg = {'kind': 'file', 'layout': lay, 'link': rng.choice(LINKS)}
            pool = gen_pool(rng, cfg, rng.choice([3, 4, 6]), valid=False)
            todo.append((cfg, gen_ops(rng, pay, pool, rng.choice([10, 30, 60]), cfg['link'] != 'none'), 'random-F4-regime'))
    # 4. bulk loads larger than one SQL batch
    for k in SQL_KINDS:
        for _ in range(ctx.n(1, 4)):
            todo.append(({'kind': k}, big_bulk_history(rng, pay, {'kind': k}, rng.choice([700, 1000, 670])), 'big-bulk-load'))

    terms, descr = [], []
    bterms, bdescr = [], []
    tterms, tdescr = [], []
    cterms, cdescr = {'compact1': [], 'compact2': []}, {'compact1': [], 'compact2': []}
    cmax = ctx.n(14, 150)
    png_of = dict((tuple(px), pay.png[i]) for i, px in enumerate(pay.pixels))
    for cfg, ops, origin in todo:
        outs = run_history(ctx, pay, cfg, ops)
        ctx.case((cfg_name(cfg), repr(ops)), nontrivial_history(ops),
                 {'backend': cfg_name(cfg), 'origin': origin, 'history': ops[:6], 'outputs': outs[:6], 'length': len(ops)})
        ctx.count('backend=' + cfg_name(cfg))
        ctx.count('origin=' + origin.split(':')[0])
        ctx.count('ops', len(ops))
        oracle(ctx, pay, cfg, ops, outs, origin)
        # compact caches: the same history on the byte-level model (payload = the bytes of the PNG file)
        if cfg['kind'] in COMPACT_KINDS and len(cterms[cfg['kind']]) < cmax \
                and not any(o[0] in ('store_fault', 'grow') for o in ops) \
                and not any(r[0] == 'raised' for r in outs):
            def bl(pixels):
                return 'None' if pixels is None else '(Some %s)' % llit(list(png_of.get(tuple(pixels), b'?')))

            def bop(o):
                k = o[0]
                if k == 'store':
                    return '(Store %s %s)' % (addr_lit(o[1]), llit(list(pay.png[o[2]])))
                if k == 'store_many':
                    return '(StoreMany [%s])' % '; '.join('(%s, %s)' % (addr_lit((c[0], c[1], c[2], o[2])), llit(list(pay.png[pid])))
                                                        for (c, pid) in o[1])
                return op_lit(pay, o)

            def bout(r):
                if r[0] == 'load' and r[1] == (r[2] is not None):
                    return '(OLoad %s)' % bl(r[2])
                if r[0] == 'load_many':
                    return '(OLoadMany %s [%s])' % (blit(r[1]), '; '.join(bl(v) for v in r[2]))
                return out_lit(r)
            pairs = [(o, r) for (o, r) in zip(ops, outs) if o[0] != 'reopen']
            cterms[cfg['kind']].append('([%s],\n [%s])' % (';\n  '.join(bop(o) for (o, _) in pairs),
                                                          '; '.join(bout(r) for (_, r) in pairs)))
            cdescr[cfg['kind']].append({'backend': cfg, 'origin': origin, 'history': ops if len(ops) <= 40 else ops[:40] + ['...'],
                                        'payloads': 'PNG bytes of the payload ids'})
        big = origin == 'big-bulk-load'
        # re-opening is the identity of the models (their state is the persistent state): not part of the term
        # a store that failed half way is, for the models, the store it turned out to be (or nothing); growing a
        # bundle file is the identity of the key-level model
        mops = []
        for (o, r) in zip(ops, outs):
            if o[0] in ('reopen', 'grow'):
                if r != ['done']:
                    mops.append((None, r))
            elif o[0] == 'store_fault':
                if r == ['nofault'] or (r[0] == 'fault' and r[1] == list(pay.pixels[o[2]])):
                    mops.append((('store', o[1], o[2]), ['done']))
                elif r[0] != 'fault':
                    mops.append((None, r))
            else:
                mops.append((o, r))
        if cfg.get('ttl') and cfg['kind'] == 'mbtiles':
            # the model with time stamps (SqlTtl.v): offset of the zone, every operation at clock reading 0
            tterms.append('(%s, %s,\n [%s],\n [%s])' % (
                zlit(TZ_OFFSET[cfg['tz']]), zlit(cfg['ttl']), ';\n  '.join(op_lit(pay, o) for (o, _) in mops if o is not None),
                '; '.join(out_lit(r) for (o, r) in mops)))
            tdescr.append({'backend': cfg, 'origin': origin, 'history': ops, 'implementation_outputs': outs})
        (bterms if big else terms).append('(%s,\n [%s],\n [%s])' % (
            cfg_lit(cfg), ';\n  '.join(op_lit(pay, o) for (o, _) in mops if o is not None),
            '; '.join(out_lit(r) for (o, r) in mops)))
        (bdescr if big else descr).append({
            'backend': cfg, 'origin': origin, 'history': ops if len(ops) <= 40 else ops[:40] + ['...'],
            'implementation_outputs': outs if len(outs) <= 40 else ['...']})
    checker = "fun c => let '(b, ops, outs) := c in outs_eqb (model_outs b ops) outs"
    ctx.corr_check('histories', IMPORTS, 'backend * list op * list out', terms, checker,
                   lambda i: descr[i], shard=min(12, max(1, len(terms) // 32 + 1)), defs=DEFS)
    for kind, fn in (('compact2', 'v2_bytes_outs'), ('compact1', 'v1_bytes_outs')):
        ctx.corr_check('compact_bytes_' + kind[-1:].replace('2', 'v2').replace('1', 'v1'),
                       IMPORTS + ' Bytes Bundle CompactBytes', 'list op * list out', cterms[kind],
                       "fun c => outs_eqb (%s (fst c)) (snd c)" % fn,
                       (lambda k: (lambda i: cdescr[k][i]))(kind), shard=6, defs=DEFS)
    ctx.corr_check('bulk_load_batches', IMPORTS, 'backend * list op * list out', bterms, checker,
                   lambda i: bdescr[i], shard=1, defs=DEFS)

    ctx.corr_check('ttl_histories', IMPORTS + ' SqlTtl', 'Z * Z * list op * list out', tterms,
                   "fun c => let '(off, ttl, ops, outs) := c in "
                   "outs_eqb (snd (tsql_run mbtiles_params code_sites off ttl [] (map (fun o => (0, o)) ops))) outs",
                   lambda i: tdescr[i], shard=1, defs=DEFS)
    sites, flags = ttl_sites(ctx)
    if sites is not None:
        ctx.corr_check('ttl_sites', IMPORTS + ' SqlTtl', 'sites', [sites], "fun c => sites_eqb c code_sites",
                       lambda i: {'localtime modifier in INSERT / single SELECT / bulk SELECT of MBTilesCache': flags,
                                  'model': 'code_sites (SqlTtl.v)'}, shard=1, defs=DEFS)

    tilemanager_cases(ctx, pay)

    oterms, odescr = [], []
    object_cases(ctx, pay, oterms, odescr)
    ctx.corr_check('tile_objects', IMPORTS,
                   'string * link_mode * list op * (Z * Z * Z) * list tcall * list op * list tobs * list out', oterms,
                   "fun c => let '(lay, link, pre, xyz, cs, post, obs, outs) := c in let '(x, y, z) := xyz in "
                   "let r := object_case lay link pre x y z cs post in "
                   "list_eqb tobs_eqb (fst r) obs && outs_eqb (snd r) outs",
                   lambda i: odescr[i], shard=40, defs=DEFS + OBJ_DEFS)

    pterms, pdescr = [], []
    path_cases(ctx, pterms, pdescr)
    ctx.corr_check('paths', IMPORTS, 'string * addr * list Z', pterms,
                   "fun c => let '(lay, a, p) := c in opt_eqb text_eqb (tile_path lay \"png\" a) (Some (tx p))",
                   lambda i: pdescr[i], defs=DEFS)
    sterms, sdescr = [], []
    slot_cases(ctx, sterms, sdescr)
    ctx.corr_check('slots', IMPORTS, 'addr * list Z * (Z * Z) * Z * Z', sterms,
                   "fun c => let '(a, p, off, o1, o2) := c in "
                   "text_eqb (join_path (fst (compact_key false a))) (tx p) && "
                   "pair_eqb Z.eqb Z.eqb (bundle_offset (ax a) (ay a) (az a)) off && "
                   "Z.eqb (snd (compact_key false a)) o1 && Z.eqb (snd (compact_key true a)) o2",
                   lambda i: sdescr[i], defs=DEFS)
