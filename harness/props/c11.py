"""C11  Seeding creates every selected tile, nothing else, and survives interruption.

Model: coq/theories/Seed.v (TileWalker.walk/_walk/_filter_subtiles, SeedProgress, duplicate deques,
limit_sub_bbox, the MetaGrid functions the walker uses; exact arithmetic on Grid.v), theorems: coq/props/P_C11.v.

Tie (correspondence, evaluated inside Coq with vm_compute):
  * `can_skip`     SeedProgress.can_skip on generated / boundary progress tuples vs Seed.can_skip
  * `limit`        seed.util.limit_sub_bbox vs Seed.limit_sub_bbox
  * `geo_walk`     (compared on the complete lists handed to worker_pool.process: Seed.observe / handed_tiles)
                   the real TileWalker (real MetaGrid, real coverage objects, real SeedProgress, real ProgressLog and
                   ProgressStore, a recording worker pool) on generated tasks of the *exact stream* (grids with integer
                   parameters: float arithmetic is exact, traces must agree event for event) vs Seed.geo_walk:
                   uninterrupted runs, runs interrupted at an event index (prefix) and runs resumed from what the real
                   ProgressStore wrote (old progress identifier read back from the pickle file)
  * `tree_walk`    the same runs of the *realistic stream* (GLOBAL_MERCATOR, GLOBAL_GEODETIC, sqrt2, UTM, coverages in
                   another SRS, polygons): the tree of _walk calls is recorded from the real walker and the model
                   Seed.run_walk (progress, skipping, duplicate deques, reports) is compared on that tree.
Oracle (independent of the model, on what the implementation did):
  * union of the tiles processed before and after every interruption (chains of up to two crashes, every persisted
    report chosen by a generated time-gating schedule) covers the uninterrupted run;
  * every processed meta tile is an aligned, valid tile of a selected level and intersects the coverage;
  * every meta tile of a selected level whose chain of ancestors' meta tiles intersects the coverage and whose centre
    lies more than 1/10 pixel inside the traversed rectangles is processed;
  * every process call hands over exactly the members of one meta tile that need work (all with an empty cache, the
    uncached ones with a partly filled cache, [main tile] with refresh_all), in tile_list order; no call when none does;
  * the mapproxy-seed command (SeedScript via sys.argv): without --continue a leftover progress file is ignored, with
    --continue the union covers everything; configured level ranges (from/to, also 0) select exactly the chosen levels;
  * the walk stopped through the SeedProgress.running() hook at a chosen _walk call (StopProcess), then continued from
    the progress file (traces also compared with Seed.run_walk_s / geo_walk_s);
  * an interruption right after any write of the progress file that is not a progress report;
  * interrupted with real worker processes (real seed_task / TileWorkerPool / TileSeedWorker): every list handed over
    before the interrupt is worked off before seed_task returns (oracle only);
  * configured tasks (several grids per cache) only hand over tiles touching the point-wise transformed coverage;
  * polygon coverages with interior rings, also given in another SRS (corpus hole-other-srs-*.json, every second polygon
    of the realistic stream): no processed meta tile lies inside a ring brought into the grid SRS point by point (pyproj);
  * TileWorkerPool.process puts the list into the queue exactly once however long the queue is full (fixed schedules
    first, then generated ones; also compared with Seed.pool_process);
  * the interruption lies inside the work of a seed worker (real TileSeedWorker.work_loop / TileManager / TileCreator / FileCache
    run in the walker's thread): the worker dies right after the k-th stored tile, for every k (also between the tiles of one
    meta tile); the task is continued from the real progress file and finishes: every selected tile exists in the cache; the
    same for caches that hold parts of meta tiles before an uninterrupted run (oracle only, store_crash_cases);
  * the walker does not raise (finding C11-sliver, repaired: rectangles thinner than 2/10 pixel are generated on purpose);
    the progress file holds exactly the reported identifier.
"""
import io
import json
import math
import os
from fractions import Fraction

from common import zlit, blit, llit, olit, VERIF
from gridlib import GridCase, frac

ID = 'C11'
GEN = ['Gen_seed_id.v']     # SeedTask.id (translator/specs/seed_id.py)
TECHNIQUE = ('Coq proof (induction over arbitrary walk trees / lexicographic progress order) + correspondence check of the '
             'executable model against the real TileWalker, SeedProgress and ProgressStore, including interrupted and resumed runs')
LEVEL_TEXT = ('Theorems over the Gallina model of TileWalker._walk / SeedProgress for every walk tree, every old progress '
              'identifier, every crash index and every persisted report (resume_covers, also for chains of interruptions), '
              'strict-order properties of can_skip, soundness of the geometric walk for every grid, meta size, level list '
              'and every coverage predicate that is monotone under overlap (walk_sound; the geometric fact selected_meta_tiles_overlap is proved; closed for bbox / multi-bbox coverages: walk_sound_bbox_coverages; walk_within_start_rectangle for every coverage and skip_geoms), walk_completes: no _walk call of a task on a well-formed '
              'grid with sorted valid levels raises (holds since the repair of finding C11-sliver); completeness of the selection: walk_complete_chain and walk_complete_interior (points at least '
              '1/10 pixel inside the traversed rectangles) and walk_complete_nested (pyramids whose resolutions are integer multiples: no interiority with respect to tiles) are proved; tied to mapproxy/seed/seeder.py, seed/util.py and grid.py MetaGrid by '
              'running the real walker on generated tasks and comparing event traces with the model evaluated by vm_compute.')
LEVEL_NOTE = ('Trusted: Coq kernel, hand-written model Seed.v / Grid.v, the correspondence harness. Not verified: IEEE rounding '
              '(exact stream is bit exact; realistic stream is tied at the level of the recorded walk tree), shapely predicates '
              'and PROJ (the coverage predicate is a function parameter of the model; answers are recorded), worker processes, '
              '--skip-uncached (is_stale) mode; in the walk model the cache content is fixed during a task (the recording pool stores nothing); '
              'the work of a worker on one handed list is a separate small model (worker_stores, tied by meta_store).')
DESIGN_REF = 'DESIGN.md section 5, C11'
RULE = ('case = (task: grid, meta size, levels, coverage, skip_geoms; run: uninterrupted / crash index / resumed from persisted '
        'identifier); non-trivial = task with at least two traversed levels and a coverage that selects a proper subset, or an '
        'interrupted/resumed run; distinct by (task, run kind, crash indices, persisted identifier)')
TRUSTED = ['model Seed.v hand-written from mapproxy/seed/seeder.py, seed/util.py, grid.py (MetaGrid); tie = differential run of the '
           'real TileWalker/SeedProgress/ProgressStore vs model',
           'coverage predicate (shapely, PROJ, bbox tolerance arithmetic for non-bbox coverages) is a parameter: answers recorded from SeedTask.intersects',
           'crash model: an interruption happens between two observable events (pool.process / log_progress calls); the progress '
           'file is written atomically (write_atomic) by the report that persists it']
ASSUMPTIONS = ['coverage predicate monotone (CONTAINS for a rectangle implies not NONE for every rectangle overlapping it)',
               'levels sorted, unique, valid (LevelsList.for_grid guarantees it)',
               'handle_all or uncached mode with a cache content that does not change during the history']
EXPLANATION = ('resume_covers proved for every tree, crash index and persisted report; real walker interrupted and resumed through '
               'the real ProgressStore, traces compared with the model')

CORPUS = os.path.join(VERIF, 'corpus', 'C11')
MAX_EVENTS = 4000


class Crash(BaseException):
    pass


class TooBig(BaseException):
    pass


# ----------------------------------------------------------------------------- building tasks from specs

def build_grid(gs):
    from mapproxy.grid import TileGrid, tile_grid
    from mapproxy.srs import SRS
    if 'tile_grid' in gs:
        kw = dict(gs['tile_grid'])
        for k in ('bbox', 'tile_size'):
            if k in kw and kw[k] is not None:
                kw[k] = tuple(kw[k])
        return tile_grid(**kw)
    return TileGrid(SRS(gs.get('srs', 3857)), bbox=tuple(float(v) for v in gs['bbox']),
                    tile_size=tuple(gs['tile_size']), res=[float(r) for r in gs['res']], origin=gs.get('origin', 'll'))


def build_cov(c):
    from mapproxy.srs import SRS
    from mapproxy.util.coverage import BBOXCoverage, GeomCoverage, MultiCoverage
    if c['type'] == 'bbox':
        return BBOXCoverage(tuple(float(v) for v in c['bbox']), SRS(c['srs']))
    if c['type'] == 'poly':
        import shapely.geometry
        geom = shapely.geometry.Polygon([tuple(p) for p in c['shell']], [[tuple(p) for p in h] for h in c.get('holes', [])])
        return GeomCoverage(geom, SRS(c['srs']))
    if c['type'] == 'multi':
        return MultiCoverage([build_cov(p) for p in c['parts']])
    raise ValueError(c['type'])


def is_cached_rule(rule, t):
    """deterministic cache content of a task: tile (x, y, z) is cached iff ((x // b) * 7 + (y // b) * 13 + z) % m < r."""
    if not rule:
        return False
    b, m, r = rule
    return ((t[0] // b) * 7 + (t[1] // b) * 13 + t[2]) % m < r


def keep_lit(rule):
    if not rule:
        return '(fun _ : coord => true)'
    b, m, r = rule
    return "(fun t : coord => let '(x, y, z) := t in negb (((x / %d) * 7 + (y / %d) * 13 + z) mod %d <? %d))" % (b, b, m, r)


class StubTM(object):
    def __init__(self, grid, meta_size, rule=None):
        from mapproxy.grid import MetaGrid
        self.grid = grid
        self.meta_grid = MetaGrid(grid, meta_size=tuple(meta_size), meta_buffer=0)
        self.rescale_tiles = 0
        self.rule = rule

    def is_cached(self, t, dimensions=None):
        return is_cached_rule(self.rule, t)

    def is_stale(self, t, dimensions=None):
        return False

    def cleanup(self):
        pass


def build_tm(grid, meta_size, real_tm, rule=None):
    if real_tm:
        from mapproxy.cache.tile import TileManager
        from mapproxy.cache.dummy import DummyCache, DummyLocker

        class RuleCache(DummyCache):
            def is_cached(self, tile, dimensions=None):
                return is_cached_rule(rule, tile.coord)
        return TileManager(grid, RuleCache(), [], 'png', DummyLocker(), meta_size=list(meta_size), meta_buffer=0)
    return StubTM(grid, meta_size, rule)


def build_task(spec):
    from mapproxy.seed.seeder import SeedTask
    grid = build_grid(spec['grid'])
    tm = build_tm(grid, spec['meta'], spec.get('real_tm', False), spec.get('cached'))
    cov = build_cov(spec['cov'])
    if spec.get('transform'):
        # what SeedConfiguration.seed_tasks does with the configured coverage
        cov = cov.transform_to(grid.srs)
    md = {'name': 'c11', 'cache_name': 'cache', 'grid_name': 'grid'}
    task = SeedTask(md, tm, list(spec['levels']), None, spec.get('refresh_all', True), cov)
    return task, grid


# ----------------------------------------------------------------------------- instrumented run of the real walker

class FakeTime(object):
    def __init__(self):
        self.now = 1000.0

    def time(self):
        return self.now


def make_classes():
    from mapproxy.seed.util import ProgressLog, ProgressStore

    class RecStore(ProgressStore):
        def __init__(self, *a, **kw):
            self.writes = 0
            ProgressStore.__init__(self, *a, **kw)

        def write(self):
            self.writes += 1
            ProgressStore.write(self)

    class RecLog(ProgressLog):
        def setup(self, run):
            self.run = run

        def log_progress(self, progress, level, bbox, tiles):
            run = self.run
            run.tick()
            want = run.persist_plan(run.nreports)
            run.nreports += 1
            run.clock.now = self._lastprogress + (1000.0 if want else 0.0)
            ident = progress.current_progress_identifier()
            before = self.progress_store.writes if self.progress_store else 0
            ProgressLog.log_progress(self, progress, level, bbox, tiles)
            wrote = bool(self.progress_store) and self.progress_store.writes > before
            run.events.append(('rep', level, canon_ident(ident), wrote))
            if wrote:
                run.check_store(ident)

    return RecStore, RecLog


def canon_ident(ident):
    if ident is None:
        return None
    return tuple((int(a), int(b)) for a, b in ident)


class RecPool(object):
    def __init__(self, run, logger):
        self.run = run
        self.progress_logger = logger

    def process(self, tiles, progress):
        self.run.tick()
        self.run.events.append(('proc', tuple(tuple(t) for t in tiles)))
        if self.progress_logger:
            store = getattr(self.progress_logger, 'progress_store', None)
            before = store.writes if store is not None else 0
            # more than half a second passes between two hand-overs: log_step is due at every call
            self.run.clock.now += 1.0
            self.progress_logger.log_step(progress)
            if store is not None and store.writes > before:
                # the progress file was written outside a progress report: an interruption right here is a crash point
                # of its own (the model has no such write; the resume oracle decides whether what was written is safe)
                self.run.step_writes.append(len(self.run.events))
                if canon_ident(store.status.get(self.progress_logger.current_task_id)) == ():
                    self.run.step_writes_done.append(len(self.run.events))


class Run(object):
    """One (possibly interrupted) run of the real TileWalker for `task`, continuing from progress file `fn`."""

    def __init__(self, task, spec, fn, crash_at, persist_plan, record_tree=False, record_cov=None, stop_at=None):
        self.task, self.spec, self.fn = task, spec, fn
        self.crash_at = crash_at
        self.persist_plan = persist_plan
        self.events = []
        self.nreports = 0
        self.clock = FakeTime()
        self.crashed = False
        self.raised = None
        self.store_problems = []
        self.old = None
        self.tree = None
        self.record_tree = record_tree
        self.record_cov = record_cov
        self.step_writes = []
        self.step_writes_done = []       # ... that stored [] (= task finished)
        self.stop_at = stop_at      # SeedProgress.running() answers True this many times, then False

    def tick(self):
        if self.crash_at is not None and len(self.events) >= self.crash_at:
            raise Crash()
        if len(self.events) >= MAX_EVENTS:
            raise TooBig()

    def check_store(self, ident):
        import pickle
        try:
            with open(self.fn, 'rb') as f:
                st = pickle.load(f)
        except Exception as e:  # noqa
            self.store_problems.append('progress file unreadable after write: %r' % (e,))
            return
        if st.get(self.task.id, 'missing') != ident:
            self.store_problems.append('progress file holds %r, reported identifier %r' % (st.get(self.task.id, 'missing'), ident))

    def go(self):
        import mapproxy.seed.util as su
        from mapproxy.seed.seeder import TileWalker, SeedProgress
        RecStore, RecLog = make_classes()
        saved_time = su.time
        su.time = self.clock
        orig_intersects = None
        try:
            store = RecStore(self.fn, continue_seed=True)
            self.old = canon_ident(store.get(self.task.id))
            log = RecLog(out=io.StringIO(), silent=True, verbose=True, progress_store=store)
            log.setup(self)
            log.current_task_id = self.task.id
            pool = self.make_pool(log)
            if self.stop_at is None:
                progress = SeedProgress(old_progress_identifier=store.get(self.task.id))
            else:
                stop_at = self.stop_at

                class StoppingProgress(SeedProgress):
                    # the hook embedding applications use to stop a seed: _walk asks running() once per call
                    asked = 0

                    def running(self):
                        self.asked += 1
                        return self.asked <= stop_at
                progress = StoppingProgress(old_progress_identifier=store.get(self.task.id))
            if self.record_cov is not None:
                orig_intersects = self.task.intersects
                table = self.record_cov

                def rec_intersects(bbox, _o=orig_intersects, _t=table):
                    r = _o(bbox)
                    _t[tuple(bbox)] = r
                    return r
                self.task.intersects = rec_intersects
            refresh_all = self.spec.get('refresh_all', True)
            walker = TileWalker(self.task, pool, handle_uncached=True, handle_all=refresh_all,
                                skip_geoms_for_last_levels=self.spec.get('skip', 0), progress_logger=log,
                                seed_progress=progress, work_on_metatiles=self.spec.get('womt', True))
            self.report_till = walker.report_till_level
            if self.record_tree:
                self.tree = TreeRec(walker)
            try:
                walker.walk()
            except Crash:
                self.crashed = True
            except TooBig:
                self.raised = 'TooBig'
            except Exception as e:  # noqa
                self.raised = type(e).__name__ + ': ' + str(e)[:80]
                self.events.append(('err',))
        finally:
            su.time = saved_time
            if orig_intersects is not None:
                del self.task.intersects
        return self

    def make_pool(self, log):
        return RecPool(self, log)

    def processed(self):
        """every single tile handed to the workers"""
        out = []
        for e in self.events:
            if e[0] == 'proc':
                out.extend(e[1])
        return out

    def calls(self):
        """the lists given to worker_pool.process"""
        return [e[1] for e in self.events if e[0] == 'proc']


class TreeRec(object):
    """Records the tree of _walk calls of a real TileWalker (pass-through wrappers, evaluation order unchanged)."""

    def __init__(self, walker):
        self.stack = []
        self.root = None
        ow, of, og = walker._walk, walker._filter_subtiles, walker.grid.get_affected_level_tiles
        rec = self

        def _walk(cur_bbox, levels, current_level=0, all_subtiles=False):
            node = {'lv': current_level, 'levels': list(levels), 'subs': [], 'total': None, 'err': False}
            if rec.stack:
                rec.stack[-1]['subs'][-1]['child'] = node
            else:
                rec.root = node
            rec.stack.append(node)
            try:
                return ow(cur_bbox, levels, current_level=current_level, all_subtiles=all_subtiles)
            except Exception:
                if node['total'] is None:
                    node['err'] = True
                raise
            finally:
                rec.stack.pop()

        def _filter(subtiles, all_subtiles):
            node = rec.stack[-1]
            for item in of(subtiles, all_subtiles):
                node['subs'].append({'t': item[0], 'child': None})
                yield item

        def _affected(bbox, level):
            res = og(bbox, level)
            rec.stack[-1]['total'] = res[1][0] * res[1][1]
            return res

        walker._walk = _walk
        walker._filter_subtiles = _filter
        walker.grid.get_affected_level_tiles = _affected


def tree_lit(node, rtl):
    if node is None or node['err'] or node['total'] is None:
        return 'WErr'
    lv = node['lv']
    inl = lv in node['levels']
    rest = node['levels'][1:] if inl else node['levels']
    subs = []
    for s in node['subs']:
        if s['t'] is None:
            subs.append('SNone')
        elif not rest:
            subs.append('SLeaf %s' % coord_lit(s['t']))
        else:
            subs.append('SRec %s %s' % (coord_lit(s['t']), '(%s)' % tree_lit(s['child'], rtl) if s['child'] is not None else 'WErr'))
    return 'WNode %s %s %s %s [%s]' % (zlit(lv), blit(inl), blit(inl and lv <= rtl), zlit(node['total']), '; '.join(subs))


def tree_nodes(node):
    if node is None:
        return 0
    return 1 + sum(tree_nodes(s['child']) for s in node['subs'] if s['child'] is not None)


# ----------------------------------------------------------------------------- Gallina literals

def coord_lit(c):
    return '(%s, %s, %s)' % (zlit(c[0]), zlit(c[1]), zlit(c[2]))


def path_lit(p):
    return '[' + '; '.join('(%s, %s)' % (zlit(a), zlit(b)) for a, b in p) + ']'


def ident_lit(i):
    return 'None' if i is None else '(Some %s)' % path_lit(i)


def oevents_lit(evs):
    """observable trace: process calls with the complete list handed over"""
    out = []
    for e in evs:
        if e[0] == 'proc':
            out.append('OProc %s' % llit(e[1], coord_lit))
        elif e[0] == 'rep':
            out.append('ORep %s %s' % (zlit(e[1]), ident_lit(e[2])))
        else:
            out.append('OErr')
    return '[' + '; '.join(out) + ']'


def events_lit(evs, main_of):
    """trace at the level of meta tiles (tree tie): a process call is identified by the main tile of its list"""
    out = []
    for e in evs:
        if e[0] == 'proc':
            out.append('EProc %s' % coord_lit(main_of(e[1])))
        elif e[0] == 'rep':
            out.append('ERep %s %s' % (zlit(e[1]), ident_lit(e[2])))
        else:
            out.append('EErr')
    return '[' + '; '.join(out) + ']'


# ----------------------------------------------------------------------------- generators

def gen_exact_grid(rng):
    tw, th = rng.choice([(4, 4), (8, 8), (5, 3), (16, 16), (2, 2), (10, 10), (3, 7), (256, 256), (1, 1)])
    mode = rng.choice(['f2', 'f2', 'sqrt2ish', 'custom', 'custom', 'f3'])
    n = rng.randrange(1, 7)
    if mode == 'f2':
        base = 10 * rng.choice([1, 2, 3, 5])
        res = [base * 2 ** (n - 1 - j) for j in range(n)]
    elif mode == 'f3':
        n = min(n, 4)
        base = 10 * rng.choice([1, 2])
        res = [base * 3 ** (n - 1 - j) for j in range(n)]
    elif mode == 'sqrt2ish':
        seq = [2000, 1410, 1000, 710, 500, 350, 250, 180, 120, 90]
        k = rng.randrange(0, len(seq) - n + 1)
        res = seq[k:k + n]
    else:
        res = sorted({10 * rng.randrange(1, 300) for _ in range(n)}, reverse=True)
    sx, sy = res[0] * tw, res[0] * th
    kx, ky = rng.choice([1, 1, 2, 3]), rng.choice([1, 1, 2, 3])
    w = rng.choice([sx * kx, sx * kx, sx * kx + rng.randrange(1, 60), sx * kx - rng.randrange(1, 30), sx * kx + res[-1] * rng.randrange(1, 2 * tw + 1)])
    h = rng.choice([sy * ky, sy * ky, sy * ky + rng.randrange(1, 60), sy * ky - rng.randrange(1, 30), sy * ky + res[-1] * rng.randrange(1, 2 * th + 1)])
    w, h = max(w, 1), max(h, 1)
    x0, y0 = rng.randrange(-3000, 3000), rng.randrange(-3000, 3000)
    return {'srs': 3857, 'bbox': [x0, y0, x0 + w, y0 + h], 'tile_size': [tw, th], 'res': res,
            'origin': rng.choice(['ll', 'ul', 'll', 'nw'])}


def edge_coords(rng, gs, axis):
    """coordinates on / next to tile edges of random levels along an axis, multiples of 1/8."""
    lo, hi = gs['bbox'][axis], gs['bbox'][axis + 2]
    t = gs['tile_size'][axis]
    out = [lo, hi, lo - 7, hi + 11]
    for _ in range(6):
        r = rng.choice(gs['res'])
        span = r * t
        n = max(1, int((hi - lo) // span))
        i = rng.choice([0, 1, n, n - 1, rng.randrange(0, n + 1)])
        e = (hi - i * span) if (axis == 1 and gs['origin'] in ('ul', 'nw')) else (lo + i * span)
        for off in (0, r / 10.0, -r / 10.0, r / 8.0, -r / 8.0, 0.125, -0.125, r / 10.0 + 0.125, r / 10.0 - 0.125,
                    r / 5.0, -r / 5.0, r / 5.0 - 0.125, span / 2.0, r):
            out.append(e + off)
    for _ in range(4):
        out.append(lo + rng.random() * (hi - lo))
    return [math.floor(v * 8) / 8.0 for v in out]


def gen_exact_cov(rng, gs):
    xs, ys = edge_coords(rng, gs, 0), edge_coords(rng, gs, 1)
    kind = rng.choice(['bbox', 'bbox', 'bbox', 'tiny', 'full', 'poly', 'poly', 'bigpoly', 'bigpoly', 'multi', 'multipoly'])

    def bbox(tiny=False):
        for _ in range(50):
            a, c = sorted([rng.choice(xs), rng.choice(xs)])
            b, d = sorted([rng.choice(ys), rng.choice(ys)])
            if tiny:
                r = rng.choice(gs['res'])
                c = a + rng.choice([0.125, r / 10.0, r / 8.0, r / 5.0 - 0.125, r / 4.0, r])
                if rng.random() < 0.5:
                    d = b + rng.choice([0.125, r / 10.0, r / 5.0 - 0.125, r])
            if a < c and b < d:
                return {'type': 'bbox', 'bbox': [a, b, c, d], 'srs': 3857}
        return {'type': 'bbox', 'bbox': list(gs['bbox']), 'srs': 3857}

    def poly():
        x0, y0, x1, y1 = gs['bbox']
        w, h = x1 - x0, y1 - y0

        def pt():
            return [math.floor(x0 + rng.uniform(-0.1, 1.1) * w), math.floor(y0 + rng.uniform(-0.1, 1.1) * h)]
        import shapely.geometry
        for _ in range(50):
            shape = rng.choice(['tri', 'quad', 'L', 'hole'])
            holes = []
            if shape == 'tri':
                shell = [pt(), pt(), pt()]
            elif shape == 'quad':
                a, b = pt(), pt()
                shell = [[min(a[0], b[0]), min(a[1], b[1])], [max(a[0], b[0]) + 1, min(a[1], b[1]) - rng.randrange(0, 40)],
                         [max(a[0], b[0]) + 3, max(a[1], b[1]) + 2], [min(a[0], b[0]) - rng.randrange(0, 40), max(a[1], b[1]) + 1]]
            elif shape == 'L':
                a = pt()
                u, v = max(2, int(w * rng.uniform(0.2, 0.8))), max(2, int(h * rng.uniform(0.2, 0.8)))
                shell = [a, [a[0] + u, a[1]], [a[0] + u, a[1] + v // 2], [a[0] + u // 2, a[1] + v // 2], [a[0] + u // 2, a[1] + v], [a[0], a[1] + v]]
            else:
                a = pt()
                u, v = max(8, int(w * rng.uniform(0.3, 0.9))), max(8, int(h * rng.uniform(0.3, 0.9)))
                shell = [a, [a[0] + u, a[1]], [a[0] + u, a[1] + v], [a[0], a[1] + v]]
                holes = [[[a[0] + u // 4, a[1] + v // 4], [a[0] + 3 * u // 4, a[1] + v // 4], [a[0] + 3 * u // 4, a[1] + 3 * v // 4], [a[0] + u // 4, a[1] + 3 * v // 4]]]
            g = shapely.geometry.Polygon(shell, holes)
            if g.is_valid and g.area > 0:
                return {'type': 'poly', 'shell': shell, 'holes': holes, 'srs': 3857}
        return bbox()

    def bigpoly():
        # a large part of the grid cut by a sloping edge: whole meta tiles are CONTAINED, their neighbours in the same
        # row / the rows below only INTERSECT or lie outside
        x0, y0, x1, y1 = gs['bbox']
        w, h = x1 - x0, y1 - y0
        a, b = rng.uniform(0.15, 0.95), rng.uniform(0.15, 0.95)
        ya, yb = math.floor(y0 + a * h), math.floor(y0 + b * h)
        if rng.random() < 0.5:      # lower part
            shell = [[x0 - 9, y0 - 9], [x1 + 9, y0 - 9], [x1 + 9, ya], [x0 - 9, yb]]
        else:                       # upper part
            shell = [[x0 - 9, yb], [x1 + 9, ya], [x1 + 9, y1 + 9], [x0 - 9, y1 + 9]]
        if rng.random() < 0.3:      # left / right part instead
            xa, xb = math.floor(x0 + a * w), math.floor(x0 + b * w)
            shell = [[x0 - 9, y0 - 9], [xa, y0 - 9], [xb, y1 + 9], [x0 - 9, y1 + 9]]
        return {'type': 'poly', 'shell': shell, 'holes': [], 'srs': 3857}

    if kind == 'bbox':
        return bbox()
    if kind == 'bigpoly':
        return bigpoly()
    if kind == 'tiny':
        return bbox(tiny=True)
    if kind == 'full':
        return {'type': 'bbox', 'bbox': list(gs['bbox']), 'srs': 3857}
    if kind == 'poly':
        return poly()
    if kind == 'multi':
        return {'type': 'multi', 'parts': [bbox() for _ in range(rng.randrange(1, 4))]}
    return {'type': 'multi', 'parts': [poly(), bbox()]}


def gen_levels(rng, n):
    mode = rng.choice(['all', 'subset', 'subset', 'single', 'tail', 'head'])
    if mode == 'all':
        return list(range(n))
    if mode == 'single':
        return [rng.randrange(n)]
    if mode == 'tail':
        return list(range(rng.randrange(n), n))
    if mode == 'head':
        return list(range(0, rng.randrange(1, n + 1)))
    ls = [l for l in range(n) if rng.random() < 0.5]
    return ls or [rng.randrange(n)]


def gen_cached(rng):
    """cache content rule (block size, modulus, threshold) or None = empty cache; only looked at without refresh_all"""
    if rng.random() < 0.4:
        return None
    m = rng.choice([2, 3, 5, 7])
    return [rng.choice([1, 2, 4, 8]), m, rng.randrange(1, m + 1)]


def limit_levels(gs, cov, levels, budget=1800):
    """drop the finest levels of a task whose coverage would need more than `budget` tiles"""
    if cov['type'] == 'bbox':
        b = cov['bbox']
    elif cov['type'] == 'poly':
        xs, ys = [p[0] for p in cov['shell']], [p[1] for p in cov['shell']]
        b = [min(xs), min(ys), max(xs), max(ys)]
    else:
        b = gs['bbox']
    g = gs['bbox']
    w = max(1.0, min(b[2], g[2]) - max(b[0], g[0]))
    h = max(1.0, min(b[3], g[3]) - max(b[1], g[1]))
    total, keep = 0, []
    for l in levels:
        r = gs['res'][l]
        total += (w / (r * gs['tile_size'][0]) + 1) * (h / (r * gs['tile_size'][1]) + 1)
        if total > budget and keep:
            break
        keep.append(l)
    return keep


def gen_exact_spec(rng):
    gs = gen_exact_grid(rng)
    cov = gen_exact_cov(rng, gs)
    return {'stream': 'exact', 'grid': gs, 'meta': list(rng.choice([(1, 1), (2, 2), (2, 2), (3, 2), (4, 4), (1, 3), (5, 1)])),
            'levels': limit_levels(gs, cov, gen_levels(rng, len(gs['res']))), 'cov': cov,
            'skip': rng.choice([0, 0, 0, 0, 1, 2, 3]), 'real_tm': rng.random() < 0.5, 'refresh_all': rng.random() < 0.4,
            'cached': gen_cached(rng), 'womt': rng.random() < 0.75}


def gen_pyramid_spec(rng, irregular=False, multi=False, roots=False):
    """regular pyramid, several levels below the first level that has whole meta tiles inside a large polygon cut by a
    sloping edge: CONTAINED subtiles next to INTERSECTING ones with NONE tiles below them"""
    t = rng.choice([4, 8, 4, 5])
    n = rng.choice([3, 4, 4])
    base = 10 * rng.choice([1, 2, 4])
    res = [base * 2 ** (n - 1 - j) for j in range(n)]
    if irregular:
        # tiles of one level do not nest in the tiles of the level above: limit_sub_bbox matters
        n = rng.choice([4, 5, 5])
        seq = rng.choice([[2000, 1410, 1000, 710, 500, 350, 250], [810, 540, 360, 240, 160, 110], [1000, 700, 400, 300, 170, 100],
                          [900, 600, 250, 200, 90]])
        k0 = rng.randrange(0, len(seq) - n + 1)
        res = seq[k0:k0 + n]
    k = 2 if roots else rng.choice([1, 2])
    x0, y0 = rng.randrange(-2000, 2000), rng.randrange(-2000, 2000)
    gs = {'srs': 3857, 'bbox': [x0, y0, x0 + res[0] * t * k, y0 + res[0] * t * k], 'tile_size': [t, t], 'res': res,
          'origin': rng.choice(['ll', 'ul'])}
    w = h = res[0] * t * k
    a, b = rng.uniform(0.2, 0.9), rng.uniform(0.2, 0.9)
    ya, yb = math.floor(y0 + a * h), math.floor(y0 + b * h)
    xa, xb = math.floor(x0 + a * w), math.floor(x0 + b * w)
    shell = rng.choice([
        [[x0 - 9, y0 - 9], [x0 + w + 9, y0 - 9], [x0 + w + 9, ya], [x0 - 9, yb]],
        [[x0 - 9, yb], [x0 + w + 9, ya], [x0 + w + 9, y0 + h + 9], [x0 - 9, y0 + h + 9]],
        [[x0 - 9, y0 - 9], [xa, y0 - 9], [xb, y0 + h + 9], [x0 - 9, y0 + h + 9]],
        [[xa, y0 - 9], [x0 + w + 9, y0 - 9], [x0 + w + 9, y0 + h + 9], [xb, y0 + h + 9]]])
    cov = {'type': 'poly', 'shell': shell, 'holes': [], 'srs': 3857}
    if multi:
        # a multi coverage with two members in the (projected) grid SRS: its combined extent is kept in degrees
        bx, by = x0 + rng.uniform(0.1, 0.6) * w, y0 + rng.uniform(0.1, 0.6) * h
        cov = {'type': 'multi', 'parts': [cov, {'type': 'bbox', 'srs': 3857,
                                                'bbox': [math.floor(bx), math.floor(by), math.floor(bx + 0.3 * w), math.floor(by + 0.3 * h)]}]}
    levels = rng.choice([list(range(n)), list(range(1, n)), [n - 1], [0, n - 1]])
    if roots:
        levels = list(range(n))     # level 0 (2 x 2 root tiles, see k) is seeded too
    return {'stream': 'exact', 'grid': gs, 'meta': list(rng.choice([(1, 1), (1, 1), (2, 2), (2, 1)])) if not roots else [1, 1],
            'levels': levels, 'cov': cov, 'skip': 0, 'real_tm': rng.random() < 0.5, 'refresh_all': rng.random() < 0.5,
            'cached': gen_cached(rng)}


REAL_GRIDS = [
    ({'tile_grid': {'srs': 3857}}, 4326, (-180, -85, 180, 85)),
    ({'tile_grid': {'srs': 3857, 'origin': 'nw'}}, 4326, (-180, -85, 180, 85)),
    ({'tile_grid': {'srs': 4326}}, 3857, (-20037508.0, -15000000.0, 20037508.0, 15000000.0)),
    ({'tile_grid': {'srs': 4326, 'origin': 'ul'}}, 4326, (-180, -90, 180, 90)),
    ({'tile_grid': {'srs': 3857, 'res_factor': 'sqrt2', 'num_levels': 16}}, 4326, (-180, -85, 180, 85)),
    ({'tile_grid': {'srs': 25832, 'bbox': [243900.0, 4427757.0, 756099.0, 6655205.0], 'res': [1000, 500, 250, 100, 50, 25, 10, 5]}},
     4326, (5.0, 46.0, 12.0, 56.0)),
    ({'tile_grid': {'srs': 4326, 'bbox': [5.0, 45.0, 15.5, 55.25], 'res_factor': 1.5, 'num_levels': 9, 'origin': 'ul'}},
     4326, (5.0, 45.0, 15.5, 55.25)),
    ({'tile_grid': {'srs': 3857, 'bbox': [1000000.1, 6000000.3, 1234567.8, 6543210.9], 'res': [305.7, 152.8, 76.4, 38.2, 19.1, 9.55]}},
     3857, (1000000.1, 6000000.3, 1234567.8, 6543210.9)),
    ({'tile_grid': {'srs': 3857, 'tile_size': [512, 256], 'res_factor': 1.7, 'num_levels': 10}}, 4326, (-180, -85, 180, 85)),
]


BEND_GRIDS = [
    # (grid, coverage rectangles in EPSG:4326: thin strips whose edges bend in the grid SRS)
    ({'tile_grid': {'srs': 25832, 'bbox': [-100000.0, 5400000.0, 1100000.0, 5700000.0], 'res': [2000, 400, 80, 20],
                    'tile_size': [128, 128]}},
     [(4.0, 50.0, 14.0, 50.1), (5.0, 50.2, 11.5, 50.35), (3.5, 49.9, 13.0, 50.0), (6.0, 50.6, 14.5, 50.7)]),
    ({'tile_grid': {'srs': 3035, 'bbox': [2000000.0, 1000000.0, 7000000.0, 5500000.0], 'res': [10000, 2500, 500, 100],
                    'tile_size': [128, 128]}},
     [(3.0, 40.0, 17.5, 40.25), (1.0, 58.0, 20.0, 58.2), (4.0, 36.0, 15.0, 36.2)]),     # across the central meridian (10 E)
    ({'tile_grid': {'srs': 25832, 'bbox': [-100000.0, 5400000.0, 1100000.0, 5700000.0], 'res': [1000, 250, 50],
                    'tile_size': [256, 256], 'origin': 'nw'}},
     [(4.5, 50.0, 13.5, 50.15), (5.0, 50.4, 14.0, 50.5)]),
]


def gen_bend_spec(rng):
    """bbox coverage in EPSG:4326 on a UTM / LAEA grid, transformed to the grid SRS the way seed_tasks does; levels fine
    enough for whole meta tiles to fit between the chord and the arc of the coverage's edges"""
    gs, rects = rng.choice(BEND_GRIDS)
    b = list(rng.choice(rects))
    b[0] += rng.uniform(-0.3, 0.3)
    b[2] += rng.uniform(-0.3, 0.3)
    n = len(gs['tile_grid']['res'])
    levels = rng.choice([[n - 1], [n - 2, n - 1], list(range(n))])
    return {'stream': 'real', 'bend': True, 'transform': True, 'grid': gs, 'meta': list(rng.choice([(1, 1), (2, 2), (1, 1)])),
            'levels': levels, 'cov': {'type': 'bbox', 'bbox': b, 'srs': 4326}, 'skip': 0, 'real_tm': rng.random() < 0.5,
            'refresh_all': rng.random() < 0.5, 'cached': None}


def gen_real_spec(rng):
    gs, csrs, area = rng.choice(REAL_GRIDS)
    grid = build_grid(gs)
    n = grid.levels
    deepest = rng.randrange(1, min(n, 9))
    # coverage size shrinks with depth so that the walk stays small
    ax0, ay0, ax1, ay1 = area
    frac_size = min(1.0, rng.uniform(1.0, 6.0) / (2.0 ** (deepest * (0.5 if 'sqrt2' in repr(gs) else 1.0)))) if rng.random() < 0.85 else 1.0
    w, h = (ax1 - ax0) * frac_size, (ay1 - ay0) * frac_size * rng.uniform(0.3, 1.0)
    cx, cy = rng.uniform(ax0, ax1 - w), rng.uniform(ay0, ay1 - h)
    kind = rng.choice(['bbox', 'bbox', 'poly', 'multi'])
    if kind == 'bbox':
        cov = {'type': 'bbox', 'bbox': [cx, cy, cx + w, cy + h], 'srs': csrs}
    elif kind == 'poly':
        cov = {'type': 'poly', 'srs': csrs, 'holes': [],
               'shell': [[cx, cy], [cx + w, cy + h * 0.2], [cx + w * 0.7, cy + h], [cx + w * 0.1, cy + h * 0.6]]}
        if int(abs(cx) * 1000.0) % 2 == 0:
            # every second polygon has an interior ring (the shell shrunk towards the mean of its vertices); decided without
            # a draw of its own so that the rest of the stream is the same as without holes
            sh = cov['shell']
            mx_, my_ = sum(p[0] for p in sh) / 4.0, sum(p[1] for p in sh) / 4.0
            cov['holes'] = [[[mx_ + (p[0] - mx_) * 0.5, my_ + (p[1] - my_) * 0.5] for p in sh]]
    else:
        cov = {'type': 'multi', 'parts': [
            {'type': 'bbox', 'bbox': [cx, cy, cx + w * 0.4, cy + h * 0.5], 'srs': csrs},
            {'type': 'poly', 'srs': csrs, 'holes': [], 'shell': [[cx + w * 0.5, cy + h * 0.5], [cx + w, cy + h * 0.5], [cx + w, cy + h]]}]}
    levels = [l for l in range(deepest + 1) if rng.random() < 0.6] or [deepest]
    if rng.random() < 0.5 and deepest not in levels:
        levels.append(deepest)
    return {'stream': 'real', 'grid': gs, 'meta': list(rng.choice([(1, 1), (2, 2), (4, 4), (3, 2), (8, 8)])),
            'levels': sorted(levels), 'cov': cov, 'skip': rng.choice([0, 0, 0, 1, 2]), 'real_tm': rng.random() < 0.5,
            'refresh_all': rng.random() < 0.4, 'cached': gen_cached(rng), 'transform': rng.random() < 0.6}


# ----------------------------------------------------------------------------- exact geometry for the oracles

class Geo(object):
    def __init__(self, gc, meta):
        self.gc = gc
        self.meta = meta

    def meta_size(self, l):
        nx, ny = self.gc.grid_size(l)
        return min(self.meta[0], nx), min(self.meta[1], ny)

    def main_tile(self, x, y, l):
        sx, sy = self.meta_size(l)
        return (x // sx * sx, y // sy * sy, l)

    def meta_rect(self, t):
        x, y, l = t
        sx, sy = self.meta_size(l)
        a = self.gc.tile_rect(x, y, l)
        b = self.gc.tile_rect(x + sx - 1, y + sy - 1, l)
        return (min(a[0], b[0]), min(a[1], b[1]), max(a[2], b[2]), max(a[3], b[3]))

    def tile_of(self, px, py, l):
        fx, fy = self.gc.tile_pos(px, py, l)
        return math.floor(fx), math.floor(fy)

    def valid(self, t):
        nx, ny = self.gc.grid_size(t[2])
        return 0 <= t[0] < nx and 0 <= t[1] < ny

    def members(self, t):
        """valid tiles of the meta tile of t in MetaGrid.tile_list order (rows from the top, x ascending)"""
        mx, my, l = self.main_tile(*t)
        sx, sy = self.meta_size(l)
        ys = list(range(my, my + sy))
        if not self.gc.ul:
            ys.reverse()
        return [(x, y, l) for y in ys for x in range(mx, mx + sx) if self.valid((x, y, l))]

    def expected_call(self, t, handle_all, rule, womt=True):
        """the list worker_pool.process must receive for subtile t ([] = no call)"""
        if handle_all:
            return [tuple(t)] if womt else self.members(t)
        return [m for m in self.members(t) if not is_cached_rule(rule, m)]

    def main_of(self, tiles):
        t = tiles[0]
        return self.main_tile(*t)


def bbox_cov_exact(cov_spec, rect):
    """SeedTask.intersects for (multi) bbox coverages in the grid SRS, recomputed with Fractions: 0 / 1 / -1."""
    parts = [cov_spec] if cov_spec['type'] == 'bbox' else cov_spec['parts']
    res = 0
    for p in parts:
        c = [frac(v) for v in p['bbox']]
        xd, yd = abs(c[2] - c[0]) / 10 ** 13, abs(c[3] - c[1]) / 10 ** 13
        if c[0] <= rect[0] + xd and c[2] >= rect[2] - xd and c[1] <= rect[1] + yd and c[3] >= rect[3] - yd:
            return -1
        if c[0] < rect[2] and c[2] > rect[0] and c[1] < rect[3] and c[3] > rect[1]:
            res = 1
    return res


def indep_cov(cov, grid_srs, rect):
    """SeedTask.intersects (-1 CONTAINS / 1 INTERSECTS / 0 NONE) recomputed WITHOUT the intersects()/contains() methods of
    mapproxy.util.coverage: directly from the member rectangles / shapely geometries.  Only for coverages whose members
    are all in the grid SRS (returns None otherwise: reprojection is not repeated here).  rect: 4 floats."""
    import shapely.geometry
    name = type(cov).__name__
    if name == 'MultiCoverage':
        rs = [indep_cov(c, grid_srs, rect) for c in cov.coverages]
        if any(r is None for r in rs):
            return None
        if any(r == -1 for r in rs):
            return -1
        return 1 if any(r == 1 for r in rs) else 0
    if getattr(cov, 'srs', None) != grid_srs:
        return None
    if name == 'BBOXCoverage':
        c = [frac(v) for v in cov.bbox]
        r = [frac(v) for v in rect]
        xd, yd = abs(c[2] - c[0]) / 10 ** 13, abs(c[3] - c[1]) / 10 ** 13
        if c[0] <= r[0] + xd and c[2] >= r[2] - xd and c[1] <= r[1] + yd and c[3] >= r[3] - yd:
            return -1
        return 1 if (c[0] < r[2] and c[2] > r[0] and c[1] < r[3] and c[3] > r[1]) else 0
    if name == 'GeomCoverage':
        box = shapely.geometry.box(*rect)
        if cov.geom.contains(box):
            return -1
        return 1 if cov.geom.intersects(box) else 0
    return None


def all_bbox_same_srs(c, srs_code):
    if c['type'] == 'bbox':
        return c['srs'] == srs_code
    if c['type'] == 'multi':
        return all(p['type'] == 'bbox' and p['srs'] == srs_code for p in c['parts'])
    return False


# ----------------------------------------------------------------------------- one task

class TaskCheck(object):
    def __init__(self, ctx, spec, name, out):
        self.ctx, self.spec, self.name, self.out = ctx, spec, name, out
        self.rng = ctx.rng

    def fresh_file(self):
        d = self.ctx.tmpdir('c11')
        return os.path.join(d, '.mapproxy_seed_progress')

    def run(self):
        ctx, spec = self.ctx, self.spec
        try:
            task, grid = build_task(spec)
        except Exception as e:  # noqa
            ctx.problem('harness', 'task could not be built from spec: %r' % (e,), spec)
            return
        self.task, self.grid = task, grid
        exact = spec['stream'] == 'exact'
        gc = GridCase(self.name, grid, extra_den=8)
        self.gc = gc
        geo = Geo(gc, spec['meta'])
        table = {}
        persist_all = lambda i: True  # noqa
        U = Run(task, spec, self.fresh_file(), None, persist_all, record_tree=True, record_cov=table).go()
        if U.raised == 'TooBig':
            ctx.count('skipped_too_big')
            return
        ctx.count('stream=' + spec['stream'])
        ctx.count('cov=' + spec['cov']['type'])
        ctx.count('levels=%s' % ('all' if len(spec['levels']) == grid.levels else 'subset'))
        ctx.count('skip_geoms=%d' % spec.get('skip', 0))
        ctx.count('meta=%dx%d' % tuple(spec['meta']))
        ctx.count('work_on_metatiles=%s' % spec.get('womt', True))
        ctx.count('mode=' + ('refresh_all' if spec.get('refresh_all', True) else 'uncached, cache %s' % ('partly filled' if spec.get('cached') else 'empty')))
        nproc = len(U.processed())
        nontrivial = len(spec['levels']) > 0 and max(spec['levels']) >= 1 and nproc > 1
        ctx.case(('U', json.dumps(spec, sort_keys=True)), nontrivial,
                 {'task': spec, 'events': len(U.events), 'processed': nproc, 'first_events': [list(e[:3]) for e in U.events[:4]]})
        self.oracle_store(U, 'uninterrupted')
        self.oracle_cov_answers(table)
        runs = [('U', U, None)]
        if U.raised:
            ctx.count('walk_raised')
            ctx.fail('walk-raises:' + U.raised.split(':')[0],
                     'TileWalker.walk raised %s after %d events (the seed task dies instead of seeding its coverage)' % (U.raised, len(U.events) - 1),
                     {'task': spec, 'events_before': len(U.events) - 1})
        else:
            self.oracle_selection(U, geo, exact)
            self.oracle_footprint(U, geo)
            try:
                self.oracle_holes(U, geo)
            except Exception as e:  # noqa
                ctx.problem('harness', 'hole oracle raised %r' % (e,), {'task': spec})
            runs += self.interruptions(U)
        self.emit_cases(runs, table, U, exact)

    # ---- oracles
    def oracle_store(self, run, what):
        for p in run.store_problems[:1]:
            self.ctx.fail('store-wrong-identifier', '%s (%s run)' % (p, what), {'task': self.spec})

    def oracle_cov_answers(self, table):
        """every answer SeedTask.intersects gave during the walk vs the independent classification of the rectangle"""
        n = 0
        for bbox, ans in sorted(table.items()):
            want = indep_cov(self.task.coverage, self.grid.srs, tuple(float(v) for v in bbox))
            if want is None:
                return
            n += 1
            if want != ans:
                names = {0: 'NONE', 1: 'INTERSECTS', -1: 'CONTAINS'}
                self.ctx.fail('coverage-predicate-wrong',
                              'the walker classified the meta tile rectangle %r as %s for the task coverage; from the member rectangles / '
                              'geometries of the coverage it is %s' % (list(bbox), names.get(ans, ans), names[want]),
                              {'task': self.spec, 'rectangle': list(bbox), 'answer': ans, 'expected': want})
                return
        self.ctx.count('coverage_answers_rechecked', n)

    def oracle_selection(self, U, geo, exact):
        ctx, spec, task, gc = self.ctx, self.spec, self.task, self.gc
        levels = spec['levels']
        rep = {'task': spec}
        handle_all = spec.get('refresh_all', True)
        rule = spec.get('cached')
        # (0) what a process call hands over: exactly the members of one meta tile that need work, in tile_list order
        pset = set()
        for call in U.calls():
            bad = None
            if not call or any(not geo.valid(t) for t in call):
                bad = 'contains an invalid tile'
            else:
                main = geo.main_of(call)
                want = geo.expected_call(main, handle_all, rule, spec.get('womt', True))
                if [tuple(t) for t in call] != want:
                    bad = 'is not the list of %s tiles of meta tile %r (expected %r)' % (
                        'all' if not rule else 'uncached', main, want[:8])
                pset.add(main)
            if bad:
                ctx.fail('handed-list-wrong', 'worker_pool.process received %r which %s' % (list(call)[:8], bad), dict(rep, call=list(call)[:16]))
                return
        orig = task.intersects
        covcache = {}

        def cov_of(t):
            if t not in covcache:
                rect = tuple(float(v) for v in geo.meta_rect(t))
                r = indep_cov(task.coverage, self.grid.srs, rect)       # independent of coverage.intersects/contains
                covcache[t] = orig(rect) if r is None else r
            return covcache[t]
        bbox_exact = exact and all_bbox_same_srs(spec['cov'], 3857)
        same_srs = self.same_srs()
        # (1) nothing else: processed tiles are aligned valid tiles of selected levels that intersect the coverage
        for t in pset:
            if t[2] not in levels:
                ctx.fail('processed-unselected-level', 'tile %r of level %d processed, levels are %r' % (t, t[2], levels), dict(rep, tile=t))
                return
            if geo.main_tile(*t) != t or not geo.valid(t):
                ctx.fail('processed-invalid-tile', 'tile %r is not a valid main tile of its meta tile' % (t,), dict(rep, tile=t))
                return
            if spec.get('skip', 0) == 0:
                if bbox_exact:
                    outside = bbox_cov_exact(spec['cov'], geo.meta_rect(t)) == 0
                else:
                    outside = cov_of(t) == 0
                    if outside and not same_srs:
                        r = [float(v) for v in geo.meta_rect(t)]
                        dx, dy = (r[2] - r[0]) * 1e-6, (r[3] - r[1]) * 1e-6
                        outside = orig((r[0] - dx, r[1] - dy, r[2] + dx, r[3] + dy)) == 0
                if outside:
                    ctx.fail('processed-outside-coverage', 'meta tile %r lies outside the coverage but was handed to the workers' % (t,),
                             dict(rep, tile=t, meta_bbox=[float(v) for v in geo.meta_rect(t)]))
                    return
        # (2) everything selected: meta tiles whose ancestors' meta tiles intersect the coverage and whose centre is inset
        E = [frac(v) for v in task.coverage.extent.bbox_for(self.grid.srs)]
        # zero tolerance only where float arithmetic is exact (grid parameters and rectangle multiples of 1/8)
        tol = Fraction(0) if (exact and gc.can_scale(*E)) else Fraction(1, 10 ** 8)
        d0 = gc.res[0] / 10
        checked = 0
        for L in levels:
            sx, sy = geo.meta_size(L)
            r = gc.res[L]
            fx0, fy0 = gc.tile_pos(E[0], E[1], L)
            fx1, fy1 = gc.tile_pos(E[2], E[3], L)
            nx, ny = gc.grid_size(L)
            xa, xb = max(0, math.floor(min(fx0, fx1))), min(nx - 1, math.floor(max(fx0, fx1)))
            ya, yb = max(0, math.floor(min(fy0, fy1))), min(ny - 1, math.floor(max(fy0, fy1)))
            cand = [(x, y, L) for y in range(ya // sy * sy, yb + 1, sy) for x in range(xa // sx * sx, xb + 1, sx)]
            if len(cand) > 1500:
                cand = self.rng.sample(cand, 1500)
            for t in cand:
                M = geo.meta_rect(t)
                I = (max(M[0], E[0]), max(M[1], E[1]), min(M[2], E[2]), min(M[3], E[3]))
                if I[0] >= I[2] or I[1] >= I[3]:
                    continue
                px, py = (I[0] + I[2]) / 2, (I[1] + I[3]) / 2
                m0 = d0 + abs(px) * tol + abs(py) * tol
                if not (px - E[0] > m0 and E[2] - px > m0 and py - E[1] > m0 and E[3] - py > m0):
                    continue
                ok = True
                for l in range(L + 1):
                    tx, ty = geo.tile_of(px, py, l)
                    m = geo.main_tile(tx, ty, l)
                    if not geo.valid(m):
                        ok = False
                        break
                    if l < L:
                        R = geo.meta_rect(m)
                        dn = gc.res[l + 1] / 10 + (abs(px) + abs(py)) * tol
                        if not (px - R[0] > dn and R[2] - px > dn and py - R[1] > dn and R[3] - py > dn):
                            ok = False
                            break
                    if bbox_exact:
                        c = bbox_cov_exact(spec['cov'], geo.meta_rect(m))
                    else:
                        c = cov_of(m)
                    if c == 0:
                        ok = False
                        break
                if not ok:
                    continue
                if not geo.expected_call(t, handle_all, rule, spec.get('womt', True)):
                    continue        # every member is cached: no call expected
                checked += 1
                if t not in pset:
                    ctx.fail('selected-tile-not-processed',
                             'meta tile %r of level %d intersects the coverage (as do the meta tiles above it) and its centre lies more than '
                             '1/10 pixel inside, but it was never handed to the workers' % (t, L),
                             dict(rep, tile=t, point=[float(px), float(py)], processed=len(pset)))
                    return
        ctx.count('completeness_required_tiles', checked)

    def oracle_footprint(self, U, geo):
        """bbox coverage given in another SRS: independent of mapproxy's bbox transformation.  The coverage rectangle is
        sampled in ITS SRS (edges and interior), every sample is transformed on its own with pyproj; a meta tile of a
        seeded level must be processed when a sample lies well inside it (and inside the meta tiles above it) and well
        inside the bounding box of all transformed samples."""
        ctx, spec, gc = self.ctx, self.spec, self.gc
        c = spec['cov']
        if c['type'] != 'bbox' or not spec.get('transform') or ('EPSG:%s' % c['srs']) == self.grid.srs.srs_code:
            return
        import pyproj
        tr = pyproj.Transformer.from_crs('EPSG:%s' % c['srs'], self.grid.srs.srs_code, always_xy=True)
        x0, y0, x1, y1 = [float(v) for v in c['bbox']]
        nx = 240
        fr = [0.0, 0.01, 0.02, 0.04, 0.07, 0.1, 0.15, 0.2, 0.3, 0.4, 0.5, 0.6, 0.7, 0.8, 0.85, 0.9, 0.93, 0.96, 0.98, 0.99, 1.0]
        src_x, src_y = [], []
        for f in fr:
            for i in range(nx + 1):
                src_x.append(x0 + (x1 - x0) * i / nx)
                src_y.append(y0 + (y1 - y0) * f)
            for i in range(nx + 1):       # the same along the other axis
                src_x.append(x0 + (x1 - x0) * f)
                src_y.append(y0 + (y1 - y0) * i / nx)
        px, py = tr.transform(src_x, src_y)
        pts = [(a, b) for a, b in zip(px, py) if a == a and b == b and abs(a) < 1e12 and abs(b) < 1e12]
        if not pts:
            return
        E = (min(p[0] for p in pts), min(p[1] for p in pts), max(p[0] for p in pts), max(p[1] for p in pts))
        g = self.grid
        res = [float(r) for r in g.resolutions]
        gb = [float(v) for v in g.bbox]
        tw, th = g.tile_size
        handle_all, rule = spec.get('refresh_all', True), spec.get('cached')
        pset = set()
        for call in U.calls():
            if call:
                pset.add(geo.main_of(call))
        d0 = res[0] / 10.0
        mx, my = d0 + 0.003 * (E[2] - E[0]), d0 + 0.003 * (E[3] - E[1])
        sizes = [gc.grid_size(l) for l in range(len(res))]
        msz = [geo.meta_size(l) for l in range(len(res))]

        def meta_of(p, l):
            fx = (p[0] - gb[0]) / (res[l] * tw)
            fy = ((gb[3] - p[1]) if gc.ul else (p[1] - gb[1])) / (res[l] * th)
            tx, ty = math.floor(fx), math.floor(fy)
            if not (0 <= tx < sizes[l][0] and 0 <= ty < sizes[l][1]):
                return None, None
            sx, sy = msz[l]
            mxi, myi = tx // sx * sx, ty // sy * sy
            # distance of the point to the border of the meta tile, in map units
            ddx = min(fx - mxi, mxi + sx - fx) * res[l] * tw
            ddy = min(fy - myi, myi + sy - fy) * res[l] * th
            return (mxi, myi, l), min(ddx, ddy)
        required = {}
        for L in spec['levels']:
            for p in pts:
                if not (p[0] - E[0] > mx and E[2] - p[0] > mx and p[1] - E[1] > my and E[3] - p[1] > my):
                    continue
                ok, t = True, None
                for l in range(L + 1):
                    t, dist = meta_of(p, l)
                    if t is None:
                        ok = False
                        break
                    need = (res[l + 1] / 10.0 if l < L else 0.0) + 2.0 * res[L]      # 1/10 px of the next level (+ 2 px of L)
                    if dist <= need:
                        ok = False
                        break
                if ok and t not in required:
                    required[t] = p
        ctx.count('footprint_required_tiles', len(required))
        for t, p in sorted(required.items()):
            if not geo.expected_call(t, handle_all, rule, spec.get('womt', True)):
                continue
            if t not in pset:
                ctx.fail('coverage-footprint-tile-not-processed',
                         'meta tile %r contains the point %r of the coverage %r (EPSG:%s, transformed point-wise with pyproj), well inside '
                         'the tile and the footprint, but was never handed to the workers: the coverage was cut when it was '
                         'brought into the grid SRS' % (t, (round(p[0], 1), round(p[1], 1)), c['bbox'], c['srs']),
                         {'task': spec, 'tile': t, 'point': p, 'footprint_bbox': E,
                          'walked_bbox': list(self.task.coverage.extent.bbox_for(self.grid.srs))})
                return

    def oracle_holes(self, U, geo):
        """nothing else, for polygon coverages with interior rings (also given in another SRS than the grid), independent
        of mapproxy.util.geom / coverage: every interior ring is brought into the grid SRS point by point with pyproj, once
        vertex by vertex (what a vertex-wise transformation yields) and once densely sampled along its edges (its true
        image).  A processed meta tile whose rectangle lies inside BOTH images of one ring, each shrunk by a margin, lies in
        the hole of the coverage under either reading: it does not touch the coverage and must not be handed over."""
        ctx, spec = self.ctx, self.spec
        c = spec['cov']
        if c['type'] != 'poly' or not c.get('holes') or spec.get('skip', 0) != 0:
            return
        import shapely.geometry
        code = 'EPSG:%s' % c['srs']
        tr = None
        if code != self.grid.srs.srs_code:
            import pyproj
            tr = pyproj.Transformer.from_crs(code, self.grid.srs.srs_code, always_xy=True)

        def to_grid(points):
            if tr is None:
                return [(float(x), float(y)) for x, y in points]
            xs, ys = tr.transform([float(p[0]) for p in points], [float(p[1]) for p in points])
            return list(zip(xs, ys))
        shrunk = []
        for ring in c['holes']:
            ring = [tuple(p) for p in ring]
            if ring[0] == ring[-1]:
                ring = ring[:-1]
            dense = []
            for i, a in enumerate(ring):
                b = ring[(i + 1) % len(ring)]
                dense.extend((a[0] + (b[0] - a[0]) * j / 64.0, a[1] + (b[1] - a[1]) * j / 64.0) for j in range(64))
            both = []
            for pts in (to_grid(ring), to_grid(dense)):
                if any(v != v or abs(v) > 1e12 for p in pts for v in p):
                    both = None
                    break
                g = shapely.geometry.Polygon(pts)
                if not g.is_valid or g.area <= 0:
                    both = None
                    break
                both.append(g.buffer(-0.01 * math.sqrt(g.area)))
            if both and not any(g.is_empty for g in both):
                shrunk.append(both)
        if not shrunk:
            return
        pset = set()
        for call in U.calls():
            if call and all(geo.valid(t) for t in call):
                pset.add(geo.main_of(call))
        inside = []
        for t in sorted(pset):
            r = [float(v) for v in geo.meta_rect(t)]
            box = shapely.geometry.box(*r)
            if any(a.contains(box) and b.contains(box) for a, b in shrunk):
                inside.append(t)
        ctx.count('hole_coverages_checked')
        ctx.count('cov_holes=%s' % ('other_srs' if tr is not None else 'grid_srs'))
        if inside:
            t = inside[0]
            ctx.fail('processed-inside-coverage-hole',
                     '%d of the %d meta tiles handed to the workers lie completely inside an interior ring (hole) of the polygon '
                     'coverage given in %s (ring brought into the grid SRS %s point by point with pyproj, shrunk by 1 %%), e.g. %r with '
                     'rectangle %r; the task coverage the walker used has area %.6g'
                     % (len(inside), len(pset), code, self.grid.srs.srs_code, t, [round(float(v), 3) for v in geo.meta_rect(t)],
                        getattr(getattr(self.task.coverage, 'geom', None), 'area', float('nan'))),
                     {'task': spec, 'tile': t, 'tiles_in_hole': inside[:10], 'holes': c['holes']})

    def same_srs(self):
        def srs_of(c):
            if c['type'] == 'multi':
                return [s for p in c['parts'] for s in srs_of(p)]
            return [c['srs']]
        code = self.grid.srs.srs_code
        return all(('EPSG:%s' % s) == code for s in srs_of(self.spec['cov']))

    # ---- interruptions
    def interruptions(self, U):
        ctx, spec, task, rng = self.ctx, self.spec, self.task, self.rng
        n = len(U.events)
        uset = set(U.processed())
        rep_idx = [i for i, e in enumerate(U.events) if e[0] == 'rep']
        if ctx.quick:
            k_chains = 4
        else:
            k_chains = n + 1 if n <= 60 else 24
        idxs = set()
        if k_chains >= n + 1:
            idxs = set(range(n + 1))
        else:
            cands = list(range(n + 1))
            # right after / before reports, after the first process call, near the end
            pref = [i + 1 for i in rep_idx] + [i for i in rep_idx] + [n, n - 1, 1]
            pref = [i for i in pref if 0 <= i <= n]
            while len(idxs) < min(k_chains, n + 1):
                idxs.add(rng.choice(pref) if (pref and rng.random() < 0.6) else rng.choice(cands))
        out = []
        # interruptions right after a write of the progress file that did not come from a report (same schedule as U)
        targeted = [k for k in (U.step_writes_done[:2] + U.step_writes[:1] + U.step_writes[-2:]) if k not in idxs]
        targeted = sorted(set(targeted))
        if U.step_writes:
            ctx.count('progress_writes_outside_reports', len(U.step_writes))
        for k in sorted(idxs) + targeted:
            fn = self.fresh_file()
            p = rng.choice([1.0, 0.6, 0.3, 0.1])
            if k in targeted:
                p = 1.0
            mask_rng_state = rng.getrandbits(64)
            import random as _r
            mr = _r.Random(mask_rng_state)
            plan_bits = [mr.random() < p for _ in range(len(rep_idx) + 8)]
            plan = lambda i, _b=plan_bits: _b[i] if i < len(_b) else True  # noqa
            chain = []
            r1 = Run(task, spec, fn, k, plan).go()
            chain.append(r1)
            union = set(r1.processed())
            # second interruption of the resumed run
            if rng.random() < 0.5:
                r2_full_len = None
                k2 = rng.randrange(0, n + 1)
                mr2 = _r.Random(mask_rng_state + 1)
                bits2 = [mr2.random() < p for _ in range(len(rep_idx) + 8)]
                r2 = Run(task, spec, fn, k2, (lambda i, _b=bits2: _b[i] if i < len(_b) else True)).go()
                chain.append(r2)
                union |= set(r2.processed())
            rl = Run(task, spec, fn, None, lambda i: True).go()
            chain.append(rl)
            union |= set(rl.processed())
            desc = {'task': spec, 'crash_indices': [c.crash_at for c in chain[:-1]],
                    'resumed_from': [c.old for c in chain[1:]], 'persist_probability': p}
            ctx.case(('chain', json.dumps(spec, sort_keys=True), tuple(c.crash_at for c in chain[:-1]), tuple(c.old for c in chain)), True,
                     desc if len(ctx.samples) < 5 else None)
            ctx.count('interruptions', len(chain) - 1)
            ctx.count('resumed_from=%s' % ('None' if chain[-1].old is None else 'path%d' % len(chain[-1].old)))
            for c in chain:
                self.oracle_store(c, 'interrupted/resumed')
                if c.raised:
                    ctx.fail('walk-raises:' + c.raised.split(':')[0], 'resumed walk raised %s' % c.raised, desc)
            missing = uset - union
            if missing:
                ctx.fail('resume-loses-tiles',
                         'after interruption(s) at event index %r and continuation from the saved progress %r, %d tile(s) of the '
                         'uninterrupted run were never processed, e.g. %r' % (desc['crash_indices'], desc['resumed_from'], len(missing), sorted(missing)[:3]),
                         dict(desc, missing=sorted(missing)[:10]))
            for j, c in enumerate(chain):
                out.append(('chain%d.%d' % (k, j), c, c.crash_at))
        # stopped through SeedProgress.running() at a chosen _walk call, then continued from the progress file
        ncalls = tree_nodes(U.tree.root) if (U.tree is not None and U.tree.root is not None) else 0
        if ncalls:
            if ctx.quick:
                stops = sorted(set(rng.randrange(0, ncalls) for _ in range(2)))
            else:
                stops = list(range(ncalls)) if ncalls <= 16 else sorted(set(rng.randrange(0, ncalls) for _ in range(6)))
            for sidx in stops:
                fn = self.fresh_file()
                p = rng.choice([1.0, 1.0, 0.5])
                bits = [rng.random() < p for _ in range(len(rep_idx) + 8)]
                r1 = Run(task, spec, fn, None, (lambda i, _b=bits: _b[i] if i < len(_b) else True), stop_at=sidx).go()
                rl = Run(task, spec, fn, None, lambda i: True).go()
                union = set(r1.processed()) | set(rl.processed())
                desc = {'task': spec, 'stopped_at_walk_call': sidx, 'resumed_from': rl.old, 'persist_probability': p}
                ctx.case(('stop', json.dumps(spec, sort_keys=True), sidx, rl.old), True, desc if len(ctx.samples) < 6 else None)
                ctx.count('stops_through_running_hook')
                for c in (r1, rl):
                    self.oracle_store(c, 'stopped/resumed')
                    if c.raised:
                        ctx.fail('walk-raises:' + c.raised.split(':')[0], 'stopped / continued walk raised %s' % c.raised, desc)
                missing = uset - union
                if missing:
                    ctx.fail('resume-loses-tiles',
                             'the walk was stopped through SeedProgress.running() at its _walk call number %d and continued from the saved '
                             'progress %r: %d tile(s) of the uninterrupted run were never processed, e.g. %r'
                             % (sidx, rl.old, len(missing), sorted(missing)[:3]), dict(desc, missing=sorted(missing)[:10]))
                out.append(('stop%d.0' % sidx, r1, None))
                out.append(('stop%d.1' % sidx, rl, None))
        return out

    # ---- correspondence cases
    def emit_cases(self, runs, table, U, exact):
        spec, gc, out = self.spec, self.gc, self.out
        rtl = U.report_till
        geo = Geo(gc, spec['meta'])
        handle_all = spec.get('refresh_all', True)
        rule = spec.get('cached')
        if exact:
            zok = True
            try:
                root = gc.zbbox(self.task.coverage.extent.bbox_for(self.grid.srs))
                if all_bbox_same_srs(spec['cov'], 3857):
                    parts = [spec['cov']] if spec['cov']['type'] == 'bbox' else spec['cov']['parts']
                    covterm = '(cov_bboxes %s)' % llit([p['bbox'] for p in parts], gc.zbbox)
                    self.ctx.count('model_cov=exact_bbox')
                else:
                    tabname = 'tab_' + gc.name
                    out['defs'].append('Definition %s : list (bbox * Z) := %s.' % (
                        tabname, llit(sorted(table.items()), lambda kv: '(%s, %s)' % (gc.zbbox(kv[0]), zlit(kv[1])))))
                    covterm = '(cov_table %s)' % tabname
                    self.ctx.count('model_cov=recorded_table')
            except ValueError:
                zok = False
            if zok:
                out['defs'].append(gc.definition())
                for name, r, k in runs:
                    obs = r.events[:]
                    term = '(%s, %d, %d, %s, %s, %s, %s, %s, %s, (%s, %s, %s), %s, %s)' % (
                        gc.name, spec['meta'][0], spec['meta'][1], covterm, zlit(spec.get('skip', 0)), llit(spec['levels']),
                        root, ident_lit(r.old), 'None' if not r.crashed else 'Some %d%%nat' % len(obs),
                        blit(handle_all), keep_lit(rule), blit(spec.get('womt', True)),
                        'None' if r.stop_at is None else 'Some %d%%nat' % r.stop_at, oevents_lit(obs))
                    out['geo'].append((term, {'task': spec, 'run': name, 'old': r.old, 'crash_at': k, 'events': len(obs),
                                              'observed_tail': [list(e) for e in obs[-4:]]}))
                return
            self.ctx.count('exact_not_scalable')
        # realistic stream: tie at the level of the recorded tree
        tname = 'tree_' + gc.name
        if U.tree is None or U.tree.root is None:
            return
        if tree_nodes(U.tree.root) > 6000:
            self.ctx.count('tree_too_big_for_coq')
            return
        out['tdefs'].append('Definition %s : wnode := %s.' % (tname, tree_lit(U.tree.root, rtl)))
        # subtiles whose process call is dropped because nothing of their meta tile needs work
        drop = set()

        def collect(node):
            if node is None:
                return
            for sub in node['subs']:
                if sub['t'] is not None and not geo.expected_call(tuple(sub['t']), handle_all, rule, spec.get('womt', True)):
                    drop.add(tuple(sub['t']))
                collect(sub['child'])
        if not handle_all and rule:
            collect(U.tree.root)
        dropterm = llit(sorted(drop), coord_lit)
        self.ctx.count('meta_tiles_without_call_all_members_cached', len(drop))

        def main_of(call):
            try:
                return geo.main_of(call)
            except Exception:  # noqa
                return (-1, -1, -1)
        for name, r, k in runs:
            obs = r.events[:]
            term = '(%s, %s, %s, %s, %s, %s, %s)' % (tname, zlit(spec['levels'][0]), ident_lit(r.old),
                                                     'None' if not r.crashed else 'Some %d%%nat' % len(obs), dropterm,
                                                     'None' if r.stop_at is None else 'Some %d%%nat' % r.stop_at,
                                                     events_lit(obs, main_of))
            out['tree'].append((term, {'task': spec, 'run': name, 'old': r.old, 'crash_at': k, 'events': len(obs)}))


# ----------------------------------------------------------------------------- small pure functions

def can_skip_cases(ctx):
    from mapproxy.seed.seeder import SeedProgress
    rng = ctx.rng
    terms, descs = [], []

    def rp():
        k = rng.choice([0, 1, 1, 2, 3, 4])
        return [(rng.randrange(0, 4), rng.choice([4, 4, 4, 1, 6, 9])) for _ in range(k)]
    doc = [(None, [(0, 4)]), ([], [(0, 4)]), ([(0, 4)], None), ([(0, 4)], [(0, 4)]), ([(1, 4)], [(0, 4)]), ([(0, 4)], [(0, 4), (0, 4)]),
           ([(0, 4), (0, 4), (2, 4)], [(0, 4), (0, 4)]), ([(0, 4), (0, 4), (2, 4)], [(0, 4), (0, 4), (1, 4)]),
           ([(0, 4), (0, 4), (2, 4)], [(0, 4), (0, 4), (3, 4)]), ([(0, 4), (0, 4), (2, 4)], [(0, 4), (1, 4), (0, 4)]), ([], []), (None, None), ([], None)]
    pairs = list(doc)
    for _ in range(ctx.n(300, 3000)):
        a = rng.choice([None, rp(), rp()])
        if rng.random() < 0.4 and a:
            b = list(a)
            m = rng.choice(['same', 'prefix', 'ext', 'bump', 'dec', 'tot'])
            if m == 'prefix':
                b = b[:rng.randrange(0, len(b) + 1)]
            elif m == 'ext':
                b = b + rp()
            elif m == 'bump':
                i = rng.randrange(len(b))
                b[i] = (b[i][0] + 1, b[i][1])
            elif m == 'dec':
                i = rng.randrange(len(b))
                b[i] = (b[i][0] - 1, b[i][1])
            elif m == 'tot':
                i = rng.randrange(len(b))
                b[i] = (b[i][0], b[i][1] + rng.choice([-1, 1]))
        else:
            b = rng.choice([None, rp(), rp()])
        pairs.append((a, b))
    for a, b in pairs:
        try:
            r = bool(SeedProgress.can_skip(a, b))
        except Exception as e:  # noqa
            ctx.fail('can_skip-raises', 'can_skip(%r, %r) raised %r' % (a, b, e), {'old': a, 'current': b})
            continue
        ctx.case(('can_skip', repr(a), repr(b)), a is not None and b is not None)
        terms.append('(%s, %s, %s)' % (ident_lit(a), ident_lit(b), blit(r)))
        descs.append({'old': a, 'current': b, 'result': r})
        # oracle: strict order - never skip a prefix of the old progress, never skip what is not strictly before
        if a is not None and b is not None and a != []:
            if r and (b == a[:len(b)] or a == b[:len(a)]):
                ctx.fail('can_skip-prefix', 'can_skip(%r, %r) skips a node on the path of the saved progress' % (a, b), {'old': a, 'current': b})
            if r != (not (b == a[:len(b)] or a == b[:len(a)]) and b < a):
                ctx.fail('can_skip-order', 'can_skip(%r, %r) = %r is not "strictly before in depth-first order"' % (a, b, r), {'old': a, 'current': b})
    ctx.corr_check('can_skip', 'Grid Seed', 'option path * option path * bool', terms,
                   "fun c => let '(o, cur, r) := c in Bool.eqb (can_skip o cur) r", lambda i: descs[i])


def limit_cases(ctx):
    from mapproxy.seed.util import limit_sub_bbox
    rng = ctx.rng
    terms, descs = [], []
    for _ in range(ctx.n(100, 1000)):
        v = [rng.randrange(-50, 50) for _ in range(8)]
        r = limit_sub_bbox(tuple(v[:4]), tuple(v[4:]))
        terms.append('((%s, %s, %s, %s), (%s, %s, %s, %s), (%s, %s, %s, %s))' % tuple(zlit(x) for x in v + list(r)))
        descs.append({'bbox': v[:4], 'sub_bbox': v[4:], 'result': list(r)})
        ctx.case(('limit', tuple(v)), False)
    ctx.corr_check('limit', 'Grid Seed', 'bbox * bbox * bbox', terms,
                   "fun c => let '(b, s, r) := c in bbox_eqb (limit_sub_bbox b s) r", lambda i: descs[i])


# ----------------------------------------------------------------------------- run

def pool_cases(ctx):
    """TileWorkerPool.process (the hand-over to the worker processes; not part of the Coq model): with a queue that is
    full for a while and workers that are alive, the tile list must end up in the queue exactly once; with no worker left
    SeedInterrupted is raised and nothing is put."""
    import mapproxy.seed.seeder as sd
    rng = ctx.rng
    Full = sd.Queue.Full

    class FakeQueue(object):
        def __init__(self, plan):
            self.plan, self.items, self.calls = list(plan), [], 0

        def put(self, item, timeout=None):
            self.calls += 1
            if self.plan and self.plan.pop(0) == 'full':
                raise Full()
            self.items.append(item)

    class FakeProc(object):
        def __init__(self, alive):
            self.alive = alive

        def is_alive(self):
            return self.alive

    import logging
    logging.getLogger('mapproxy.seed.seeder').setLevel(logging.ERROR)      # 'no workers left, stopping' is expected here
    terms, descs = [], []
    # fixed schedules first (independent of the seed): queue full once / several times with one, some, all workers alive
    fixed = [(1, [True]), (1, [False, True]), (3, [True, True]), (2, [True, False, False]), (1, [False]), (0, [True]),
             (6, [False, False, True])]
    for it in range(-len(fixed), ctx.n(40, 300)):
        if it < 0:
            nfull, alive = fixed[it + len(fixed)]
            alive = list(alive)
            tiles = [(it + len(fixed), 2, 3), (it + len(fixed) + 1, 2, 3)]
        else:
            nfull = rng.choice([0, 0, 1, 2, 5])
            alive = [rng.random() < 0.7 for _ in range(rng.randrange(1, 4))]
            if rng.random() < 0.2:
                alive = [False] * len(alive)
            tiles = None
        pool = sd.TileWorkerPool.__new__(sd.TileWorkerPool)
        pool.tiles_queue = FakeQueue(['full'] * nfull)
        pool.task, pool.dry_run, pool.progress_logger = None, False, None
        pool.procs = [FakeProc(a) for a in alive]
        if tiles is None:
            tiles = [(rng.randrange(9), rng.randrange(9), 3)]
        try:
            pool.process(tiles, None)
            outcome = 'returned'
        except sd.SeedInterrupted:
            outcome = 'interrupted'
        except Exception as e:  # noqa
            outcome = 'raised %s' % type(e).__name__
        ctx.case(('pool', nfull, tuple(alive)), nfull > 0)
        # model: every Queue.Full is followed by the liveness test of the workers; then the queue accepts
        env = '[%s]' % '; '.join(['PutFull %s' % blit(any(alive))] * nfull + ['PutOk'])
        res = {'returned': 'Handed', 'interrupted': 'Interrupted'}.get(outcome, 'Retrying')
        terms.append('(%s, %s, (%s, %s))' % (env, zlit(len(terms)), res,
                                             llit(pool.tiles_queue.items, lambda it: 'Some %s' % zlit(len(terms)))))
        descs.append({'queue_full_times': nfull, 'workers_alive': alive, 'outcome': outcome, 'queue': repr(pool.tiles_queue.items)})
        want_items = [tiles] if (nfull == 0 or any(alive)) else []
        want = 'returned' if want_items else 'interrupted'
        if outcome != want or pool.tiles_queue.items != want_items:
            ctx.fail('pool-loses-tiles',
                     'TileWorkerPool.process with a queue that is full %d time(s) and workers alive=%r: %s, queue holds %r (expected %s with %r)'
                     % (nfull, alive, outcome, pool.tiles_queue.items, want, want_items),
                     {'queue_full_times': nfull, 'workers_alive': alive, 'tiles': tiles})
            break
    ctx.corr_check('pool_process', 'Grid Seed', 'list put_outcome * Z * (proc_result * list (option Z))', terms,
                   "fun c => let '(env, tiles, (r, q)) := c in let '(mr, mq) := pool_process env [] tiles in "
                   "match mr, r with Handed, Handed | Interrupted, Interrupted | Retrying, Retrying => true | _, _ => false end && "
                   "list_eqb (opt_eqb Z.eqb) mq q",
                   lambda i: descs[i])


# ----------------------------------------------------------------------------- task ids and the configuration path

def id_cases(ctx):
    """SeedTask.id (key of the progress store) vs the generated Gen_seed_id.seed_task_id; oracle: ids collide only for equal tasks"""
    from mapproxy.seed.seeder import SeedTask
    rng = ctx.rng

    class TM(object):
        grid = None
    words = ['a', 'b', 'seed', 'osm', 'osm_cache', 'GLOBAL_GEODETIC', 'g', '', 'cleanup']
    tasks, terms, descs = [], [], []
    for _ in range(ctx.n(40, 400)):
        n, c, g = rng.choice(words), rng.choice(words), rng.choice(words)
        lv = sorted(set(rng.randrange(0, 6) for _ in range(rng.choice([0, 1, 1, 2, 3]))))
        t = SeedTask({'name': n, 'cache_name': c, 'grid_name': g}, TM(), lv, None, False, None)
        try:
            tid = t.id
        except Exception as e:  # noqa
            ctx.fail('task-id-raises', 'SeedTask.id raised %r' % (e,), {'name': n, 'cache': c, 'grid': g, 'levels': lv})
            continue
        tasks.append(((n, c, g, tuple(lv)), tid))
        ctx.case(('id', n, c, g, tuple(lv)), False)
        parts = []
        for e in tid:
            if isinstance(e, str):
                parts.append('inl %s' % llit([ord(ch) for ch in e]))
            else:
                parts.append('inr %s' % llit(list(e)))
        enc = lambda w: llit([ord(ch) for ch in w])  # noqa
        terms.append('(%s, %s, %s, %s, [%s])' % (enc(n), enc(c), enc(g), llit(lv), '; '.join(parts)))
        descs.append({'name': n, 'cache': c, 'grid': g, 'levels': lv, 'id': repr(tid)})
    seen = {}
    for key, tid in tasks:
        if tid in seen and seen[tid] != key:
            ctx.fail('task-ids-collide', 'the seed tasks %r and %r have the same id %r: they share one progress entry' % (seen[tid], key, tid),
                     {'task_a': seen[tid], 'task_b': key, 'id': repr(tid)})
            break
        seen[tid] = key
    ctx.corr_check('task_id', 'Grid Seed Gen_seed_id', 'list Z * list Z * list Z * list Z * list (list Z + list Z)', terms,
                   "fun c => let '(n, cn, gn, lv, obs) := c in "
                   "list_eqb (fun a b => match a, b with inl x, inl y => list_eqb Z.eqb x y | inr x, inr y => list_eqb Z.eqb x y | _, _ => false end) "
                   "(map (fun p => match p with PConst s => inl s | PText s => inl s | PLevels l => inr l end) (seed_task_id n cn gn lv)) obs",
                   lambda i: descs[i])


CONF_MAPPROXY = """
services:
  tms:
layers:
  - name: l
    title: l
    sources: [c]
caches:
  c:
    sources: [upstream]
    grids: %(grid)s
    meta_size: [%(msx)d, %(msy)d]
    meta_buffer: %(mbuf)d
%(rescale)s
  c2:
    sources: [upstream]
    grids: %(grid)s
    meta_size: [%(msx)d, %(msy)d]
    meta_buffer: 0
%(rescale)s
  c3:
    sources: [upstream]
    grids: %(grid)s
    meta_size: [1, 1]
    meta_buffer: 0
sources:
  upstream:
    type: wms
    req:
      url: http://127.0.0.1:9/service
      layers: foo
grids:
  fine_ll:
    srs: 'EPSG:4326'
    bbox: [0, 44, 20, 58]
    res: [0.02, 0.005, 0.001]
    tile_size: [64, 64]
    origin: sw
  fine_merc:
    srs: 'EPSG:3857'
    bbox: [0, 5400000, 2300000, 8000000]
    res: [4000, 1000, 200]
    tile_size: [64, 64]
    origin: nw
  small:
    srs: 'EPSG:25832'
    bbox: [200000, 5200000, 1000000, 6000000]
    res: [2000, 1000, 400, 200, 100]
    origin: sw
globals:
  cache:
    base_dir: %(base)s/cache_data
    lock_dir: %(base)s/locks
    tile_lock_dir: %(base)s/tile_locks
"""

CONF_SEED = """
seeds:
%(seeds)s
coverages:
  cov:
    bbox: %(bbox)r
    srs: '%(srs)s'
"""


class ConfRun(object):
    """One run of the real seed() over the tasks of a configuration (recording pool instead of worker processes)."""

    def __init__(self, tasks, fn, crash_at, persist_plan, use_store=True, continue_seed=True):
        self.tasks, self.fn = tasks, fn
        self.crash_at, self.persist_plan = crash_at, persist_plan
        self.use_store, self.continue_seed = use_store, continue_seed
        self.events, self.nreports, self.clock = [], 0, FakeTime()
        self.crashed, self.raised, self.store_problems = False, None, []
        self.log = None
        self.by_task = {}

    def tick(self):
        if self.crash_at is not None and len(self.events) >= self.crash_at:
            raise Crash()
        if len(self.events) >= 4 * MAX_EVENTS:
            raise TooBig()

    def check_store(self, ident):
        import pickle
        try:
            with open(self.fn, 'rb') as f:
                st = pickle.load(f)
        except Exception as e:  # noqa
            self.store_problems.append('progress file unreadable after write: %r' % (e,))
            return
        if st.get(self.log.current_task_id, 'missing') != ident:
            self.store_problems.append('progress file holds %r for task %r, reported identifier %r' % (
                st.get(self.log.current_task_id, 'missing'), self.log.current_task_id, ident))

    def go(self):
        import contextlib
        import mapproxy.seed.util as su
        import mapproxy.seed.seeder as sd
        RecStore, RecLog = make_classes()
        run = self

        class Pool(object):
            def __init__(self, task, worker_class, size=2, dry_run=False, progress_logger=None):
                self.progress_logger = progress_logger
                self.task = task

            def process(self, tiles, progress):
                run.tick()
                run.events.append(('proc', tuple(tuple(t) for t in tiles), run.task_index(self.task)))
                run.by_task.setdefault(id(self.task), []).append(tuple(tuple(t) for t in tiles))
                if self.progress_logger:
                    self.progress_logger.log_step(progress)

            def stop(self, force=False):
                pass
        saved_time, saved_pool = su.time, sd.TileWorkerPool
        su.time, sd.TileWorkerPool = self.clock, Pool
        try:
            store = RecStore(self.fn, continue_seed=self.continue_seed) if self.use_store else None
            log = RecLog(out=io.StringIO(), silent=True, verbose=True, progress_store=store)
            log.setup(self)
            self.log = log
            try:
                with contextlib.redirect_stdout(io.StringIO()):
                    sd.seed(self.tasks, concurrency=1, progress_logger=log)
            except Crash:
                self.crashed = True
            except TooBig:
                self.raised = 'TooBig'
            except Exception as e:  # noqa
                self.raised = type(e).__name__ + ': ' + str(e)[:80]
        finally:
            su.time, sd.TileWorkerPool = saved_time, saved_pool
        return self

    def task_index(self, task):
        for i, t in enumerate(self.tasks):
            if t is task:
                return i
        return -1

    def processed(self):
        """(task index, tile) for every tile handed over: the same coordinate in two caches are two pieces of work"""
        out = []
        for e in self.events:
            if e[0] == 'proc':
                out.extend((e[2], t) for t in e[1])
        return out


def conf_stream(ctx):
    """The configuration path: mapproxy.yaml + seed.yaml -> load_seed_tasks_conf -> real seed() with a real ProgressStore;
    caches with upscale_tiles / downscale_tiles are split into one task per level (work_on_metatiles = False)."""
    from mapproxy.config.loader import load_configuration
    from mapproxy.seed.config import load_seed_tasks_conf
    import random as _r
    rng = ctx.rng
    for i in range(ctx.n(4, 15)):
        rescale = rng.choice(['    upscale_tiles: 1', '    downscale_tiles: 1', '    upscale_tiles: 2', ''])
        gridname = rng.choice(['GLOBAL_GEODETIC', 'small', 'GLOBAL_MERCATOR'])
        multi = (i % 3 == 0) or rng.random() < 0.2
        if multi:
            # one cache on several grids with different SRS, coverage a thin strip in EPSG:4326: every task has to start
            # from the configured coverage (one transformation), not from the coverage of the previous grid
            glist = rng.choice([['small', 'fine_ll'], ['small', 'fine_merc', 'fine_ll'], ['small', 'fine_merc'], ['fine_ll', 'small']])
            gridname = '[%s]' % ', '.join(glist)
            levels = sorted(set([2, rng.randrange(0, 3)]))
            x, y = rng.uniform(4.0, 6.0), rng.uniform(48.5, 53.0)
            bbox, srs = [x, y, x + rng.uniform(7.0, 9.5), y + rng.uniform(0.06, 0.15)], 'EPSG:4326'
            rescale = ''
        elif gridname == 'small':
            levels = sorted(set(rng.randrange(0, 5) for _ in range(3)))
            x, y = rng.uniform(6.5, 11.0), rng.uniform(47.5, 53.0)
            bbox, srs = [x, y, x + rng.uniform(0.3, 2.0), y + rng.uniform(0.2, 1.5)], 'EPSG:4326'
        else:
            levels = sorted(set(rng.randrange(0, 5) for _ in range(3)))
            x, y = rng.uniform(-170, 60), rng.uniform(-75, 20)
            bbox, srs = [x, y, x + rng.uniform(20, 110), y + rng.uniform(15, 55)], 'EPSG:4326'
        two = rng.random() < 0.4
        # several caches in one seed: one task per cache (and grid, and level for rescaling caches), each with its own
        # progress entry
        caches = rng.choice(['[c, c2]', '[c, c2, c3]', '[c]']) if (i % 3 == 1 or rng.random() < 0.4) else '[c]'
        # the levels of the seed: a list, or a range with from / to (either may be missing or 0)
        lv_yaml, lv_conf = repr(levels), {'list': levels}
        if rng.random() < 0.5 or i % 4 == 2:
            a = rng.choice([None, 0, 0, 1, 2])
            b = rng.choice([0, 0, 1, 2, 3, None]) if a in (None, 0) else rng.choice([a, a + 1, None])
            if multi and b is None:
                b = 2
            if (not multi) and gridname.startswith('GLOBAL') and b is None:
                b = rng.choice([0, 1, 2])
            if a is None and b is None:
                b = 0
            parts = ([] if a is None else ['from: %d' % a]) + ([] if b is None else ['to: %d' % b])
            lv_yaml, lv_conf = '{%s}' % ', '.join(parts), {'from': a, 'to': b}
        seeds = '  s1:\n    caches: %s\n    coverages: [cov]\n    levels: %s\n' % (caches, lv_yaml)
        if two:
            seeds += '  s2:\n    caches: [c]\n    coverages: [cov]\n    levels: %r\n' % (levels[:2],)
        if not multi:
            gridname = '[%s]' % gridname
        conf_desc = {'grid': gridname, 'rescale': rescale.strip(), 'levels': levels, 'coverage': bbox, 'coverage_srs': srs,
                     'seeds': 2 if two else 1, 'caches': caches, 'levels_conf': lv_conf}
        base = ctx.tmpdir('c11conf')
        mp, sdf = os.path.join(base, 'mapproxy.yaml'), os.path.join(base, 'seed.yaml')
        msx, msy = rng.choice([(2, 2), (1, 1), (3, 2)])
        with open(mp, 'w') as f:
            f.write(CONF_MAPPROXY % {'grid': gridname, 'msx': msx, 'msy': msy, 'rescale': rescale, 'base': base,
                                     'mbuf': rng.choice([0, 0, 10, 80])})
        with open(sdf, 'w') as f:
            f.write(CONF_SEED % {'seeds': seeds, 'bbox': bbox, 'srs': srs})
        try:
            conf = load_configuration(mp, seed=True)
            with conf:
                tasks = load_seed_tasks_conf(sdf, conf).seeds(['s1', 's2'] if two else ['s1'])
                conf_check(ctx, tasks, conf_desc, base, _r.Random(rng.getrandbits(64)))
        except Exception as e:  # noqa
            import traceback
            ctx.problem('harness', 'configuration stream raised %r' % (e,), {'conf': conf_desc, 'trace': traceback.format_exc()[-1200:]})


def conf_footprint_oracle(ctx, tasks, ref, desc):
    """nothing else, independent of mapproxy's coverage transformation: a meta tile handed over by a configured task must
    touch the bounding box of the configured coverage rectangle brought into the grid SRS point by point (pyproj, dense
    sampling of the rectangle).  The code's own transformed bbox (envelope of 16 points) lies inside that box."""
    import pyproj
    x0, y0, x1, y1 = [float(v) for v in desc['coverage']]
    nx = 400
    sx, sy = [], []
    for f in [i / 20.0 for i in range(21)]:
        for i in range(nx + 1):
            sx.append(x0 + (x1 - x0) * i / nx)
            sy.append(y0 + (y1 - y0) * f)
            sx.append(x0 + (x1 - x0) * f)
            sy.append(y0 + (y1 - y0) * i / nx)
    for ti, task in enumerate(tasks):
        calls = ref.by_task.get(id(task), [])
        if not calls:
            continue
        grid = task.grid
        if desc['coverage_srs'] == grid.srs.srs_code:
            E = (x0, y0, x1, y1)
        else:
            tr = pyproj.Transformer.from_crs(desc['coverage_srs'], grid.srs.srs_code, always_xy=True)
            px, py = tr.transform(sx, sy)
            pts = [(a, b) for a, b in zip(px, py) if a == a and b == b and abs(a) < 1e12 and abs(b) < 1e12]
            if not pts:
                continue
            E = (min(p[0] for p in pts), min(p[1] for p in pts), max(p[0] for p in pts), max(p[1] for p in pts))
        mg = task.tile_manager.meta_grid
        tol = 1e-6 * max(abs(v) for v in E) + 1e-9
        checked = 0
        for call in calls:
            for t in call[:1]:
                if mg is not None:
                    b = mg.meta_tile(t).bbox
                else:
                    b = grid.tile_bbox(t)
                checked += 1
                if b[2] < E[0] - tol or b[0] > E[2] + tol or b[3] < E[1] - tol or b[1] > E[3] + tol:
                    ctx.fail('config-task-seeds-outside-coverage',
                             'task %d (%s, grid SRS %s, levels %r) of the configuration handed over tile %r whose meta tile %r does not '
                             'touch the configured coverage %r (%s), whose footprint in the grid SRS lies within %r; the task walks %r'
                             % (ti, task.md['name'], grid.srs.srs_code, list(task.levels), t, [round(v, 4) for v in b], desc['coverage'],
                                desc['coverage_srs'], [round(v, 4) for v in E], [round(v, 4) for v in task.coverage.bbox]),
                             {'conf': desc, 'task': ti, 'tile': t, 'footprint_bbox': E, 'walked_bbox': list(task.coverage.bbox)})
                    return
        ctx.count('conf_footprint_checked_calls', checked)


def conf_check(ctx, tasks, desc, base, rng):
    desc = dict(desc, tasks=[[t.md['name'], t.md['cache_name'], t.md['grid_name'], list(t.levels)] for t in tasks])
    ctx.count('conf_tasks_per_run=%d' % len(tasks))
    ctx.count('conf_rescale=%s' % (desc['rescale'] or 'none'))
    # the chosen levels: exactly what the seed configuration says (a range is cut at the last level of the grid)
    lc = desc.get('levels_conf')
    if lc:
        for t in tasks:
            if t.md['name'] != 's1':
                continue
            nlev = t.grid.levels
            if 'list' in lc:
                want_l = sorted(set(l for l in lc['list'] if 0 <= l < nlev))
            else:
                lo = 0 if lc['from'] is None else lc['from']
                hi = nlev - 1 if lc['to'] is None else min(lc['to'], nlev - 1)
                want_l = list(range(lo, hi + 1))
            same = [u for u in tasks if u.md['name'] == 's1' and u.md['cache_name'] == t.md['cache_name'] and u.md['grid_name'] == t.md['grid_name']]
            got_l = sorted(set(l for u in same for l in u.levels))
            if got_l != want_l:
                ctx.fail('config-levels-wrong',
                         'seed with levels %r on a grid with %d levels: the task(s) for cache %s / grid %s seed the levels %r, chosen are %r'
                         % (lc, nlev, t.md['cache_name'], t.md['grid_name'], got_l, want_l), {'conf': desc})
                break
    ids = [t.id for t in tasks]
    if len(set(ids)) != len(ids):
        ctx.fail('task-ids-collide', 'the %d seed tasks of one configuration have only %d different ids %r: they share progress entries'
                 % (len(ids), len(set(ids)), sorted(set(ids), key=repr)), {'conf': desc})
    fn = os.path.join(base, 'progress')
    ref = ConfRun(tasks, fn, None, lambda i: True, use_store=False).go()
    if ref.raised:
        if ref.raised == 'TooBig':
            ctx.count('conf_skipped_too_big')
            return
        ctx.fail('walk-raises:' + ref.raised.split(':')[0], 'seed() over the configured tasks raised %s' % ref.raised, {'conf': desc})
        return
    want = set(ref.processed())
    n = len(ref.events)
    conf_footprint_oracle(ctx, tasks, ref, desc)
    ctx.case(('conf', json.dumps(desc, sort_keys=True, default=repr)), len(tasks) > 1, {'conf': desc, 'events': n, 'tiles': len(want)})

    def chain(crashes, p):
        if os.path.exists(fn):
            os.unlink(fn)
        got, runs = set(), []
        for j, k in enumerate(list(crashes) + [None]):
            bits = [rng.random() < p for _ in range(n + 8)]
            r = ConfRun(tasks, fn, k, (lambda i, _b=bits: _b[i] if i < len(_b) else True), use_store=True,
                        continue_seed=(j > 0)).go()
            runs.append(r)
            got |= set(r.processed())
            for sp in r.store_problems[:1]:
                ctx.fail('store-wrong-identifier', sp, {'conf': desc})
            if r.raised:
                ctx.fail('walk-raises:' + r.raised.split(':')[0], 'seed() raised %s' % r.raised, {'conf': desc, 'crashes': crashes})
        ctx.case(('conf-chain', json.dumps(desc, sort_keys=True, default=repr), tuple(crashes), p), True)
        ctx.count('conf_interruptions', len(crashes))
        missing = want - got
        if missing:
            what = ('an uninterrupted seed run with a progress file' if not crashes else
                    'a seed run interrupted at event(s) %r and continued from the progress file' % (list(crashes),))
            ctx.fail('config-run-loses-tiles',
                     '%s over the %d tasks %r never processed %d of the %d tiles selected by all tasks, e.g. %r'
                     % (what, len(tasks), desc['tasks'], len(missing), len(want), sorted(missing)[:3]),
                     {'conf': desc, 'crashes': list(crashes), 'missing': sorted(missing)[:10]})
            return False
        return True
    if not chain([], 1.0):
        return
    for _ in range(3 if ctx.quick else 8):
        ks = sorted(rng.randrange(0, n + 1) for _ in range(rng.choice([1, 1, 2])))
        if not chain(ks, rng.choice([1.0, 0.5, 0.2])):
            return


SCRIPT_SEED = """
seeds:
  s1:
    caches: %(caches)s
    coverages: [cov]
    levels: %(levels)s
coverages:
  cov:
    bbox: %(bbox)r
    srs: 'EPSG:4326'
"""


def script_cases(ctx):
    """The command itself: mapproxy.seed.script.SeedScript driven through sys.argv (real option handling, real
    ProgressStore / ProgressLog, recording pool).  A run WITHOUT --continue starts from scratch whatever progress file an
    earlier interrupted run left behind; with --continue the union covers the uninterrupted run."""
    import contextlib
    import sys as _sys
    import mapproxy.seed.util as su
    import mapproxy.seed.seeder as sd
    from mapproxy.seed.script import SeedScript
    rng = ctx.rng

    class Clock(object):
        now = 1000.0

        def time(self):
            Clock.now += 100.0          # every progress report is far enough from the last one to be persisted
            return Clock.now

    for _ in range(ctx.n(1, 4)):
        base = ctx.tmpdir('c11script')
        mp, sdf, pf = os.path.join(base, 'mapproxy.yaml'), os.path.join(base, 'seed.yaml'), os.path.join(base, 'progress')
        rescale = rng.choice(['    upscale_tiles: 1', '    downscale_tiles: 1', ''])
        caches = '[c, c2]' if not rescale else rng.choice(['[c]', '[c, c2]'])
        levels = rng.choice(['[0, 1, 2]', '{to: 2}', '[1, 2]', '{from: 1, to: 3}'])
        x, y = rng.uniform(-170, 60), rng.uniform(-75, 20)
        bbox = [x, y, x + rng.uniform(30, 110), y + rng.uniform(20, 55)]
        with open(mp, 'w') as f:
            f.write(CONF_MAPPROXY % {'grid': '[GLOBAL_GEODETIC]', 'msx': 2, 'msy': 2, 'rescale': rescale, 'base': base, 'mbuf': 0})
        with open(sdf, 'w') as f:
            f.write(SCRIPT_SEED % {'caches': caches, 'levels': levels, 'bbox': bbox})
        desc = {'rescale': rescale.strip(), 'caches': caches, 'levels': levels, 'coverage': bbox}

        def run(extra, crash_at):
            """returns (set of (task key, tile), outcome, number of process calls)"""
            got, calls = set(), [0]

            class Pool(object):
                def __init__(self, task, worker_class, size=2, dry_run=False, progress_logger=None):
                    self.key = (task.md['name'], task.md['cache_name'], task.md['grid_name'], tuple(task.levels))
                    self.progress_logger = progress_logger

                def process(self, tiles, progress):
                    if crash_at is not None and calls[0] >= crash_at:
                        raise Crash()
                    calls[0] += 1
                    for t in tiles:
                        got.add((self.key, tuple(t)))
                    if self.progress_logger:
                        self.progress_logger.log_step(progress)

                def stop(self, force=False):
                    pass
            saved = (su.time, sd.TileWorkerPool, _sys.argv)
            su.time, sd.TileWorkerPool = Clock(), Pool
            _sys.argv = ['mapproxy-seed', '-f', mp, '-s', sdf, '-c', '1'] + extra
            outcome = 'returned'
            try:
                with contextlib.redirect_stdout(io.StringIO()):
                    rc = SeedScript()()
                    outcome = 'returned %r' % (rc,)
            except Crash:
                outcome = 'crashed'
            except SystemExit as e:
                outcome = 'exit %r' % (e.code,)
            except Exception as e:  # noqa
                outcome = 'raised %r' % (e,)
            finally:
                su.time, sd.TileWorkerPool, _sys.argv = saved
            return got, outcome, calls[0]

        want, outcome, ncalls = run([], None)
        ctx.case(('script', json.dumps(desc, sort_keys=True)), True, {'script_conf': desc, 'process_calls': ncalls, 'tiles': len(want)})
        ctx.count('script_runs')
        if not outcome.startswith('returned') or not want:
            ctx.fail('script-run-fails', 'mapproxy-seed -f mapproxy.yaml -s seed.yaml: %s, %d tiles' % (outcome, len(want)), {'conf': desc})
            continue
        k = rng.randrange(max(1, ncalls // 2), ncalls)         # interrupted in a later task
        first, o1, _n = run(['--progress-file', pf], k)
        if o1 != 'crashed':
            ctx.problem('harness', 'script case: the interrupted run ended with %s' % o1, desc)
            continue
        leftover = os.path.exists(pf)
        # (a) the same command again WITHOUT --continue: a fresh start, everything is handed over again
        fresh, o2, _n = run(['--progress-file', pf], None)
        missing = want - fresh
        if missing or not o2.startswith('returned'):
            ctx.fail('run-without-continue-uses-old-progress',
                     'mapproxy-seed --progress-file F (no --continue) after an interrupted run (progress file left behind: %s): %s, '
                     '%d of the %d selected tiles were never handed over, e.g. %r' % (leftover, o2, len(missing), len(want), sorted(missing)[:2]),
                     {'conf': desc, 'interrupted_after_calls': k, 'missing': sorted(missing)[:8]})
            continue
        # (b) interrupted again, then continued with --continue: the union covers everything
        first, o1, _n = run(['--progress-file', pf], k)
        cont, o3, _n = run(['--progress-file', pf, '--continue'], None)
        missing = want - (first | cont)
        if missing or not o3.startswith('returned'):
            ctx.fail('config-run-loses-tiles',
                     'mapproxy-seed --progress-file F interrupted after %d process calls, then --continue: %s, %d of the %d selected '
                     'tiles were never handed over, e.g. %r' % (k, o3, len(missing), len(want), sorted(missing)[:2]),
                     {'conf': desc, 'interrupted_after_calls': k, 'missing': sorted(missing)[:8]})


def drain_cases(ctx):
    """Interruption with REAL worker processes (real seed_task, real TileWorkerPool / TileSeedWorker over a multiprocessing
    queue, slow tile creation): when seed_task leaves with KeyboardInterrupt every tile list that was handed to the pool
    before must have been worked off (stop() sends the sentinels and joins) - the saved progress counts them as done."""
    import contextlib
    import multiprocessing
    import time as _time
    import mapproxy.seed.seeder as sd
    from mapproxy.seed.util import ProgressLog
    rng = ctx.rng
    for n_before in ([2] if ctx.quick else [2, 3]):
        base = ctx.tmpdir('c11drain')
        done = os.path.join(base, 'done.txt')
        spec = {'stream': 'exact', 'grid': {'srs': 3857, 'bbox': [0, 0, 10240, 10240], 'tile_size': [4, 4], 'res': [2560, 1280, 640],
                                            'origin': 'll'},
                'meta': [2, 2], 'levels': [1, 2], 'cov': {'type': 'bbox', 'bbox': [100, 100, 9000, 9000], 'srs': 3857}, 'skip': 0,
                'real_tm': False, 'refresh_all': rng.random() < 0.5}
        task, grid = build_task(spec)
        ref = Run(task, spec, os.path.join(base, 'p0'), None, lambda i: True).go()
        expected = [[list(t) for t in call] for call in ref.calls()[:n_before]]
        if len(expected) < n_before:
            ctx.problem('harness', 'drain case: task too small')
            return
        delay = 1.3

        class SlowTM(StubTM):
            @contextlib.contextmanager
            def session(self):
                yield

            def load_tile_coords(self, tiles, *a, **kw):
                _time.sleep(delay)
                with open(done, 'a') as f:
                    f.write(json.dumps([list(t) for t in tiles]) + '\n')
        task.tile_manager = SlowTM(grid, spec['meta'])

        class InterruptingLog(ProgressLog):
            steps = 0

            def log_step(self, progress):
                self.steps += 1
                if self.steps >= n_before:
                    raise KeyboardInterrupt()
        log = InterruptingLog(out=io.StringIO(), silent=True, verbose=True)
        outcome = 'returned'
        t0 = _time.time()
        try:
            sd.seed_task(task, concurrency=1, progress_logger=log)
        except KeyboardInterrupt:
            outcome = 'interrupted'
        except Exception as e:  # noqa
            outcome = 'raised %r' % (e,)
        waited = _time.time() - t0
        try:
            finished = [json.loads(l) for l in open(done)]
        except OSError:
            finished = []
        for pr in multiprocessing.active_children():
            pr.terminate()
            pr.join(2)
        ctx.case(('drain', n_before, spec['refresh_all']), True, {'handed_before_interrupt': expected, 'finished_at_exit': finished})
        ctx.count('interrupt_with_real_worker_processes')
        if outcome != 'interrupted':
            ctx.fail('interrupt-not-propagated', 'seed_task with a KeyboardInterrupt in the progress logger: %s' % outcome, {'task': spec})
            continue
        missing = [c for c in expected if c not in finished]
        if missing:
            ctx.fail('interrupted-run-abandons-handed-tiles',
                     'seed_task was interrupted after %d tile lists had been handed to the worker pool (1 worker process, %.1f s per list); '
                     'when it returned (after %.1f s) %d of them had not been worked off, e.g. %r - the progress already counts them as done'
                     % (n_before, delay, waited, len(missing), missing[0][:4]),
                     {'task': spec, 'handed': expected, 'finished': finished, 'seconds_per_list': delay})


# ----------------------------------------------------------------------------- interruption while a worker stores a meta tile

class WorkingPool(RecPool):
    """Records the hand-over like RecPool and then does the work in the calling thread with the REAL worker code
    (TileSeedWorker.work_loop -> TileManager.load_tile_coords -> TileCreator -> cache.store_tiles) before the step is logged."""

    def process(self, tiles, progress):
        import mapproxy.seed.seeder as sd
        from mapproxy.config import base_config

        class OneShotQueue(object):
            def __init__(self, items):
                self.items = list(items)

            def get(self):
                return self.items.pop(0)
        self.run.tick()
        self.run.events.append(('proc', tuple(tuple(t) for t in tiles)))
        worker = sd.TileSeedWorker(self.run.task, OneShotQueue([tiles, None]), base_config())
        tm = self.run.task.tile_manager
        st = self.run.store_state
        members = [tuple(t) for t in tm.meta_grid.meta_tile(tiles[0]).tiles if t is not None]
        from mapproxy.cache.tile import Tile
        before = [t for t in members if tm.cache.is_cached(Tile(t))]
        n0 = len(st['stored'])
        died = True
        try:
            worker.work_loop()
            died = False
        finally:
            # (cache content restricted to the meta tile, meta_tile.tiles, handed list, died behind this many stores, store_tile calls)
            self.run.work_log.append((before, members, [tuple(t) for t in tiles], len(st['stored']) - n0 if died else None,
                                      list(st['stored'][n0:])))
        if self.progress_logger:
            self.run.clock.now += 1.0
            self.progress_logger.log_step(progress)


class StoringRun(Run):
    def __init__(self, task, spec, fn, store_state):
        Run.__init__(self, task, spec, fn, None, lambda i: True)
        self.store_state = store_state
        self.work_log = []

    def make_pool(self, log):
        return WorkingPool(self, log)


class UpstreamStub(object):
    """upstream that renders any bbox (like a WMS)"""
    supports_meta_tiles = True
    transparent = False
    coverage = None
    res_range = None

    def __init__(self):
        from mapproxy.layer import DefaultMapExtent
        self.extent = DefaultMapExtent()
        self.requests = []

    def get_map(self, query):
        from PIL import Image
        from mapproxy.image import ImageSource
        from mapproxy.image.opts import ImageOptions
        self.requests.append(tuple(query.bbox))
        return ImageSource(Image.new('RGB', query.size, (200, 100, 50)), size=query.size, image_opts=ImageOptions(format='image/png'))


def storing_task(spec, cache_dir, crash_after):
    """SeedTask over a real TileManager / TileCreator / FileCache (tiles of a meta tile are stored one by one); the process
    'dies' (Crash is a BaseException: nothing is cleaned up except the released lock) right after the crash_after-th stored tile."""
    from mapproxy.cache.file import FileCache
    from mapproxy.cache.dummy import DummyLocker
    from mapproxy.cache.tile import TileManager
    from mapproxy.image.opts import ImageOptions
    from mapproxy.seed.seeder import SeedTask
    state = {'stored': [], 'crash_after': crash_after}

    class CrashingFileCache(FileCache):
        def store_tile(self, tile, dimensions=None):
            r = FileCache.store_tile(self, tile, dimensions=dimensions)
            state['stored'].append(tuple(tile.coord))
            if state['crash_after'] is not None and len(state['stored']) == state['crash_after']:
                raise Crash()
            return r
    grid = build_grid(spec['grid'])
    cache = CrashingFileCache(cache_dir, 'png')
    src = UpstreamStub()
    tm = TileManager(grid, cache, [src], 'png', locker=DummyLocker(), image_opts=ImageOptions(format='image/png'),
                     meta_size=list(spec['meta']), meta_buffer=0)
    md = {'name': 'c11', 'cache_name': 'cache', 'grid_name': 'grid'}
    task = SeedTask(md, tm, list(spec['levels']), None, False, build_cov(spec['cov']))
    return task, cache, state, src


def store_crash_cases(ctx):
    """The interruption point lies INSIDE the work of a seed worker: the process dies after it stored k tiles in total (for every
    k: also in the middle of the tiles of one meta tile).  The task is then continued from the saved progress (real ProgressStore)
    and runs to completion.  Oracle: every tile an uninterrupted run on the empty cache hands over exists in the cache afterwards.
    Second family: caches that hold part of a meta tile for other reasons (deterministic rules), one uninterrupted run."""
    from mapproxy.cache.tile import Tile
    from mapproxy.image import ImageSource
    from mapproxy.image.opts import ImageOptions
    from PIL import Image
    tasks = [
        {'stream': 'exact', 'grid': {'srs': 3857, 'bbox': [0, 0, 10240, 10240], 'tile_size': [4, 4], 'res': [2560, 1280, 640], 'origin': 'll'},
         'meta': [2, 2], 'levels': [1, 2], 'cov': {'type': 'bbox', 'bbox': [100, 100, 9000, 9000], 'srs': 3857}, 'skip': 0,
         'refresh_all': False},
        {'stream': 'exact', 'grid': {'srs': 3857, 'bbox': [0, 0, 15360, 10240], 'tile_size': [4, 4], 'res': [2560, 1280, 640], 'origin': 'ul'},
         'meta': [3, 2], 'levels': [0, 2], 'cov': {'type': 'bbox', 'bbox': [3000, 100, 15000, 7000], 'srs': 3857}, 'skip': 0,
         'refresh_all': False},
    ]
    work = []
    for ti, spec in enumerate(tasks):
        base = ctx.tmpdir('c11store')
        stub_spec = dict(spec, real_tm=False)
        stub_task, grid = build_task(stub_spec)
        ref = Run(stub_task, stub_spec, os.path.join(base, 'pref'), None, lambda i: True).go()
        want = sorted(set(ref.processed()))
        if ref.raised or len(want) < 8:
            ctx.problem('harness', 'store-crash case: reference run unusable (%r, %d tiles)' % (ref.raised, len(want)))
            continue

        def missing_in(cache):
            return [t for t in want if not cache.is_cached(Tile(t))]

        # (a) the worker dies after the k-th stored tile, for every k
        ks = list(range(1, len(want) + 1))
        if ctx.quick and len(ks) > 24:
            ks = ks[:12] + ks[12::3]
        for k in ks:
            cdir = os.path.join(base, 'cache-k%d' % k)
            pfile = os.path.join(base, 'progress-k%d' % k)
            task1, cache1, st1, _ = storing_task(spec, cdir, k)
            r1 = StoringRun(task1, spec, pfile, st1).go()
            task2, cache2, st2, _ = storing_task(spec, cdir, None)
            r2 = StoringRun(task2, spec, pfile, st2).go()
            work.extend(r1.work_log + r2.work_log)
            ctx.case(('store-crash', ti, k), True, {'task': spec, 'worker_dies_after_stored_tiles': k})
            ctx.count('worker_dies_while_storing')
            if not r1.crashed or r1.raised or r2.raised or r2.crashed:
                ctx.problem('harness', 'store-crash case %d/%d: run 1 crashed=%r raised=%r, run 2 crashed=%r raised=%r'
                            % (ti, k, r1.crashed, r1.raised, r2.crashed, r2.raised))
                continue
            missing = missing_in(cache2)
            if missing:
                last = st1['stored'][-1]
                ctx.fail('interrupted-store-never-completed',
                         'seed worker dies right after storing tile %r (stored tile no. %d of the run, file cache, meta size %r); the task '
                         'is continued from the saved progress %r and finishes (%d hand-overs, %d tiles stored), but %d of the %d selected '
                         'tiles do not exist afterwards, e.g. %r'
                         % (last, k, spec['meta'], r2.old, len(r2.calls()), len(st2['stored']), len(missing), len(want), missing[:4]),
                         {'task': spec, 'worker_dies_after_stored_tiles': k, 'stored_before_death': [list(t) for t in st1['stored']],
                          'saved_progress': r2.old, 'handed_in_continued_run': [[list(t) for t in c] for c in r2.calls()],
                          'missing': [list(t) for t in missing]})

        # (b) partly filled meta tiles in the cache before an uninterrupted run
        for rule in ([2, 2, 1], [1, 3, 1], [1, 2, 1], [1, 5, 3]):
            cdir = os.path.join(base, 'cache-r%s' % '-'.join(map(str, rule)))
            pfile = os.path.join(base, 'progress-r%s' % '-'.join(map(str, rule)))
            task, cache, st, src = storing_task(spec, cdir, None)
            pre = [t for t in want if is_cached_rule(rule, t)]
            for t in pre:
                tile = Tile(t)
                tile.source = ImageSource(Image.new('RGB', tuple(spec['grid']['tile_size']), (1, 2, 3)), image_opts=ImageOptions(format='image/png'))
                cache.store_tile(tile)
            del st['stored'][:]
            r = StoringRun(task, spec, pfile, st).go()
            work.extend(r.work_log)
            ctx.case(('store-partial', ti, tuple(rule)), bool(pre) and len(pre) < len(want), {'task': spec, 'cached_before': [list(t) for t in pre]})
            ctx.count('partly_cached_meta_tiles_seeded')
            if r.raised or r.crashed:
                ctx.problem('harness', 'store-partial case %d/%r: raised=%r' % (ti, rule, r.raised))
                continue
            missing = missing_in(cache)
            if missing:
                ctx.fail('partly-cached-meta-tile-never-completed',
                         'cache holds %d of the %d selected tiles (rule %r) before seeding; the seed task runs to completion (%d hand-overs) '
                         'but %d selected tiles do not exist afterwards, e.g. %r' % (len(pre), len(want), rule, len(r.calls()), len(missing), missing[:4]),
                         {'task': spec, 'cached_before': [list(t) for t in pre], 'handed': [[list(t) for t in c] for c in r.calls()],
                          'missing': [list(t) for t in missing]})
            handed = set(r.processed())
            extra = sorted(handed & set(pre))
            if extra:
                ctx.fail('cached-tile-handed-over', 'uncached mode handed over tiles that were in the cache: %r' % (extra[:4],),
                         {'task': spec, 'cached_before': [list(t) for t in pre], 'handed_although_cached': [list(t) for t in extra]})

    # the store_tile calls of every hand-over vs the model of the worker (Seed.worker_stores; theorem interrupted_store_completed)
    seen, terms, descs = set(), [], []
    for before, members, handed, j, stored in work:
        key = (tuple(before), tuple(members), tuple(handed), j, tuple(stored))
        if key in seen:
            continue
        seen.add(key)
        terms.append('(%s, %s, %s, %s, %s)' % (llit(before, coord_lit), llit(members, coord_lit), llit(handed, coord_lit),
                                               olit(j, lambda n: '%d%%nat' % n), llit(stored, coord_lit)))
        descs.append({'cached_members_before': before, 'meta_tile_tiles': members, 'handed': handed, 'died_behind_store': j,
                      'store_tile_calls': stored})
    ctx.corr_check('meta_store', 'Grid Seed', 'list coord * list coord * list coord * option nat * list coord', terms,
                   "fun c => let '(before, members, handed, j, stored) := c in let m := worker_stores before members handed in "
                   "coords_eqb (match j with Some n => firstn n m | None => m end) stored",
                   lambda i: descs[i])


def load_corpus():
    out = []
    if os.path.isdir(CORPUS):
        for fn in sorted(os.listdir(CORPUS)):
            if fn.endswith('.json'):
                try:
                    out.append((fn, json.load(open(os.path.join(CORPUS, fn)))))
                except Exception:  # noqa
                    pass
    return out


def run(ctx):
    rng = ctx.rng
    can_skip_cases(ctx)
    limit_cases(ctx)
    id_cases(ctx)
    try:
        pool_cases(ctx)
    except Exception as e:  # noqa
        ctx.problem('harness', 'pool oracle raised %r' % (e,))
    conf_stream(ctx)
    try:
        script_cases(ctx)
    except Exception as e:  # noqa
        import traceback
        ctx.problem('harness', 'script case raised %r' % (e,), traceback.format_exc()[-1200:])
    try:
        drain_cases(ctx)
    except Exception as e:  # noqa
        import traceback
        ctx.problem('harness', 'drain case raised %r' % (e,), traceback.format_exc()[-1200:])
    try:
        store_crash_cases(ctx)
    except Exception as e:  # noqa
        import traceback
        ctx.problem('harness', 'store-crash case raised %r' % (e,), traceback.format_exc()[-1200:])
    out = {'defs': [], 'tdefs': [], 'geo': [], 'tree': []}
    specs = []
    for fn, c in load_corpus():
        s = c.get('task') or c
        s = dict(s)
        s['corpus'] = fn
        specs.append(s)
    for _ in range(ctx.n(22, 160)):
        specs.append(gen_exact_spec(rng))
    for j in range(ctx.n(6, 30)):
        specs.append(gen_pyramid_spec(rng, irregular=(j % 2 == 1), multi=(j % 3 == 0), roots=(j == 1)))
    for _ in range(ctx.n(2, 10)):
        specs.append(gen_bend_spec(rng))
    for _ in range(ctx.n(7, 40)):
        try:
            specs.append(gen_real_spec(rng))
        except Exception as e:  # noqa
            ctx.problem('harness', 'generator failed: %r' % (e,))
    for i, spec in enumerate(specs):
        try:
            TaskCheck(ctx, spec, 'g%d' % i, out).run()
        except Exception as e:  # noqa
            import traceback
            ctx.problem('harness', 'task check raised %r' % (e,), {'task': spec, 'trace': traceback.format_exc()[-1500:]})
    ctx.corr_check('geo_walk', 'Grid Seed',
                   'grid * Z * Z * (bbox -> Z) * Z * list Z * bbox * option path * option nat * (bool * (coord -> bool) * bool) * option nat * list oevent',
                   [t for t, _ in out['geo']],
                   "fun c => let '(g, msx, msy, cv, sk, lvls, root, old, k, (hall, keep, womt), stop, obs) := c in "
                   "let cut := fun (k : option nat) (l : list oevent) => match k with None => l | Some n => firstn n l end in "
                   "oevents_eqb (cut k (observe g msx msy womt hall keep (geo_walk_s g msx msy cv sk lvls root old stop))) obs && "
                   "match stop with None => oevents_eqb (cut k (observe g msx msy womt hall keep (geo_walk g msx msy cv sk lvls root old))) obs | Some _ => true end",
                   lambda i: out['geo'][i][1], defs='\n'.join(out['defs']), shard=ctx.n(12, 40))
    ctx.corr_check('tree_walk', 'Grid Seed', 'wnode * Z * option path * option nat * list coord * option nat * list event',
                   [t for t, _ in out['tree']],
                   "fun c => let '(tr, flv, old, k, drop, stop, obs) := c in "
                   "let cut := fun (k : option nat) (l : list event) => match k with None => l | Some n => firstn n l end in "
                   "events_eqb (cut k (drop_procs drop (run_walk_s old tr flv stop))) obs && "
                   "match stop with None => events_eqb (cut k (drop_procs drop (run_walk old tr flv))) obs | Some _ => true end",
                   lambda i: out['tree'][i][1], defs='\n'.join(out['tdefs']), shard=ctx.n(12, 40))
