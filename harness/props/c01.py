"""C01  Map content and feature-info queries land at the right place on the ground.

Model: coq/theories/Geo.v (+ Grid.v), theorems: coq/props/P_C01.v.
Tie (correspondence, three depths):
 (1) pure functions of the real code against the model evaluated by vm_compute: TileGrid.get_affected_tiles +
     TileMerger._tile_offset/_src_size, MetaGrid.meta_tile, make_lin_transf, bbox_position_in_image,
     ImageTransformer.transform (PIL crop/transform replaced by a recorder), divide_quad, InfoQuery.coord,
     WMSInfoClient._get_transformed_query (PROJ replaced by a dyadic affine map), the WMS request classes
     (axis order, all versions);
 (2) the full WSGI application (make_wsgi_app on generated YAML, webtest) with a synthetic upstream
     (mapproxy.client.http.HTTPClient.open replaced): the (bbox, size, SRS) of every upstream request is
     compared with the model's meta tiles / tile list;
Oracle (independent of the model): the synthetic upstream colours every pixel by the index of the ground cell
(half an output pixel wide) of its centre; every output pixel that shows content must show a cell whose
distance to the pixel's own ground position is at most 1.5 output pixels (+ half an upstream pixel: the
footprint of the upstream pixel, + half a cell); pixels well inside the layer extent must show content;
a request that is exactly one stored tile must return the stored bytes; feature-info requests must reach the
upstream for the same ground point (within one pixel).
"""
from fractions import Fraction
import io
import json
import math
import os
import re

from common import zlit, blit, llit, olit
from gridlib import GridCase, frac

ID = 'C01'
TECHNIQUE = ('Coq proof over an exact-arithmetic model of the georeferencing pipeline + correspondence of the model with '
             'the real functions and with the upstream requests of the full WSGI application; per-pixel position oracle')
LEVEL_TEXT = ('Theorems for every grid/level/request rectangle (mosaic georeference), every pair of rectangles (affine '
              'maps and their inverses), every sub-extent placement, every crop/extent decision of ImageTransformer, every '
              'feature-info position (any external transformation T), every WMS version / axis order combination, over the '
              'Gallina model Geo.v; the model is tied to the code by running the real functions and the real WSGI '
              'application on generated configurations and comparing with the model evaluated by vm_compute.')
LEVEL_NOTE = ('Known finding reproduced by the oracle on the unchanged tree (known_findings.d/C01.json): sub-pixel truncations of '
              'several stages add up to 1.5-3.5 px.  Repaired: RESTful WMTS GetFeatureInfo used the mirrored tile on '
              'south-origin grids (corpus/C01/wmts-rest-featureinfo-ll.json stays as regression input).  '
              'Trusted: Coq kernel; hand-written model Geo.v/Grid.v; the correspondence harness and the synthetic upstream. '
              'IEEE-754 rounding is not modelled (exact stream: dyadic inputs, results compared exactly or within 2^-40 '
              'relative where a division is inexact). PROJ, PIL resampling kernels and the MESH path are not modelled: they '
              'are covered only by the per-pixel oracle on the running application.')
DESIGN_REF = 'DESIGN.md section 5, C01'
RULE = ('case = (function or application configuration, request); non-trivial = request not aligned to the tile lattice or '
        'crossing the grid/coverage boundary or using a ul-origin / custom-resolution / meta-buffer configuration; '
        'distinct by full tuple')
TRUSTED = ['model Geo.v hand-written from mapproxy/image/tile.py, image/transform.py, image/__init__.py, srs.py, layer.py, '
           'client/wms.py, source/wms.py, request/wms/__init__.py, grid.py (MetaGrid)',
           'synthetic upstream (position-encoding renderer) and per-pixel decoder in harness/props/c01.py',
           'PROJ / PIL are exercised, not modelled']
ASSUMPTIONS = ['rectangles non-degenerate, sizes positive (otherwise Python raises ZeroDivisionError)',
               'float rounding: results compared with tolerance 2^-40 relative; integer results exact on the dyadic stream']
EXPLANATION = 'affine stages proved over Z/Q; implementation compared on pure functions and on the running application'

HERE = os.path.dirname(os.path.abspath(__file__))
CORPUS = os.path.join(os.path.dirname(os.path.dirname(HERE)), 'corpus', 'C01')


# ----------------------------------------------------------------------------- literals

def qlit(v):
    f = Fraction(v)
    return '(Qmake %s %d)' % (zlit(f.numerator), f.denominator)


def qbb(b):
    return '(%s, %s, %s, %s)' % tuple(qlit(v) for v in b)


def zz(p):
    return '(%s, %s)' % (zlit(p[0]), zlit(p[1]))


def z4(p):
    return '(%s, %s, %s, %s)' % tuple(zlit(v) for v in p)


def coord_lit(c):
    return '(%s, %s, %s)' % (zlit(c[0]), zlit(c[1]), zlit(c[2]))


def qtol(*vals):
    """tolerance for comparing a float result with the exact rational: 2^-40 relative to the magnitudes involved"""
    m = max([abs(Fraction(v)) for v in vals] + [Fraction(1)])
    return m / 2 ** 40


def call(f, *a, **kw):
    try:
        return ('ok', f(*a, **kw))
    except Exception as e:  # noqa
        return ('raised', type(e).__name__)


def dy(rng, lo, hi, den=8):
    """random dyadic number with denominator den in [lo, hi]"""
    return rng.randrange(int(lo * den), int(hi * den) + 1) / float(den)


class Table:
    def __init__(self):
        self.t = {}

    def add(self, name, term, desc):
        c = self.t.setdefault(name, ([], []))
        c[0].append(term)
        c[1].append(desc)

    def get(self, name):
        return self.t.get(name, ([], []))


# ----------------------------------------------------------------------------- grids (exact stream)

def make_grid(rng, name, force=None):
    """A TileGrid with integer parameters (all float operations of grid.py exact), built by the real constructor."""
    from mapproxy.grid import TileGrid
    from mapproxy.srs import SRS
    force = force or {}
    tw, th = force.get('tile_size') or rng.choice([(256, 256), (128, 128), (64, 128), (100, 100), (32, 32), (256, 128)])
    mode = rng.choice(['pyramid', 'custom', 'custom'])
    if mode == 'pyramid':
        base = 10 * rng.choice([1, 2, 4, 8])
        n = rng.randrange(2, 7)
        res = [base * 2 ** (n - 1 - j) for j in range(n)]
    else:
        res = sorted({10 * rng.choice([1, 2, 3, 4, 6, 8, 12, 16, 20, 32, 50, 64]) for _ in range(rng.randrange(2, 6))} | {10 * rng.choice([5, 10])}, reverse=True)
        if len(res) < 2:
            res = [res[0] * 2] + res
    x0 = rng.randrange(-40000, 40000, 10)
    y0 = rng.randrange(-40000, 40000, 10)
    span_x = res[0] * tw
    span_y = res[0] * th
    w = rng.choice([span_x, span_x * 2, span_x * 3 + 10 * rng.randrange(1, 50), span_x + res[-1] * rng.randrange(1, 3 * tw),
                    span_x * rng.randrange(1, 4) - 10, 2 * span_x + res[-1] * 5 + 5])
    h = rng.choice([span_y, span_y * 2, span_y * 3 + 10 * rng.randrange(1, 50), span_y + res[-1] * rng.randrange(1, 3 * th),
                    span_y * rng.randrange(1, 4) - 10, 2 * span_y + res[-1] * 5 + 5])
    bbox = (float(x0), float(y0), float(x0 + w), float(y0 + h))
    origin = force.get('origin') or rng.choice(['ll', 'ul', 'sw', 'nw'])
    sf = rng.choice([1.0, 1.125, 1.25, 1.5, 1.15])
    srs = force.get('srs') or 'EPSG:3857'
    g = TileGrid(SRS(srs), bbox=bbox, tile_size=(tw, th), res=[float(r) for r in res], origin=origin,
                 stretch_factor=sf, max_shrink_factor=4.0)
    gc = GridCase(name, g, extra_den=8)
    gc.conf = {'srs': srs, 'bbox': list(bbox), 'tile_size': [tw, th], 'res': [float(r) for r in res],
               'origin': origin, 'stretch_factor': sf, 'max_shrink_factor': 4.0}
    return gc


def request_for(rng, gc, aligned=None, level=None):
    """A request (bbox, size) in the grid SRS whose resolution is a dyadic multiple of a level resolution, so that
    get_resolution and closest_level compute exactly.  Returns (bbox, size, kind)."""
    nlev = len(gc.res)
    l = rng.randrange(nlev) if level is None else level
    r = float(gc.res[l])
    kind = aligned or rng.choice(['tile', 'tiles', 'shifted', 'shifted', 'scaled', 'scaled', 'edge', 'outside', 'big'])
    nx, ny = gc.grid_size(l)
    if kind == 'tile':
        tx, ty = rng.randrange(nx), rng.randrange(ny)
        b = [float(v) for v in gc.tile_rect(tx, ty, l)]
        return tuple(b), (gc.tw, gc.th), kind
    if kind == 'tiles':
        tx, ty = rng.randrange(nx), rng.randrange(ny)
        kx, ky = rng.randrange(1, 4), rng.randrange(1, 3)
        b0 = gc.tile_rect(tx, ty, l)
        b = (float(b0[0]), float(b0[1]), float(b0[0] + kx * gc.tw * r), float(b0[1] + ky * gc.th * r))
        return b, (kx * gc.tw, ky * gc.th), kind
    f = 1.0
    if kind in ('scaled', 'big'):
        f = rng.choice([0.5, 0.75, 1.25, 2.0, 0.625, 1.0625, 3.0, 0.25])
    rr = r * f
    sx = rng.choice([64, 100, 200, 256, 300, 333, 512])
    sy = rng.choice([64, 100, 200, 256, 300, 177, 512])
    if kind == 'big':
        sx, sy = rng.choice([(600, 500), (800, 400), (512, 700)])
    gx0, gy0, gx1, gy1 = [float(v) for v in gc.bbox]
    # position: inside, crossing an edge of the grid bbox, or far outside; on the 1/8 lattice
    if kind == 'outside':
        x0 = gx1 + dy(rng, 1, 5000)
        y0 = gy0 + dy(rng, -1000, 1000)
    elif kind == 'edge':
        x0 = rng.choice([gx0 - sx * rr / 2, gx1 - sx * rr / 2, gx0 + dy(rng, 0, 100)])
        y0 = rng.choice([gy0 - sy * rr / 2, gy1 - sy * rr / 2, gy0 + dy(rng, 0, 100)])
        x0 = math.floor(x0 * 8) / 8.0
        y0 = math.floor(y0 * 8) / 8.0
    elif gx1 - sx * rr > gx0 and gy1 - sy * rr > gy0 and rng.random() < 0.7:
        # completely inside the grid bbox
        x0 = dy(rng, gx0, gx1 - sx * rr)
        y0 = dy(rng, gy0, gy1 - sy * rr)
    else:
        x0 = dy(rng, gx0 - 50, max(gx0, gx1 - sx * rr) + 50)
        y0 = dy(rng, gy0 - 50, max(gy0, gy1 - sy * rr) + 50)
        if rng.random() < 0.3:
            # on the pixel lattice of the level
            x0 = gx0 + math.floor((x0 - gx0) / r) * r
            y0 = gy0 + math.floor((y0 - gy0) / r) * r
    b = (x0, y0, x0 + sx * rr, y0 + sy * rr)
    return b, (sx, sy), kind


def exact_division(a, b):
    """is the float quotient a / b exact?"""
    return Fraction(a / b) == Fraction(a) / Fraction(b)


def level_is_rounding_sensitive(gc, bbox, size):
    """closest_level compares l_res with res and res * stretch_factor in floats: when one of these products is
    not exactly representable and the comparison is close, the outcome depends on rounding"""
    w = Fraction(bbox[2]) - Fraction(bbox[0])
    h = Fraction(bbox[3]) - Fraction(bbox[1])
    if not (exact_division(bbox[2] - bbox[0], size[0]) and exact_division(bbox[3] - bbox[1], size[1])):
        return True
    q = min(w / size[0], h / size[1])
    for r in gc.res:
        for v in (q, q * gc.sf):
            if v != r and abs(v - r) <= abs(r) / 10 ** 9:
                return True
            if Fraction(float(v)) != v and v == r:
                return True
    return False


# ----------------------------------------------------------------------------- (1) pure functions

def pure_mosaic(ctx, T, grids):
    """get_affected_tiles + TileMerger offsets vs cache_map_plan / tile_offset; oracle: each tile's own bbox lies at
    its paste offset inside src_bbox."""
    from mapproxy.image.tile import TileMerger
    from mapproxy.grid import NoTiles, GridError
    rng = ctx.rng
    for gc in grids:
        g = gc.grid
        for _ in range(ctx.n(10, 40)):
            bbox, size, kind = request_for(rng, gc)
            if not gc.can_scale(*bbox):
                continue
            if level_is_rounding_sensitive(gc, bbox, size):
                ctx.count('mosaic:skipped_rounding_sensitive')
                continue
            try:
                src_bbox, tgrid, tiles = g.get_affected_tiles(bbox, size)
                tiles = list(tiles)
                obs = ('mosaic', src_bbox, tgrid, tiles)
            except NoTiles:
                obs = ('blank',)
            except GridError:
                obs = ('badbbox',)
            except Exception as e:  # noqa
                ctx.fail('affected-raises', 'get_affected_tiles raised %r' % (e,), {'grid': gc.conf, 'bbox': bbox, 'size': size})
                continue
            ctx.count('mosaic:' + kind)
            desc = {'grid': gc.conf, 'bbox': bbox, 'size': size, 'result': obs[0]}
            if obs[0] != 'mosaic':
                T.add('plan', '(%s, %s, %d, %d, %s, [])' % (gc.name, gc.zbbox(bbox), size[0], size[1],
                                                            'Blank' if obs[0] == 'blank' else 'BadBBox'), desc)
                ctx.case(('plan', gc.name, bbox, size), kind != 'outside')
                continue
            if len(tiles) > 150 or not gc.can_scale(*src_bbox):
                continue
            level = next((t[2] for t in tiles if t is not None), None)
            if level is None:
                # all tiles outside the grid: the level is not observable from the tile list
                _, level = g.get_affected_bbox_and_level(bbox, size)
            tm = TileMerger(tgrid, g.tile_size)
            offs = [tm._tile_offset(i) for i in range(len(tiles))]
            ssize = tm._src_size()
            desc.update({'src_bbox': src_bbox, 'tile_grid': tgrid, 'tiles': tiles[:30], 'offsets': offs[:30]})
            T.add('plan', '(%s, %s, %d, %d, Mosaic %d %s %d %d %s, %s)' % (
                gc.name, gc.zbbox(bbox), size[0], size[1], level, gc.zbbox(src_bbox), tgrid[0], tgrid[1],
                llit(tiles, lambda c: olit(c, coord_lit)), llit(offs + [ssize], zz)), desc)
            ctx.case(('plan', gc.name, bbox, size), True,
                     {'fn': 'get_affected_tiles+_tile_offset', 'grid': gc.conf, 'bbox': bbox, 'size': size,
                      'src_bbox': src_bbox, 'tile_grid': tgrid, 'tiles': tiles[:8], 'offsets': offs[:8]})
            # oracle (exact rationals): the mosaic's georeference is src_bbox
            r = gc.res[level]
            sb = [frac(v) for v in src_bbox]
            rep = {'grid': gc.conf, 'bbox': bbox, 'size': size, 'src_bbox': src_bbox, 'tile_grid': tgrid, 'tiles': tiles[:40]}
            if (sb[2] - sb[0]) != ssize[0] * r or (sb[3] - sb[1]) != ssize[1] * r:
                ctx.fail('mosaic-size', 'mosaic of %r px at resolution %s does not have the extent src_bbox %r' % (ssize, float(r), src_bbox), rep)
            for i, t in enumerate(tiles):
                if t is None:
                    continue
                tr = gc.tile_rect(*t)
                want = ((tr[0] - sb[0]) / r, (sb[3] - tr[3]) / r)
                if want != (offs[i][0], offs[i][1]):
                    ctx.fail('mosaic-offset', 'tile %r (entry %d) is pasted at %r, its bbox lies at pixel %r of src_bbox'
                             % (t, i, offs[i], (float(want[0]), float(want[1]))), rep)
                    break
            # oracle: the mosaic covers the part of the request inside the grid (up to 1/10 px)
            d = r / 10
            gb = gc.bbox
            if not (sb[0] <= max(frac(bbox[0]), gb[0]) + d or frac(bbox[0]) >= gb[2]):
                ctx.fail('mosaic-cover', 'src_bbox does not cover the request on the left', rep)


def pure_meta(ctx, T, grids):
    from mapproxy.grid import MetaGrid
    rng = ctx.rng
    for gc in grids:
        g = gc.grid
        for _ in range(ctx.n(3, 8)):
            ms = rng.choice([(1, 1), (2, 2), (3, 2), (4, 4), (2, 1), (8, 8)])
            buf = rng.choice([0, 0, 1, 10, 37, 80, 200])
            mg = MetaGrid(g, ms, buf)
            l = rng.randrange(len(gc.res))
            nx, ny = gc.grid_size(l)
            tx = rng.choice([0, nx - 1, rng.randrange(nx)])
            ty = rng.choice([0, ny - 1, rng.randrange(ny)])
            st, mt = call(mg.meta_tile, (tx, ty, l))
            if st != 'ok':
                ctx.fail('meta-raises', 'meta_tile raised %r' % (mt,), {'grid': gc.conf, 'meta': (ms, buf), 'tile': (tx, ty, l)})
                continue
            if not gc.can_scale(*mt.bbox):
                continue
            pats = list(mt.tile_patterns)
            desc = {'grid': gc.conf, 'meta_size': ms, 'meta_buffer': buf, 'tile': (tx, ty, l), 'bbox': mt.bbox,
                    'size': mt.size, 'patterns': pats[:20]}
            T.add('meta', '(mkMeta %s %d %d %d, %s, (%s, %s, %s))' % (
                gc.name, ms[0], ms[1], buf, coord_lit((tx, ty, l)), gc.zbbox(mt.bbox), zz(mt.size),
                llit(pats, lambda p: '(%s, %s)' % (olit(p[0], coord_lit), zz(p[1])))), desc)
            ctx.case(('meta', gc.name, ms, buf, tx, ty, l), True, desc if len(ctx.samples) < 3 else None)
            ctx.count('meta:buffer=%s' % ('0' if buf == 0 else 'small' if buf < 50 else 'large'))
            # oracle: each tile is cut out where its bbox lies in the meta tile bbox (exact on the x axis and from the
            # top when the top edge is on the pixel lattice; less than one pixel otherwise)
            r = gc.res[l]
            mb = [frac(v) for v in mt.bbox]
            for coord, off in pats:
                if coord is None:
                    continue
                tr = gc.tile_rect(*coord)
                ex = (tr[0] - mb[0]) / r - off[0]
                ey = (mb[3] - tr[3]) / r - off[1]
                if not (-1 < ex < 1 and -1 < ey < 1):
                    ctx.fail('meta-offset', 'tile %r is cut from the meta tile at %r but lies at %r' % (
                        coord, off, (float((tr[0] - mb[0]) / r), float((mb[3] - tr[3]) / r))), desc)
                    break
            ex_w = (mb[2] - mb[0]) / r - mt.size[0]
            ex_h = (mb[3] - mb[1]) / r - mt.size[1]
            if not (abs(ex_w) <= Fraction(1, 2) and abs(ex_h) <= Fraction(1, 2)):
                ctx.fail('meta-size', 'meta tile size %r does not match its bbox at the level resolution' % (mt.size,), desc)


def pure_lin(ctx, T):
    from mapproxy.srs import make_lin_transf
    from mapproxy.layer import InfoQuery
    rng = ctx.rng
    for _ in range(ctx.n(150, 1500)):
        w, h = rng.choice([(256, 256), (500, 400), (1, 1), (333, 177), (64, 1000)])
        x0, y0 = dy(rng, -1000, 1000), dy(rng, -1000, 1000)
        res = rng.choice([0.125, 0.5, 1.0, 10.0, 2.5, 0.375, 7.0, 0.1])
        a = (x0, y0, x0 + w * res, y0 + h * res * rng.choice([1, 1, 2, 0.5]))
        if rng.random() < 0.5:
            b = (0, 0, w, h)
        else:
            b = (dy(rng, -100, 100), dy(rng, -100, 100), dy(rng, 200, 700), dy(rng, 200, 700))
        if rng.random() < 0.5:
            a, b = b, a
        p = (dy(rng, -200, 1200), dy(rng, -200, 1200))
        if rng.random() < 0.3:
            p = (a[0], a[3]) if rng.random() < 0.5 else (a[2], a[1])
        st, out = call(lambda: make_lin_transf(a, b)(p))
        ctx.case(('lin', a, b, p), True, {'fn': 'make_lin_transf', 'src': a, 'dst': b, 'point': p, 'result': out} if len(ctx.samples) < 4 else None)
        if st != 'ok':
            ctx.fail('lin-raises', 'make_lin_transf raised %r' % (out,), {'src': a, 'dst': b, 'point': p})
            continue
        tol = qtol(*(list(b) + list(out)))
        T.add('lin', '(%s, %s, (%s, %s), (%s, %s), %s)' % (qbb(a), qbb(b), qlit(p[0]), qlit(p[1]), qlit(out[0]), qlit(out[1]), qlit(tol)),
              {'src': a, 'dst': b, 'point': p, 'result': out})
        # oracle: inverse
        st2, back = call(lambda: make_lin_transf(b, a)(out))
        if st2 != 'ok' or abs(back[0] - p[0]) > 1e-6 * (1 + abs(p[0])) or abs(back[1] - p[1]) > 1e-6 * (1 + abs(p[1])):
            ctx.fail('lin-inverse', 'make_lin_transf(b, a)(make_lin_transf(a, b)(p)) = %r for p = %r' % (back, p), {'a': a, 'b': b, 'p': p})
    for _ in range(ctx.n(60, 400)):
        w, h = rng.choice([(256, 256), (500, 400), (1, 1), (333, 177)])
        x0, y0 = dy(rng, -1000, 1000), dy(rng, -1000, 1000)
        res = rng.choice([0.125, 0.5, 1.0, 10.0, 2.5])
        bb = (x0, y0, x0 + w * res, y0 + h * res)
        pos = (rng.randrange(0, w + 1), rng.randrange(0, h + 1))
        q = InfoQuery(bb, (w, h), None, pos, 'text/plain')
        st, c = call(lambda: q.coord)
        if st != 'ok':
            ctx.fail('coord-raises', 'InfoQuery.coord raised %r' % (c,), {'bbox': bb, 'size': (w, h), 'pos': pos})
            continue
        T.add('coord', '(%s, %d, %d, %s, (%s, %s), %s)' % (qbb(bb), w, h, zz(pos), qlit(c[0]), qlit(c[1]), qlit(qtol(*bb))),
              {'bbox': bb, 'size': (w, h), 'pos': pos, 'coord': c})
        ctx.case(('coord', bb, w, h, pos), True)
        want = (frac(bb[0]) + pos[0] * frac(res), frac(bb[3]) - pos[1] * frac(res))
        if abs(frac(c[0]) - want[0]) > frac(res) / 1000 or abs(frac(c[1]) - want[1]) > frac(res) / 1000:
            ctx.fail('coord', 'InfoQuery.coord = %r is not the corner of pixel %r' % (c, pos), {'bbox': bb, 'size': (w, h), 'pos': pos})


def near_int(v, eps=Fraction(1, 10 ** 9)):
    f = Fraction(v)
    return abs(f - round(f)) <= eps and f != round(f)


def pure_subextent(ctx, T):
    from mapproxy.image import bbox_position_in_image
    from mapproxy.srs import make_lin_transf
    rng = ctx.rng
    for _ in range(ctx.n(200, 2000)):
        w, h = rng.choice([(256, 256), (600, 300), (100, 177), (1, 1), (2, 3), (512, 512)])
        res = rng.choice([0.125, 0.5, 1.0, 10.0, 2.5, 0.375, 3.0])
        x0, y0 = dy(rng, -1000, 1000), dy(rng, -1000, 1000)
        bb = (x0, y0, x0 + w * res, y0 + h * res)

        def edge(lo, hi):
            k = rng.choice(['in', 'in', 'out', 'on', 'px'])
            if k == 'in':
                return dy(rng, lo, hi)
            if k == 'out':
                return rng.choice([lo - dy(rng, 0, 50), hi + dy(rng, 0, 50)])
            if k == 'on':
                return rng.choice([lo, hi])
            return lo + rng.randrange(0, max(w, h) + 1) * res   # on the pixel lattice
        sx = sorted([edge(bb[0], bb[2]), edge(bb[0], bb[2])])
        sy = sorted([edge(bb[1], bb[3]), edge(bb[1], bb[3])])
        src = (sx[0], sy[0], sx[1], sy[1])
        st, out = call(bbox_position_in_image, bb, (w, h), src)
        ctx.case(('subextent', bb, w, h, src), True, {'fn': 'bbox_position_in_image', 'bbox': bb, 'size': (w, h), 'src_bbox': src, 'result': out} if len(ctx.samples) < 5 else None)
        if st != 'ok':
            ctx.fail('subextent-raises', 'bbox_position_in_image raised %r' % (out,), {'bbox': bb, 'size': (w, h), 'src_bbox': src})
            continue
        size, offset, sub = out
        # float rounding decides only when a pixel coordinate is within 1e-9 of an integer without being one
        px = make_lin_transf(bb, (0, 0, w, h))
        exact_px = [(frac(src[0]) - frac(bb[0])) * w / (frac(bb[2]) - frac(bb[0])), (frac(bb[3]) - frac(src[1])) * h / (frac(bb[3]) - frac(bb[1])),
                    (frac(src[2]) - frac(bb[0])) * w / (frac(bb[2]) - frac(bb[0])), (frac(bb[3]) - frac(src[3])) * h / (frac(bb[3]) - frac(bb[1]))]
        if any(near_int(v) for v in exact_px):
            ctx.count('subextent:skipped_rounding_sensitive')
            continue
        ctx.count('subextent:' + ('clipped' if tuple(sub) != tuple(bb) else 'inside'))
        T.add('subextent', '(%s, %d, %d, %s, (%s, %s, %s))' % (qbb(bb), w, h, qbb(src), zz(size), zz(offset), qbb(sub)),
              {'bbox': bb, 'size': (w, h), 'src_bbox': src, 'result': out})
        # oracle: the sub image, requested for sub_bbox with `size` pixels and pasted at `offset`, puts every one of its
        # pixel boundaries less than one output pixel away from its true position
        intersects = src[0] < bb[2] and src[2] > bb[0] and src[1] < bb[3] and src[3] > bb[1]
        if not intersects:
            ctx.count('subextent:disjoint(no oracle: callers test intersection first)')
        if intersects and size[0] > 0 and size[1] > 0:
            rx = (frac(bb[2]) - frac(bb[0])) / w
            ry = (frac(bb[3]) - frac(bb[1])) / h
            for k in (0, size[0]):
                true_px = (frac(sub[0]) + (frac(sub[2]) - frac(sub[0])) * k / size[0] - frac(bb[0])) / rx
                if not (0 <= true_px - (offset[0] + k) < 1):
                    ctx.fail('subextent-error', 'column %d of the sub image is pasted %s px from its ground position' % (k, float(true_px - offset[0] - k)),
                             {'bbox': bb, 'size': (w, h), 'src_bbox': src, 'result': out})
                    break
            for k in (0, size[1]):
                true_px = (frac(bb[3]) - (frac(sub[3]) - (frac(sub[3]) - frac(sub[1])) * k / size[1])) / ry
                if not (0 <= true_px - (offset[1] + k) < 1):
                    ctx.fail('subextent-error', 'row %d of the sub image is pasted %s px from its ground position' % (k, float(true_px - offset[1] - k)),
                             {'bbox': bb, 'size': (w, h), 'src_bbox': src, 'result': out})
                    break


def rec_image_class():
    from PIL import Image

    class RecImg(Image.Image):
        def __init__(self, size):
            Image.Image.__init__(self)
            self._size = tuple(size)
            self._mode = 'RGB'
            self.calls = []

        def crop(self, box=None):
            self.calls.append(('crop', tuple(box)))
            return self

        def transform(self, size, method, data=None, resample=0, *a, **kw):
            self.calls.append(('transform', tuple(size), int(method), data))
            return self
    return RecImg


def pure_transform(ctx, T):
    from PIL import Image
    from mapproxy.image import ImageSource
    from mapproxy.image.opts import ImageOptions
    from mapproxy.image.transform import ImageTransformer, divide_quad
    from mapproxy.srs import SRS
    RecImg = rec_image_class()
    rng = ctx.rng
    s1, s2 = SRS(3857), SRS(4326)
    opts = ImageOptions(resampling='nearest')
    for _ in range(ctx.n(250, 2500)):
        sw, sh = rng.choice([(256, 256), (512, 256), (768, 512), (100, 100), (64, 128)])
        res = rng.choice([1.0, 10.0, 0.5, 2.5, 20.0])
        x0, y0 = dy(rng, -1000, 1000), dy(rng, -1000, 1000)
        sb = (x0, y0, x0 + sw * res, y0 + sh * res)
        kind = rng.choice(['same', 'near', 'crop', 'crop', 'scaled', 'scaled', 'othersrs', 'nearres'])
        dw, dh = rng.choice([(256, 256), (200, 100), (sw, sh), (300, 333)])
        if kind in ('same', 'near'):
            dw, dh = sw, sh
            e = 0.0 if kind == 'same' else rng.choice([res / 16, -res / 16, res / 8, res / 4, -res / 8])
            db = (sb[0] + e, sb[1] + rng.choice([0, e]), sb[2] + rng.choice([0, e, -e]), sb[3] + e)
        elif kind == 'crop':
            ox = rng.choice([dy(rng, 0, 100), rng.randrange(0, 50) * res, rng.randrange(0, 50) * res + res / 2])
            oy = rng.choice([dy(rng, 0, 100), rng.randrange(0, 50) * res, rng.randrange(0, 50) * res + res / 2])
            db = (sb[0] + ox, sb[1] + oy, sb[0] + ox + dw * res, sb[1] + oy + dh * res)
        elif kind == 'nearres':
            # resolution next to the 1/10 px over the whole width threshold
            f = rng.choice([1 + 1.0 / (dw * 8), 1 - 1.0 / (dw * 8), 1 + 1.0 / (dw * 16), 1 + 1.0 / 1024, 1 + 1.0 / 4096])
            ox = dy(rng, 0, 100)
            db = (sb[0] + ox, sb[1] + ox, sb[0] + ox + dw * res * f, sb[1] + ox + dh * res * f)
        else:
            f = rng.choice([0.5, 2.0, 1.25, 0.75, 3.0])
            ox, oy = dy(rng, -50, 100), dy(rng, -50, 100)
            db = (sb[0] + ox, sb[1] + oy, sb[0] + ox + dw * res * f, sb[1] + oy + dh * res * f * rng.choice([1, 1, 2]))
        same = kind != 'othersrs'
        img = RecImg((sw, sh))
        src = ImageSource(img, size=(sw, sh), image_opts=opts)
        tr = ImageTransformer(s1, s1 if same else s2)
        if same:
            st, out = call(tr.transform, src, sb, (dw, dh), db, opts)
        else:
            # only the decision is observed: the mesh itself needs PROJ
            st, out = call(tr._no_transformation_needed, (sw, sh), sb, (dw, dh), db)
            out = src if (st == 'ok' and out) else None
        ctx.case(('transform', sb, sw, sh, db, dw, dh, same), True)
        ctx.count('transform:' + kind)
        if st != 'ok':
            ctx.fail('transform-raises', 'ImageTransformer.transform raised %r' % (out,), {'src_bbox': sb, 'src_size': (sw, sh), 'dst_bbox': db, 'dst_size': (dw, dh)})
            continue
        desc = {'src_bbox': sb, 'src_size': (sw, sh), 'dst_bbox': db, 'dst_size': (dw, dh), 'same_srs': same, 'pil_calls': [c[:2] + c[3:] if c[0] == 'transform' else c for c in img.calls]}
        tol = qtol(sw, sh)
        if out is src:
            obs = 'Untouched'
        elif not same:
            obs = 'Mesh'
        elif len(img.calls) == 1 and img.calls[0][0] == 'crop':
            obs = 'Simple (Crop %s %s %s %s)' % tuple(zlit(v) for v in img.calls[0][1])
        elif len(img.calls) == 1 and img.calls[0][0] == 'transform' and img.calls[0][2] == int(Image.EXTENT):
            if tuple(img.calls[0][1]) != (dw, dh):
                ctx.fail('extent-size', 'EXTENT transform to size %r instead of %r' % (img.calls[0][1], (dw, dh)), desc)
            obs = 'Simple (Extent %s %s %s %s)' % tuple(qlit(v) for v in img.calls[0][3])
        else:
            ctx.fail('transform-calls', 'unexpected PIL calls %r' % (img.calls,), desc)
            continue
        # rounding-sensitive decisions (threshold comparisons on inexact quotients) are skipped
        fr = [frac(v) for v in db]
        fs = [frac(v) for v in sb]
        xr, yr = (fr[2] - fr[0]) / dw, (fr[3] - fr[1]) / dh
        sens = False
        for a, b, d in ((fs[0], fr[0], xr / 10), (fs[1], fr[1], xr / 10), (fs[2], fr[2], yr / 10), (fs[3], fr[3], yr / 10)):
            if abs(abs(a - b) - d) <= abs(d) / 10 ** 9:
                sens = True
        sxr, syr = (fs[2] - fs[0]) / sw, (fs[3] - fs[1]) / sh
        for a, b, n in ((sxr, xr, dw), (syr, yr, dh)):
            d = abs(b / (n * 10))
            if abs(abs(a - b) - d) <= d / 10 ** 6:
                sens = True
        if obs.startswith('Simple (Crop'):
            mn = ((fr[0] - fs[0]) / sxr, (fs[3] - fr[3]) / syr)
            if any(near_int(v * 2, Fraction(1, 10 ** 6)) or (v * 2).denominator == 1 and (v * 2) % 2 == 1 and Fraction(float(v)) != v for v in mn):
                sens = True
        if sens:
            ctx.count('transform:skipped_rounding_sensitive')
            continue
        ctx.count('transform=' + obs.split('(')[1].split()[0] if '(' in obs else 'transform=' + obs)
        T.add('transform', '(%s, %d, %d, %s, %d, %d, %s, %s, %s)' % (blit(same), sw, sh, qbb(sb), dw, dh, qbb(db), obs, qlit(tol)), desc)
        # oracle
        if obs == 'Untouched':
            # unresampled only if the rectangles agree within a tenth of an output pixel
            m = max(xr, yr) / 10
            if any(abs(a - b) >= m for a, b in zip(fs, fr)) or (sw, sh) != (dw, dh):
                ctx.fail('untouched-not-equal', 'source image returned untouched although the rectangles differ by >= 1/10 px', desc)
        elif obs.startswith('Simple (Crop'):
            box = img.calls[0][1]
            if (box[2] - box[0], box[3] - box[1]) != (dw, dh):
                ctx.fail('crop-size', 'crop box %r does not have the output size %r' % (box, (dw, dh)), desc)
            # ground position of output pixel column i vs the source column copied into it: <= 0.5 + 0.1 px
            for i in (0, dw):
                e = (fs[0] + (box[0] + i) * sxr) - (fr[0] + i * xr)
                if abs(e) > sxr / 2 + xr / 10:
                    ctx.fail('crop-error', 'crop path misplaces column %d by %s source px' % (i, float(e / sxr)), desc)
                    break
            for j in (0, dh):
                e = (fs[3] - (box[1] + j) * syr) - (fr[3] - j * yr)
                if abs(e) > syr / 2 + yr / 10:
                    ctx.fail('crop-error', 'crop path misplaces row %d by %s source px' % (j, float(e / syr)), desc)
                    break
        elif obs.startswith('Simple (Extent'):
            ext = [frac(v) for v in img.calls[0][3]]
            want = [(fr[0] - fs[0]) / sxr, (fs[3] - fr[3]) / syr, (fr[2] - fs[0]) / sxr, (fs[3] - fr[1]) / syr]
            if any(abs(a - b) > Fraction(1, 1000) for a, b in zip(ext, want)):
                ctx.fail('extent-box', 'EXTENT box %r is not the pre-image %r of the output rectangle' % ([float(v) for v in ext], [float(v) for v in want]), desc)
    # divide_quad
    for _ in range(ctx.n(80, 600)):
        q0, q1 = rng.randrange(0, 300), rng.randrange(0, 300)
        w, h = rng.choice([(500, 500), (2000, 500), (100, 300), (51, 50), (101, 99), (1, 1), (rng.randrange(1, 900), rng.randrange(1, 900))])
        quad = (q0, q1, q0 + w, q1 + h)
        st, out = call(divide_quad, quad)
        ctx.case(('divide_quad', quad), True)
        if st != 'ok':
            ctx.fail('divide-raises', 'divide_quad raised %r' % (out,), {'quad': quad})
            continue
        T.add('divide', '(%s, %s)' % (z4(quad), llit(out, z4)), {'quad': quad, 'result': out})
        area = sum((a[2] - a[0]) * (a[3] - a[1]) for a in out)
        if area != w * h or any(not (quad[0] <= a[0] <= a[2] <= quad[2] and quad[1] <= a[1] <= a[3] <= quad[3]) for a in out):
            ctx.fail('divide-partition', 'divide_quad(%r) = %r does not partition the quad' % (quad, out), {'quad': quad})


class AffineSRS(object):
    """Stand-in for an SRS whose transformation to `other` is the dyadic affine map p -> (ax*x+bx, ay*y+by)."""
    def __init__(self, code, ax=1.0, bx=0.0, ay=1.0, by=0.0):
        self.srs_code = code
        self.ax, self.bx, self.ay, self.by = ax, bx, ay, by

    def transform_to(self, other, p):
        return (self.ax * p[0] + self.bx, self.ay * p[1] + self.by)

    def transform_bbox_to(self, other, b, with_points=16):
        xs = sorted([self.ax * b[0] + self.bx, self.ax * b[2] + self.bx])
        ys = sorted([self.ay * b[1] + self.by, self.ay * b[3] + self.by])
        return (xs[0], ys[0], xs[1], ys[1])

    def align_bbox(self, b):
        return b

    def __eq__(self, other):
        return isinstance(other, AffineSRS) and self.srs_code == other.srs_code

    def __hash__(self):
        return hash(self.srs_code)


class OneSRS(object):
    def __init__(self, srs):
        self.srs = srs

    def __contains__(self, s):
        return s == self.srs

    def best_srs(self, s):
        return self.srs

    def __iter__(self):
        return iter([self.srs])


def pure_info(ctx, T):
    from mapproxy.client.wms import WMSInfoClient
    from mapproxy.layer import InfoQuery
    from mapproxy.request.wms import WMS111FeatureInfoRequest
    rng = ctx.rng
    for _ in range(ctx.n(150, 1500)):
        ax = rng.choice([1.0, 2.0, 0.5, 0.25, 8.0])
        ay = rng.choice([ax, ax, ax * 2, ax / 2])
        bx, by = dy(rng, -500, 500), dy(rng, -500, 500)
        req_srs = AffineSRS('X:1', ax, bx, ay, by)
        info_srs = AffineSRS('X:2')
        w, h = rng.choice([(256, 256), (500, 400), (333, 177), (64, 200), (1, 1)])
        res = rng.choice([0.125, 0.5, 1.0, 10.0, 2.5])
        x0, y0 = dy(rng, -1000, 1000), dy(rng, -1000, 1000)
        yres = res * rng.choice([1, 1, 2, 0.5, 0.25, 3])      # WMS allows non-square pixels
        bb = (x0, y0, x0 + w * res, y0 + h * yres)
        pos = (rng.randrange(0, w), rng.randrange(0, h))
        q = InfoQuery(bb, (w, h), req_srs, pos, 'text/plain')
        cl = WMSInfoClient(WMS111FeatureInfoRequest(url='http://up/?', param={'layers': 'a'}), supported_srs=OneSRS(info_srs))
        st, out = call(cl._get_transformed_query, q)
        ctx.case(('info', bb, w, h, pos, ax, ay, bx, by), True,
                 {'fn': '_get_transformed_query', 'bbox': bb, 'size': (w, h), 'pos': pos, 'T': (ax, bx, ay, by),
                  'result': (out.bbox, out.size, out.pos) if st == 'ok' else out} if len(ctx.samples) < 6 else None)
        if st != 'ok':
            ctx.fail('info-raises', '_get_transformed_query raised %r' % (out,), {'bbox': bb, 'size': (w, h), 'pos': pos})
            continue
        desc = {'bbox': bb, 'size': (w, h), 'pos': pos, 'T': (ax, bx, ay, by), 'info_bbox': out.bbox, 'info_size': out.size, 'info_pos': out.pos}
        # oracle: the upstream pixel (corner) denotes a ground point within half an upstream pixel of T(coord)
        ib = [frac(v) for v in out.bbox]
        iw, ih = out.size
        if iw <= 0 or ih <= 0:
            ctx.count('info:degenerate_size')
            continue
        c = (frac(bb[0]) + pos[0] * frac(res), frac(bb[3]) - pos[1] * frac(yres))
        ctx.count('info:' + ('square_pixels' if yres == res else 'non_square_pixels'))
        tc = (frac(ax) * c[0] + frac(bx), frac(ay) * c[1] + frac(by))
        rx, ry = (ib[2] - ib[0]) / iw, (ib[3] - ib[1]) / ih
        up = (ib[0] + out.pos[0] * rx, ib[3] - out.pos[1] * ry)
        if abs(up[0] - tc[0]) > rx / 2 + rx / 10 ** 6 or abs(up[1] - tc[1]) > ry / 2 + ry / 10 ** 6:
            ctx.fail('info-point', 'feature info forwarded for %r, clicked ground point is %r (upstream pixel %r x %r)' % (
                (float(up[0]), float(up[1])), (float(tc[0]), float(tc[1])), float(rx), float(ry)), desc)
        # rounding-sensitive: pixel position within 1e-9 of a half integer, aspect*width near an integer
        px = ((tc[0] - ib[0]) / rx, (ib[3] - tc[1]) / ry)
        ar = (ib[3] - ib[1]) / (ib[2] - ib[0]) * w
        if any(near_int(v * 2) for v in px) or near_int(ar) or Fraction((out.bbox[3] - out.bbox[1]) / (out.bbox[2] - out.bbox[0])) * w != ar and ar.denominator == 1:
            ctx.count('info:skipped_rounding_sensitive')
            continue
        if any((v * 2).denominator == 1 and (v * 2) % 2 == 1 for v in px):
            ctx.count('info:exact_half_pixel')
        T.add('info', '(%s, %s, %s, %s, %s, %d, %d, %s, (%s, %s, %s))' % (
            qlit(ax), qlit(bx), qlit(ay), qlit(by), qbb(bb), w, h, zz(pos), qbb(out.bbox), zz(out.size), zz(out.pos)), desc)


def pure_axis(ctx, T):
    from mapproxy.request.wms import (WMS100MapRequest, WMS110MapRequest, WMS111MapRequest, WMS130MapRequest,
                                      WMS111FeatureInfoRequest, WMS130FeatureInfoRequest)
    from mapproxy.srs import SRS
    from urllib.parse import parse_qsl
    rng = ctx.rng
    V = {'V100': WMS100MapRequest, 'V110': WMS110MapRequest, 'V111': WMS111MapRequest, 'V130': WMS130MapRequest,
         'F111': WMS111FeatureInfoRequest, 'F130': WMS130FeatureInfoRequest}
    codes = ['EPSG:4326', 'EPSG:3857', 'EPSG:900913', 'CRS:84', 'EPSG:31467', 'EPSG:25832', 'EPSG:4258', 'EPSG:3035', 'EPSG:31468']
    for _ in range(ctx.n(80, 400)):
        cvn, uvn = rng.choice(list(V)), rng.choice(list(V))
        code = rng.choice(codes)
        st, ne = call(lambda: bool(SRS(code).is_axis_order_ne))
        if st != 'ok':
            continue
        wire = (dy(rng, -90, 0), dy(rng, -180, -100), dy(rng, 1, 90), dy(rng, 100, 180))
        if rng.random() < 0.6:
            # full double precision (deep zoom levels of geographic grids need all of it): the text written into the
            # request must denote exactly the double that was given
            x0, y0 = rng.uniform(-80, 0), rng.uniform(-170, -100)
            d = rng.choice([1e-7, 3e-6, 1e-3, 1.0]) * rng.uniform(1, 9)
            wire = (x0, y0, x0 + d * 256, y0 + d * 256)
        srs_key_c = 'crs' if cvn.endswith('130') else 'srs'
        vparam = {'V100': ('wmtver', '1.0.0'), 'V110': ('version', '1.1.0')}.get(cvn, ('version', '1.3.0' if cvn.endswith('130') else '1.1.1'))
        param = {'bbox': ','.join(str(v) for v in wire), srs_key_c: code, 'layers': 'a', 'width': '10', 'height': '10',
                 'format': 'image/png', 'styles': '', vparam[0]: vparam[1], 'request': 'GetMap'}
        st, creq = call(lambda: V[cvn](param=param, url='http://c/?'))
        if st != 'ok':
            ctx.fail('axis-raises', 'request class %s raised %r' % (cvn, creq), {'param': param})
            continue
        internal = creq.params.bbox
        # upstream request built the way WMSClient._query_req does
        def build():
            req = V[uvn](url='http://up/service?', param={'layers': 'x'})
            req.params.bbox = internal
            req.params.size = (10, 10)
            req.params.srs = code
            req.params.format = 'image/png'
            return req.complete_url
        st, url = call(build)
        if st != 'ok':
            ctx.fail('axis-raises', 'building the upstream request (%s) raised %r' % (uvn, url), {'internal': internal, 'srs': code})
            continue
        args = dict((k.lower(), v) for k, v in parse_qsl(url.split('?', 1)[1], keep_blank_values=True))
        up = tuple(float(v) for v in args['bbox'].split(','))
        up_code = args.get('crs') or args.get('srs')
        cv = 'V130' if cvn.endswith('130') else 'V111' if cvn.startswith('F') else cvn
        uv = 'V130' if uvn.endswith('130') else 'V111' if uvn.startswith('F') else uvn
        desc = {'client': cvn, 'upstream': uvn, 'srs': code, 'axis_order_ne': ne, 'client_bbox': wire, 'internal_bbox': internal, 'upstream_bbox': up}
        T.add('axis', '(%s, %s, %s, %s, %s, %s)' % (cv, uv, blit(ne), qbb(wire), qbb(internal), qbb(up)), desc)
        ctx.case(('axis', cvn, uvn, code, wire), True, desc if len(ctx.samples) < 6 else None)
        ctx.count('axis:%s->%s,%s' % (cv, uv, 'ne' if ne else 'en'))
        # oracle (OGC): 1.3.0 + NE srs means lat/lon order on the wire
        def rect(v, b):
            return (b[1], b[0], b[3], b[2]) if (v == 'V130' and ne) else tuple(b)
        if rect(cv, wire) != tuple(internal):
            ctx.fail('axis-internal', 'client bbox %r (%s, %s) is held internally as %r' % (wire, cvn, code, internal), desc)
        if rect(uv, up) != rect(cv, wire) or up_code != code:
            ctx.fail('axis-upstream', 'client bbox %r (%s) is sent upstream as %r (%s), SRS %s' % (wire, cvn, up, uvn, code), desc)


def pure_mesh(ctx, T):
    """transform_meshes with PROJ replaced by a dyadic affine map (exact in floats): for an affine map the centre test of
    is_good has error 0, so exactly one mesh (the whole image) comes back; its eight source coordinates are compared
    with dst_quad_to_src; oracle: each corner is the source pixel position of T(ground point of the corner)"""
    from mapproxy.image.transform import transform_meshes
    rng = ctx.rng
    for _ in range(ctx.n(60, 400)):
        ax = rng.choice([1.0, 2.0, 0.5, 0.25, 4.0])
        ay = rng.choice([ax, ax * 2, ax / 2])
        bx, by = dy(rng, -500, 500), dy(rng, -500, 500)
        dst_srs = AffineSRS('X:1', ax, bx, ay, by)      # T = dst_srs.transform_to(src_srs, .)
        src_srs = AffineSRS('X:2', 1 / ax, -bx / ax, 1 / ay, -by / ay)
        dw, dh = rng.choice([(256, 256), (100, 300), (512, 200), (49, 49)])
        sw, sh = rng.choice([(256, 256), (512, 512), (300, 100)])
        dres = rng.choice([0.5, 1.0, 4.0, 10.0])
        dx0, dy0 = dy(rng, -1000, 1000), dy(rng, -1000, 1000)
        db = (dx0, dy0, dx0 + dw * dres, dy0 + dh * dres)
        # the source image covers the transformed rectangle with some margin
        c0 = dst_srs.transform_to(src_srs, (db[0], db[1]))
        c1 = dst_srs.transform_to(src_srs, (db[2], db[3]))
        m = rng.choice([0.0, 8.0, 64.0])
        sb = (c0[0] - m, c0[1] - m, c1[0] + m * 2, c1[1] + m)
        center = rng.choice([False, True])
        st, meshes = call(lambda: transform_meshes((sw, sh), sb, src_srs, (dw, dh), db, dst_srs, max_px_err=1, use_center_px=center))
        ctx.case(('mesh', sb, sw, sh, db, dw, dh, ax, ay, bx, by, center), True,
                 {'fn': 'transform_meshes', 'src_bbox': sb, 'src_size': (sw, sh), 'dst_bbox': db, 'dst_size': (dw, dh),
                  'T': (ax, bx, ay, by), 'meshes': meshes if st == 'ok' else meshes} if len(ctx.samples) < 6 else None)
        desc = {'src_bbox': sb, 'src_size': (sw, sh), 'dst_bbox': db, 'dst_size': (dw, dh), 'T': (ax, bx, ay, by), 'use_center_px': center,
                'meshes': meshes[:4] if st == 'ok' else meshes}
        if st != 'ok':
            ctx.fail('mesh-raises', 'transform_meshes raised %r' % (meshes,), desc)
            continue
        if len(meshes) != 1 or tuple(meshes[0][0]) != (0, 0, dw, dh):
            ctx.fail('mesh-not-single', 'an affine transformation needs one quad, got %d: %r' % (len(meshes), [q for q, _ in meshes][:5]), desc)
            continue
        quad, src_quad = meshes[0]
        off = 0.5 if center else 0.0
        srx, sry = (frac(sb[2]) - frac(sb[0])) / sw, (frac(sb[3]) - frac(sb[1])) / sh
        corners = [(0, 0), (0, dh), (dw, dh), (dw, 0)]
        for n, (i, j) in enumerate(corners):
            gx = frac(db[0]) + (i + frac(off)) * frac(dres)
            gy = frac(db[3]) - (j + frac(off)) * frac(dres)
            tx, ty = frac(ax) * gx + frac(bx), frac(ay) * gy + frac(by)
            want = ((tx - frac(sb[0])) / srx, (frac(sb[3]) - ty) / sry)
            got = (frac(src_quad[2 * n]), frac(src_quad[2 * n + 1]))
            if abs(got[0] - want[0]) > Fraction(1, 10 ** 6) or abs(got[1] - want[1]) > Fraction(1, 10 ** 6):
                ctx.fail('mesh-corner', 'mesh corner %r is mapped to source pixel %r, T(corner) lies at %r' % (
                    (i, j), (float(got[0]), float(got[1])), (float(want[0]), float(want[1]))), desc)
                break
        tol = qtol(sw, sh, *src_quad)
        T.add('mesh', '(%s, %s, %s, %s, %s, %d, %d, %s, %d, %d, %s, %s, %s)' % (
            qlit(ax), qlit(bx), qlit(ay), qlit(by), qbb(sb), sw, sh, qbb(db), dw, dh, qlit(off),
            llit([(src_quad[2 * n], src_quad[2 * n + 1]) for n in range(4)], lambda p: '(%s, %s)' % (qlit(p[0]), qlit(p[1]))), qlit(tol)), desc)


class PolySRS(object):
    """Stand-in SRS: transformation to the other SRS is p -> (x + s*a*y^3, y) (s = +1 / -1): non-linear, odd in y like
    the mercator projection (no error at the centre of a quad that is symmetric about y = 0), exact inverse"""
    def __init__(self, code, a, sign):
        self.srs_code, self.a, self.sign = code, a, sign

    def transform_to(self, other, p):
        return (p[0] + self.sign * self.a * p[1] * p[1] * p[1], p[1])

    def align_bbox(self, b):
        return b

    def __eq__(self, other):
        return isinstance(other, PolySRS) and self.srs_code == other.srs_code

    def __hash__(self):
        return hash(self.srs_code)


def pure_mesh_recursion(ctx, T):
    """transform_meshes with a non-linear stand-in transformation (x + a*y^3, y): the recursion (is_good with its 50 px
    floor and its check points, divide_quad) against the model transform_meshes; oracle: the quads partition the image"""
    from mapproxy.image.transform import transform_meshes
    rng = ctx.rng
    for _ in range(ctx.n(16, 100)):
        a = rng.choice([2.0 ** -18, 2.0 ** -19, 2.0 ** -20, 2.0 ** -21, 2.0 ** -24])
        dst_srs = PolySRS('P:1', a, +1)     # T = dst -> src
        src_srs = PolySRS('P:2', a, -1)
        dw, dh = rng.choice([(400, 300), (256, 256), (600, 200), (120, 500), (99, 400), (800, 600)])
        dres = rng.choice([1.0, 0.5, 2.0])
        y0 = rng.choice([0.0, -float(dh) * dres / 2, 64.0, -float(dh) * dres])
        x0 = dy(rng, -200, 200)
        db = (x0, y0, x0 + dw * dres, y0 + dh * dres)
        ymax = max(abs(db[1]), abs(db[3]))
        sres = rng.choice([1.0, 0.5]) * dres
        sx0 = math.floor(db[0] - 64)
        sx0 = math.floor(db[0] - a * ymax ** 3 - 64)
        sx1 = math.ceil(db[2] + a * ymax ** 3 + 64)
        sw, sh = int((sx1 - sx0) / sres), int((dh * dres + 128) / sres)
        sb = (float(sx0), db[1] - 64, float(sx0) + sw * sres, db[1] - 64 + sh * sres)
        center = rng.choice([False, True])
        st, meshes = call(lambda: transform_meshes((sw, sh), sb, src_srs, (dw, dh), db, dst_srs, max_px_err=1, use_center_px=center))
        desc = {'a': a, 'src_bbox': sb, 'src_size': (sw, sh), 'dst_bbox': db, 'dst_size': (dw, dh), 'use_center_px': center,
                'quads': [tuple(q) for q, _ in meshes][:40] if st == 'ok' else meshes}
        ctx.case(('meshrec', a, sb, sw, sh, db, dw, dh, center), True, desc if len(ctx.samples) < 6 else None)
        if st != 'ok':
            ctx.fail('mesh-raises', 'transform_meshes raised %r' % (meshes,), desc)
            continue
        ctx.count('mesh_recursion:quads=%s' % ('1' if len(meshes) == 1 else '2-16' if len(meshes) <= 16 else '>16'))
        # oracle: the quads partition the output image
        area = sum((q[2] - q[0]) * (q[3] - q[1]) for q, _ in meshes)
        if area != dw * dh or any(not (0 <= q[0] < q[2] <= dw and 0 <= q[1] < q[3] <= dh) for q, _ in meshes):
            ctx.fail('mesh-not-partition', 'the mesh quads do not partition the %dx%d image' % (dw, dh), desc)
            continue
        if len(meshes) > 120:
            continue
        off = 0.5 if center else 0.0
        tol = qtol(sw, sh)
        obs = llit(meshes, lambda m: '(%s, %s)' % (z4(m[0]), llit([(m[1][2 * n], m[1][2 * n + 1]) for n in range(4)],
                                                                   lambda p: '(%s, %s)' % (qlit(p[0]), qlit(p[1])))))
        T.add('meshrec', '(%s, %s, %d, %d, %s, %d, %d, %s, %s, %s)' % (qlit(a), qbb(sb), sw, sh, qbb(db), dw, dh, qlit(off), obs, qlit(tol)), desc)


MESH_SINGLE = 'mesh-single-quad-symmetric'
MESH_FLOOR = 'mesh-50px-floor'


def mesh_deviation(meshes, src_code, src_bbox, src_size, dst_code, dst_bbox, dst_size, n=9):
    """largest deviation, in output pixels, of PIL's quad mapping (bilinear between the four corners of each mesh quad)
    from the true transformation (pyproj), sampled on an n x n lattice of every quad -> (error, offending quad)"""
    import numpy as np
    import pyproj
    to_dst = pyproj.Transformer.from_crs(src_code, dst_code, always_xy=True)
    rx = (dst_bbox[2] - dst_bbox[0]) / dst_size[0]
    ry = (dst_bbox[3] - dst_bbox[1]) / dst_size[1]
    sx = (src_bbox[2] - src_bbox[0]) / src_size[0]
    sy = (src_bbox[3] - src_bbox[1]) / src_size[1]
    A, B = np.meshgrid(np.linspace(0, 1, n), np.linspace(0, 1, n))
    worst, where = 0.0, None
    for quad, sq in meshes:
        w, h = quad[2] - quad[0], quad[3] - quad[1]
        nw, sw_, se, ne = sq[0:2], sq[2:4], sq[4:6], sq[6:8]
        px = nw[0] + (ne[0] - nw[0]) * A + (sw_[0] - nw[0]) * B + (se[0] - sw_[0] - ne[0] + nw[0]) * A * B
        py = nw[1] + (ne[1] - nw[1]) * A + (sw_[1] - nw[1]) * B + (se[1] - sw_[1] - ne[1] + nw[1]) * A * B
        dx, dy_ = to_dst.transform(src_bbox[0] + px * sx, src_bbox[3] - py * sy)
        ox = dst_bbox[0] + (quad[0] + A * w) * rx
        oy = dst_bbox[3] - (quad[1] + B * h) * ry
        e = np.maximum(np.abs(dx - ox) / rx, np.abs(dy_ - oy) / ry)
        e = np.where(np.isfinite(e), e, 0.0)
        if float(e.max()) > worst:
            worst, where = float(e.max()), tuple(quad)
    return worst, where


def pure_mesh_error(ctx, T):
    """transform_meshes with the real PROJ: the affine approximation inside every quad stays within the 1.5 output
    pixels of the property (max_px_err = 1 by design) - continental extents up to latitude 78, whole-world extents
    symmetric about the equator, and sequences of two street-level requests panned by a few pixels"""
    import pyproj
    from mapproxy.image.transform import transform_meshes
    from mapproxy.srs import SRS
    rng = ctx.rng
    cases = []
    for _ in range(ctx.n(10, 60)):
        kind = rng.choice(['continent-4326-from-3857', 'continent-4326-from-3857', 'continent-3857-from-4326', 'utm-from-4326', 'regional'])
        if kind == 'regional':
            lon, lat, wdeg = rng.uniform(-20, 30), rng.uniform(35, 60), rng.uniform(1, 8)
            db, size = (lon, lat, lon + wdeg * 1.5, lat + wdeg), rng.choice([(900, 600), (600, 400)])
            cases.append((kind, 'EPSG:3857', 'EPSG:4326', db, size))
        elif kind == 'continent-4326-from-3857':
            lon, lat0 = rng.uniform(-30, 10), rng.uniform(30, 52)
            lat1 = rng.uniform(70, 78)
            wdeg = rng.uniform(35, 60)
            w = rng.choice([640, 800, 1000])
            db = (lon, lat0, lon + wdeg, lat1)
            cases.append((kind, 'EPSG:3857', 'EPSG:4326', db, (w, int(w * (lat1 - lat0) / wdeg))))
        elif kind == 'continent-3857-from-4326':
            x0, y0 = rng.uniform(-3e6, 1e6), rng.uniform(4e6, 7e6)
            wm = rng.uniform(3e6, 6e6)
            h = rng.uniform(0.6, 0.9)
            w = rng.choice([640, 800, 1000])
            cases.append((kind, 'EPSG:4326', 'EPSG:3857', (x0, y0, x0 + wm, min(y0 + wm * h, 1.4e7)), (w, int(w * h))))
        else:
            x0, y0 = rng.uniform(100000, 400000), rng.uniform(4.5e6, 5.5e6)
            wm = rng.uniform(3e5, 9e5)
            cases.append((kind, 'EPSG:4326', 'EPSG:25832', (x0, y0, x0 + wm, y0 + wm * 1.5), (600, 900)))
    for L, size in [(85, (512, 256)), (80, (800, 400)), (60, (600, 200)), (70, (1024, 512))][:ctx.n(3, 4)]:
        cases.append(('world-symmetric', 'EPSG:3857', 'EPSG:4326', (-180.0, -float(L), 180.0, float(L)), size))
    m = 20037508.342789244
    cases.append(('world-symmetric', 'EPSG:4326', 'EPSG:3857', (-m, -1.5e7, m, 1.5e7), (800, 600)))
    # street level, geographic output: two requests panned by a few pixels (history)
    for _ in range(ctx.n(3, 12)):
        # both bboxes agree to four decimals (the pan is smaller than 1e-4 degree and does not cross a multiple of 5e-5)
        lon, lat = round(rng.uniform(-10, 30), 4) + 1e-5, round(rng.uniform(40, 60), 4) + 1e-5
        rdeg = rng.choice([7, 26]) * 1e-4 / 256
        size = (256, 256)
        db = (lon, lat, lon + size[0] * rdeg, lat + size[1] * rdeg)
        pan = 3e-5
        cases.append(('pan-first', 'EPSG:3857', 'EPSG:4326', db, size))
        cases.append(('pan-second', 'EPSG:3857', 'EPSG:4326', (db[0] + pan, db[1] + pan / 2, db[2] + pan, db[3] + pan / 2), size))
    src_fixed = None
    for kind, src_code, dst_code, db, size in cases:
        s_, d_ = SRS(src_code), SRS(dst_code)
        st, sb = call(d_.transform_bbox_to, s_, db)
        if st != 'ok':
            continue
        if kind == 'pan-first':
            # the mosaic of tiles both requests are cut from
            pad = (sb[2] - sb[0]) * 0.5
            src_fixed = (sb[0] - pad, sb[1] - pad, sb[2] + pad, sb[3] + pad)
        if kind.startswith('pan'):
            sb = src_fixed
        res = min((sb[2] - sb[0]) / size[0], (sb[3] - sb[1]) / size[1]) * (0.5 if kind.startswith('pan') else 1.0)
        ssize = (max(1, int(round((sb[2] - sb[0]) / res))), max(1, int(round((sb[3] - sb[1]) / res))))
        st, meshes = call(lambda: transform_meshes(ssize, sb, s_, size, db, d_))
        desc = {'kind': kind, 'src_srs': src_code, 'src_bbox': sb, 'src_size': ssize, 'dst_srs': dst_code, 'dst_bbox': db, 'dst_size': size}
        ctx.case(('mesherr', kind, src_code, dst_code, db, size), True, dict(desc, quads=len(meshes) if st == 'ok' else meshes) if len(ctx.samples) < 6 else None)
        ctx.count('mesh_error:' + kind)
        if st != 'ok':
            ctx.fail('mesh-raises', 'transform_meshes raised %r' % (meshes,), desc)
            continue
        meshes = list(meshes)
        worst, quad = mesh_deviation(meshes, src_code, sb, ssize, dst_code, db, size)
        key = 'mesh_error:worst_px_x1000:' + kind
        ctx.distribution[key] = max(ctx.distribution.get(key, 0), int(worst * 1000))
        if worst > 1.5:
            desc.update({'quads': len(meshes), 'worst_error_px': worst, 'offending_quad': quad})
            if kind == 'world-symmetric' and len(meshes) == 1:
                sig = MESH_SINGLE
            elif min(quad[2] - quad[0], quad[3] - quad[1]) < 50:
                sig = MESH_FLOOR
            else:
                sig = 'mesh-quad-error'
            ctx.fail(sig, 'reprojection mesh %s -> %s for %r, %r px: inside quad %r (of %d quads) the picture is up to %.1f output pixels away from '
                     'the true position' % (src_code, dst_code, db, size, quad, len(meshes), worst), desc)


def pure_srs(ctx, T):
    """The external transformation T of the theorems is PROJ: SRS.transform_to / transform_bbox_to must give what pyproj
    gives for the same pair of CRS (projected, geographic, geographic on another datum), for points and point lists."""
    import pyproj
    from mapproxy.srs import SRS
    rng = ctx.rng
    codes = ['EPSG:4326', 'EPSG:3857', 'EPSG:4314', 'EPSG:4230', 'EPSG:4258', 'EPSG:25832', 'EPSG:31467', 'CRS:84', 'EPSG:900913',
             # codes of other authorities (history: several of them as targets of the same source SRS object, one after the other)
             'ESRI:102014', 'ESRI:102013', 'ESRI:54009', 'IGNF:ETRS89UTM28', 'ESRI:102014', 'ESRI:102013']
    trans = {}
    for _ in range(ctx.n(150, 800)):
        a, b = rng.choice(codes), rng.choice(codes)
        lon, lat = rng.uniform(6, 14), rng.uniform(47, 55)

        def crs(c):
            return {'CRS:84': 'EPSG:4326', 'EPSG:900913': 'EPSG:3857'}.get(c, c)
        for k in ((a, b), ('EPSG:4326', a)):
            if k not in trans:
                trans[k] = pyproj.Transformer.from_crs(crs(k[0]), crs(k[1]), always_xy=True)
        p = trans[('EPSG:4326', a)].transform(lon, lat)
        want = trans[(a, b)].transform(*p)
        st, got = call(lambda: SRS(a).transform_to(SRS(b), p))
        st2, got2 = call(lambda: list(SRS(a).transform_to(SRS(b), [p, p]))[1])
        d = 1e-6 * rng.choice([1, 100, 10000])
        bb = (p[0], p[1], p[0] + d * max(1.0, abs(p[0])), p[1] + d * max(1.0, abs(p[1])))
        st3, gotb = call(lambda: SRS(a).transform_bbox_to(SRS(b), bb))
        ctx.case(('srs', a, b, p), a != b, {'fn': 'SRS.transform_to', 'from': a, 'to': b, 'point': p, 'result': got} if len(ctx.samples) < 6 else None)
        ctx.count('srs:%s' % ('same' if a == b else 'geographic-geographic' if SRS(a).is_latlong and SRS(b).is_latlong else
                              'to-non-epsg-code' if not b.startswith('EPSG') else 'other'))
        desc = {'from': a, 'to': b, 'point': p, 'mapproxy': got, 'pyproj': want}
        if st != 'ok' or st2 != 'ok' or st3 != 'ok':
            ctx.fail('srs-raises', 'SRS(%s).transform_to(%s) raised %r %r %r' % (a, b, got, got2, gotb), desc)
            continue
        tol = 1e-9 * max(1.0, abs(want[0]), abs(want[1]))
        if any(abs(g[0] - want[0]) > tol or abs(g[1] - want[1]) > tol for g in (got, got2)):
            ctx.fail('srs-transform', 'SRS(%s).transform_to(SRS(%s), %r) = %r, PROJ gives %r' % (a, b, p, got, want), desc)
            continue
        corners = [trans[(a, b)].transform(x, y) for x in (bb[0], bb[2]) for y in (bb[1], bb[3])]
        wb = (min(c[0] for c in corners), min(c[1] for c in corners), max(c[0] for c in corners), max(c[1] for c in corners))
        ext = max(wb[2] - wb[0], wb[3] - wb[1])
        if any(abs(g - w) > 0.02 * ext + tol for g, w in zip(gotb, wb)):
            ctx.fail('srs-transform', 'SRS(%s).transform_bbox_to(SRS(%s), %r) = %r, the transformed corners span %r' % (a, b, bb, gotb, wb), desc)


def pure_client(ctx, T):
    """WMSClient._query_req / WMSInfoClient._query_url: the request built for one query is not changed by building
    the request for the next one (the client object of a source is shared by all requests and threads), and it carries
    exactly the bbox / size / srs of the query"""
    from urllib.parse import parse_qsl
    from mapproxy.client.wms import WMSClient
    from mapproxy.layer import MapQuery
    from mapproxy.request.wms import WMS111MapRequest, WMS130MapRequest
    from mapproxy.srs import SRS
    rng = ctx.rng
    for _ in range(ctx.n(30, 150)):
        cls = rng.choice([WMS111MapRequest, WMS130MapRequest])
        code = rng.choice(['EPSG:3857', 'EPSG:4326', 'EPSG:25832'])
        client = WMSClient(cls(url='http://up/service?', param={'layers': 'a'}))
        qs = []
        for k in range(2):
            x0, y0 = rng.uniform(-80, 80), rng.uniform(-80, 80)
            d = rng.choice([1e-7, 1e-3, 1.0, 100.0]) * rng.uniform(1, 9)
            size = rng.choice([(256, 256), (512, 300), (100, 700)])
            qs.append(MapQuery((x0, y0, x0 + d * size[0], y0 + d * size[1]), size, SRS(code), 'png'))
        st, reqs = call(lambda: [client._query_req(q, 'image/png') for q in qs])
        ctx.case(('client', cls.__name__, code, qs[0].bbox, qs[1].bbox), True)
        if st != 'ok':
            ctx.fail('client-raises', 'WMSClient._query_req raised %r' % (reqs,), {'bbox': qs[0].bbox})
            continue
        ne = bool(SRS(code).is_axis_order_ne) and cls is WMS130MapRequest
        for q, req in zip(qs, reqs):
            args = dict((k.lower(), v) for k, v in parse_qsl(req.complete_url.split('?', 1)[1], keep_blank_values=True))
            b = tuple(float(v) for v in args['bbox'].split(','))
            if ne:
                b = (b[1], b[0], b[3], b[2])
            desc = {'request_class': cls.__name__, 'srs': code, 'queries': [(x.bbox, x.size) for x in qs], 'url': req.complete_url}
            if b != tuple(q.bbox) or (int(args['width']), int(args['height'])) != tuple(q.size):
                ctx.fail('client-request-not-for-query', 'the upstream request built for bbox %r size %r carries bbox %r size %sx%s '
                         '(after the request for the next query was built): requests share state' % (q.bbox, q.size, b, args['width'], args['height']), desc)
                break
        tmpl = client.request_template.params
        if tmpl.get('bbox') is not None or 'width' in tmpl:
            ctx.fail('client-template-modified', 'WMSClient wrote the bbox / size of a query into its shared request template',
                     {'request_class': cls.__name__, 'template': dict(tmpl.iteritems())})


def pure_info_pos(ctx, T):
    """pixel position of GetFeatureInfo through the request classes of all versions (X/Y vs I/J), NE and EN SRS"""
    from mapproxy.request.wms import (WMS100FeatureInfoRequest, WMS110FeatureInfoRequest, WMS111FeatureInfoRequest,
                                      WMS130FeatureInfoRequest)
    from mapproxy.srs import SRS
    from urllib.parse import parse_qsl
    rng = ctx.rng
    V = {'V100': WMS100FeatureInfoRequest, 'V110': WMS110FeatureInfoRequest, 'V111': WMS111FeatureInfoRequest,
         'V130': WMS130FeatureInfoRequest}
    codes = ['EPSG:4326', 'EPSG:3857', 'CRS:84', 'EPSG:31467', 'EPSG:25832', 'EPSG:4258']
    combos = [(c, u, code) for c in sorted(V) for u in sorted(V) for code in codes]
    rng.shuffle(combos)
    for cv, uv, code in combos[:ctx.n(96, 96)]:
        ne = bool(SRS(code).is_axis_order_ne)
        pos = (rng.randrange(0, 500), rng.randrange(0, 500))
        while pos[0] == pos[1]:
            pos = (rng.randrange(0, 500), rng.randrange(0, 500))
        wire = (dy(rng, -90, 0), dy(rng, -180, -100), dy(rng, 1, 90), dy(rng, 100, 180))
        pk = ('i', 'j') if cv == 'V130' else ('x', 'y')
        vparam = {'V100': ('wmtver', '1.0.0'), 'V110': ('version', '1.1.0'), 'V111': ('version', '1.1.1'), 'V130': ('version', '1.3.0')}[cv]
        param = {'bbox': ','.join(str(v) for v in wire), ('crs' if cv == 'V130' else 'srs'): code, 'layers': 'a', 'query_layers': 'a',
                 'width': '500', 'height': '500', 'format': 'image/png', 'styles': '', vparam[0]: vparam[1],
                 'request': 'feature_info' if cv == 'V100' else 'GetFeatureInfo', pk[0]: str(pos[0]), pk[1]: str(pos[1])}
        st, creq = call(lambda: V[cv](param=param, url='http://c/?'))
        if st != 'ok':
            ctx.fail('infopos-raises', 'request class %s raised %r' % (cv, creq), {'param': param})
            continue
        st, internal = call(lambda: creq.params.pos)
        internal_bbox = creq.params.bbox

        def build():
            # the way WMSInfoClient._query_url fills the request template
            req = V[uv](url='http://up/service?', param={'layers': 'x'})
            req.params.bbox = internal_bbox
            req.params.size = (500, 500)
            req.params.pos = internal
            req.params['query_layers'] = 'x'
            req.params.format = 'image/png'
            req.params.srs = code
            return req.complete_url
        st2, url = call(build)
        if st != 'ok' or st2 != 'ok':
            ctx.fail('infopos-raises', 'feature info request %s -> %s raised %r / %r' % (cv, uv, internal, url), {'param': param})
            continue
        args = dict((k.lower(), v) for k, v in parse_qsl(url.split('?', 1)[1], keep_blank_values=True))
        keys = ('i', 'j') if uv == 'V130' else ('x', 'y')
        other = ('x', 'y') if uv == 'V130' else ('i', 'j')
        desc = {'client': cv, 'upstream': uv, 'srs': code, 'axis_order_ne': ne, 'client_pos': pos, 'internal_pos': internal, 'upstream_url': url}
        if keys[0] not in args or keys[1] not in args or other[0] in args or other[1] in args:
            ctx.fail('infopos-params', 'upstream %s feature info request carries the wrong position parameters: %s' % (uv, url), desc)
            continue
        up_pos = (int(args[keys[0]]), int(args[keys[1]]))
        T.add('infopos', '(%s, %s, %s, %s, %s, %s)' % (cv, uv, blit(ne), zz(pos), zz(internal), zz(up_pos)), desc)
        ctx.case(('infopos', cv, uv, code, pos), True, desc if len(ctx.samples) < 6 else None)
        ctx.count('infopos:%s->%s,%s' % (cv, uv, 'ne' if ne else 'en'))
        # oracle (OGC WMS): I/X is the column, J/Y the row, for every CRS
        if tuple(internal) != pos or up_pos != pos:
            ctx.fail('infopos-changed', 'feature info position %r (%s, %s) is held as %r and sent upstream as %r (%s)' % (pos, cv, code, internal, up_pos, uv), desc)


def pure_load_assign(ctx, T):
    """TileManager._load_tile_coords on an empty cache with a tile creator that hands the created tiles back in an
    order of its own (meta tile after meta tile, reversed, shuffled; with tiles nobody asked for; some not created):
    which created image ends up in which cell of the requested collection -> model load_assign; oracle: a cell holds
    the image made for its own coordinate.  Deterministic (own random stream)."""
    import random
    import shutil
    import tempfile
    from mapproxy.cache.file import FileCache
    from mapproxy.cache.tile import TileManager, Tile, TileCollection
    from mapproxy.grid import TileGrid
    from mapproxy.image.opts import ImageOptions
    from mapproxy.srs import SRS
    from mapproxy.util.lock import DummyLock

    class Locker(object):
        def lock(self, tile):
            return DummyLock()

    class Source(object):
        supports_meta_tiles = True
        res_range = None
        coverage = None
        extent = None

    rng = random.Random(20261002)
    tmp = tempfile.mkdtemp(prefix='c01-la-')
    try:
        grid = TileGrid(SRS(3857), bbox=[0, 0, 4096, 4096], tile_size=(64, 64), res=[8.0, 4.0, 2.0, 1.0])
        for n in range(40):
            level = rng.choice([2, 3])
            x0, y0 = rng.randrange(0, 6), rng.randrange(0, 6)
            nx, ny = rng.choice([(4, 2), (2, 2), (3, 2), (6, 2), (4, 4), (2, 1), (1, 3)])
            coords = [(x0 + i, y0 + ny - 1 - j, level) for j in range(ny) for i in range(nx)]       # row by row, as the request lists them
            cells = list(coords)
            if n % 5 == 3:
                cells[rng.randrange(len(cells))] = None          # a cell outside the grid
            if n % 7 == 6:
                cells.append(cells[0] if cells[0] is not None else cells[1])   # the same coordinate twice
            wanted = [c for c in cells if c is not None]
            mw, mh = rng.choice([(2, 2), (1, 2), (2, 1), (3, 2)])
            order = sorted(set(wanted), key=lambda c: (c[1] // mh, c[0] // mw, -c[1], c[0]))         # meta tile after meta tile
            mode = n % 4
            if mode == 1:
                order.reverse()
            elif mode == 2:
                rng.shuffle(order)
            elif mode == 3 and len(order) > 2:
                # one tile not created, one that nobody asked for: the count still equals the number of missing tiles
                order[rng.randrange(len(order))] = (x0 + 40, y0 + 40, level)
            created = [(c, 1000 + k) for k, c in enumerate(order)]
            mgr = TileManager(grid, FileCache(tmp, 'png'), [Source()], 'png', meta_size=[mw, mh], meta_buffer=0,
                              image_opts=ImageOptions(format='image/png'), locker=Locker())

            class Creator(object):
                def create_tiles(self, tiles):
                    return [Tile(c, source=v) for c, v in created]
            mgr.creator = lambda dimensions=None: Creator()
            tiles = TileCollection(cells)
            r = call(mgr._load_tile_coords, tiles)
            rep = {'fn': 'TileManager._load_tile_coords', 'requested_cells': cells, 'created_in_this_order': created, 'cache': 'empty'}
            ctx.case(('load_assign', n, tuple(cells), tuple(created)), True, rep if n < 2 else None)
            if r[0] != 'ok':
                ctx.fail('load_assign:exception', '_load_tile_coords raised %s' % r[1], rep)
                continue
            obs = [t.source for t in tiles]
            rep['cell_sources'] = obs
            made = dict(created)
            for k, c in enumerate(cells):
                if c is not None and cells.count(c) == 1 and obs[k] != made.get(c):
                    ctx.fail('load_assign:wrong-cell', 'cell %d of the request has coordinate %r and got image %r; the creator made image %r for that coordinate'
                             % (k, c, obs[k], made.get(c)), rep)
                    break
            T.add('load_assign', '(%s, %s, %s)' % (llit(cells, lambda c: olit(c, coord_lit)), llit(created, lambda cv: '(%s, %s)' % (coord_lit(cv[0]), zlit(cv[1]))),
                                                   llit(obs, olit)), rep)
    finally:
        shutil.rmtree(tmp, ignore_errors=True)


def run_pure(ctx, T):
    rng = ctx.rng
    grids = [make_grid(rng, 'g%d' % i) for i in range(ctx.n(10, 60))]
    steps = [('mosaic', lambda: pure_mosaic(ctx, T, grids)), ('meta', lambda: pure_meta(ctx, T, grids)),
             ('lin', lambda: pure_lin(ctx, T)), ('subextent', lambda: pure_subextent(ctx, T)),
             ('transform', lambda: pure_transform(ctx, T)), ('info', lambda: pure_info(ctx, T)), ('axis', lambda: pure_axis(ctx, T)),
             ('infopos', lambda: pure_info_pos(ctx, T)), ('client', lambda: pure_client(ctx, T)),
             ('srs', lambda: pure_srs(ctx, T)), ('mesh', lambda: pure_mesh(ctx, T)),
             ('mesh_error', lambda: pure_mesh_error(ctx, T)), ('mesh_recursion', lambda: pure_mesh_recursion(ctx, T)),
             ('load_assign', lambda: pure_load_assign(ctx, T))]
    for name, f in steps:
        try:
            f()
        except Exception as e:  # noqa
            import traceback
            ctx.problem('harness', 'pure-function stage %s could not run: %r' % (name, e), traceback.format_exc())
    return [g.definition() for g in grids]


def correspond(ctx, T, grid_defs):
    QDEFS = 'From Coq Require Import QArith.\nLocal Open Scope Z_scope.\n'
    defs = QDEFS + '\n'.join(grid_defs)
    I = 'Grid Geo'
    ctx.corr_check('scaled_tile_sources', I, 'grid * bbox * bbox * Z * bbox * Z * Z * list bool', T.get('scaled')[0],
                   "fun c => let '(g, cov, b, sl, oab, onx, ony, omask) := c in "
                   "match scaled_tile_sources g (avail_in_coverage g cov) b sl with "
                   "| Affected ab nx ny ts => bbox_eqb ab oab && (nx =? onx) && (ny =? ony) && list_eqb Bool.eqb (present_mask ts) omask "
                   "| InvalidBBOX => false end",
                   lambda i: T.get('scaled')[1][i], defs=defs, shard=150)
    ctx.corr_check('load_tile_coords_assignment', I, 'list (option (Z * Z * Z)) * list ((Z * Z * Z) * Z) * list (option Z)', T.get('load_assign')[0],
                   "fun c => let '(cells, created, obs) := c in "
                   "list_eqb (fun a b : option Z => match a, b with Some x, Some y => x =? y | None, None => true | _, _ => false end) "
                   "(map snd (load_assign (map (fun oc => (oc, @None Z)) cells) created)) obs",
                   lambda i: T.get('load_assign')[1][i], defs=QDEFS)
    ctx.corr_check('mesh_corners', I, 'Q * Q * Q * Q * qbbox * Z * Z * qbbox * Z * Z * Q * list qpt * Q', T.get('mesh')[0],
                   "fun c => let '(ax, bx, ay, by_, sb, sw, sh, db, dw, dh, off, obs, tol) := c in "
                   "let T := fun p : qpt => (ax * fst p + bx, ay * snd p + by_)%Q in "
                   "list_eqb (fun a b => qpt_close tol a b) (dst_quad_to_src T sb sw sh db dw dh off (0, 0, dw, dh)) obs",
                   lambda i: T.get('mesh')[1][i], defs=QDEFS)
    ctx.corr_check('mesh_recursion', I, 'Q * qbbox * Z * Z * qbbox * Z * Z * Q * list (quad * list qpt) * Q', T.get('meshrec')[0],
                   "fun c => let '(a, sb, sw, sh, db, dw, dh, off, obs, tol) := c in "
                   "let T := fun p : qpt => (fst p + a * snd p * snd p * snd p, snd p)%Q in "
                   "let Ti := fun p : qpt => (fst p - a * snd p * snd p * snd p, snd p)%Q in "
                   "list_eqb (mesh_close tol) (transform_meshes T Ti sb sw sh db dw dh off 1) obs",
                   lambda i: T.get('meshrec')[1][i], defs=QDEFS, shard=8)
    ctx.corr_check('answer_georeference', I, 'qbbox * Z * Z * option qbbox * (qpt * qpt) * Q', T.get('georef')[0],
                   "fun c => let '(b, w, h, ext, (otie, oscale), tol) := c in "
                   "let '(_, (tie, scale)) := wms_map_answer b w h ext in qpt_close tol tie otie && qpt_close tol scale oscale",
                   lambda i: T.get('georef')[1][i], defs=QDEFS)
    ctx.corr_check('featureinfo_position', I, 'wms_version * wms_version * bool * (Z * Z) * (Z * Z) * (Z * Z)', T.get('infopos')[0],
                   "fun c => let '(cv, uv, ne, wire, internal, up) := c in "
                   "zz_eqb (info_pos_to_111 cv ne wire) internal && zz_eqb (info_pos_to_version uv ne internal) up",
                   lambda i: T.get('infopos')[1][i], defs=QDEFS)
    ctx.corr_check('e2e_upstream_wms_requests', I, '(grid * bbox * Z * Z) * Z * Z * Z * list (bbox * (Z * Z))', T.get('e2e_wms')[0],
                   "fun c => let '((g, b, sx, sy), mx, my, buf, obs) := c in "
                   "match cache_map_plan g b sx sy with "
                   "| Mosaic l ab nx ny ts => same_request_set (meta_requests (mkMeta g mx my buf) ts) obs "
                   "| _ => match obs with [] => true | _ => false end end",
                   lambda i: T.get('e2e_wms')[1][i], defs=defs, shard=60)
    ctx.corr_check('wmts_featureinfo_bbox', I, 'grid * wmts_request * (Z * Z * Z) * bbox', T.get('wmts')[0],
                   "fun c => let '(g, r, (col, row, l), obs) := c in obbox_eqb (wmts_bbox g r col row l) (Some obs)",
                   lambda i: T.get('wmts')[1][i], defs=defs, shard=150)
    ctx.corr_check('e2e_upstream_tile_url_bbox', I, '(grid * bbox * Z * Z) * list (bbox * (Z * Z))', T.get('e2e_tilebbox')[0],
                   "fun c => let '((g, b, sx, sy), obs) := c in "
                   "match cache_map_plan g b sx sy with "
                   "| Mosaic l ab nx ny ts => same_request_set (map (fun t : Z * Z * Z => let '(x, y, l') := t in (tile_bbox g x y l', (0, 0))) (somes ts)) obs "
                   "| _ => match obs with [] => true | _ => false end end",
                   lambda i: T.get('e2e_tilebbox')[1][i], defs=defs, shard=60)
    ctx.corr_check('e2e_upstream_tile_requests', I, '(grid * bbox * Z * Z) * list (Z * Z * Z)', T.get('e2e_tiles')[0],
                   "fun c => let '((g, b, sx, sy), obs) := c in "
                   "match cache_map_plan g b sx sy with "
                   "| Mosaic l ab nx ny ts => forallb (fun t => existsb (coord_eqb t) obs) (somes ts) && forallb (fun t => existsb (coord_eqb t) (somes ts)) obs "
                   "| _ => match obs with [] => true | _ => false end end",
                   lambda i: T.get('e2e_tiles')[1][i], defs=defs, shard=60)
    ctx.corr_check('plan_and_offsets', I, 'grid * bbox * Z * Z * map_plan * list (Z * Z)', T.get('plan')[0],
                   "fun c => let '(g, b, sx, sy, obs, offs) := c in map_plan_eqb (cache_map_plan g b sx sy) obs && "
                   "match obs with Mosaic l ab nx ny ts => "
                   "list_eqb zz_eqb (map (fun i => tile_offset nx (tw g) (th g) (Z.of_nat i)) (seq 0 (List.length ts)) ++ [src_size nx ny (tw g) (th g)]) offs "
                   "| _ => true end",
                   lambda i: T.get('plan')[1][i], defs=defs, shard=150)
    ctx.corr_check('meta_tile', I, 'metagrid * (Z * Z * Z) * (bbox * (Z * Z) * list (option (Z * Z * Z) * (Z * Z)))', T.get('meta')[0],
                   "fun c => let '(m, (x, y, l), (ob, os, op)) := c in let '(b, s, p) := meta_tile m x y l in "
                   "bbox_eqb b ob && zz_eqb s os && list_eqb otile_off_eqb p op",
                   lambda i: T.get('meta')[1][i], defs=defs, shard=150)
    ctx.corr_check('lin_transf', I, 'qbbox * qbbox * qpt * qpt * Q', T.get('lin')[0],
                   "fun c => let '(a, b, p, obs, tol) := c in qpt_close tol (lin_transf a b p) obs",
                   lambda i: T.get('lin')[1][i], defs=QDEFS)
    ctx.corr_check('info_coord', I, 'qbbox * Z * Z * (Z * Z) * qpt * Q', T.get('coord')[0],
                   "fun c => let '(b, w, h, pos, obs, tol) := c in qpt_close tol (info_coord b w h pos) obs",
                   lambda i: T.get('coord')[1][i], defs=QDEFS)
    ctx.corr_check('bbox_position_in_image', I, 'qbbox * Z * Z * qbbox * ((Z * Z) * (Z * Z) * qbbox)', T.get('subextent')[0],
                   "fun c => let '(b, w, h, s, (osz, ooff, osub)) := c in let '(sz, off, sub) := bbox_position_in_image b w h s in "
                   "zz_eqb sz osz && zz_eqb off ooff && qbbox_close 0 sub osub",
                   lambda i: T.get('subextent')[1][i], defs=QDEFS)
    ctx.corr_check('image_transform', I, 'bool * Z * Z * qbbox * Z * Z * qbbox * transform_action * Q', T.get('transform')[0],
                   "fun c => let '(same, sw, sh, sb, dw, dh, db, obs, tol) := c in "
                   "transform_action_close tol (transform same sw sh sb dw dh db) obs",
                   lambda i: T.get('transform')[1][i], defs=QDEFS)
    ctx.corr_check('divide_quad', I, 'quad * list quad', T.get('divide')[0],
                   "fun c => list_eqb quad_eqb (divide_quad (fst c)) (snd c)", lambda i: T.get('divide')[1][i], defs=QDEFS)
    ctx.corr_check('transformed_info_query', I, 'Q * Q * Q * Q * qbbox * Z * Z * (Z * Z) * (qbbox * (Z * Z) * (Z * Z))', T.get('info')[0],
                   "fun c => let '(ax, bx, ay, by_, b, w, h, pos, (ob, os, op)) := c in "
                   "let T := fun p : qpt => (ax * fst p + bx, ay * snd p + by_)%Q in "
                   "let TB := fun bb : qbbox => let '(b0, b1, b2, b3) := bb in (fst (T (b0, b1)), snd (T (b0, b1)), fst (T (b2, b3)), snd (T (b2, b3))) in "
                   "let '(mb, ms, mp) := transformed_info_query T TB b w h pos in "
                   "qbbox_close 0 mb ob && zz_eqb ms os && zz_eqb mp op",
                   lambda i: T.get('info')[1][i], defs=QDEFS)
    ctx.corr_check('axis_order', I, 'wms_version * wms_version * bool * qbbox * qbbox * qbbox', T.get('axis')[0],
                   "fun c => let '(cv, uv, ne, wire, internal, up) := c in "
                   "qbbox_close 0 (adapt_to_111 cv ne wire) internal && qbbox_close 0 (adapt_to_version uv ne internal) up",
                   lambda i: T.get('axis')[1][i], defs=QDEFS)



# ----------------------------------------------------------------------------- (2) the running application

class FakeResponse(io.BytesIO):
    def __init__(self, data, ctype):
        io.BytesIO.__init__(self, data)
        self.headers = {'Content-type': ctype, 'Content-length': str(len(data))}
        self.code = 200


class Upstream(object):
    """Synthetic upstream: WMS GetMap / GetFeatureInfo and tile URLs.  Every pixel is coloured by the index of the
    ground cell (width self.cell, lattice anchored at 0, in the SRS of the upstream request) that contains the
    pixel's centre: R = cx & 255, G = cy & 255, B = 0x40 | ((cx >> 8) & 7) << 3 | ((cy >> 8) & 7)."""

    def __init__(self):
        self.cell = 1.0
        self.requests = []
        self.tile_grids = {}     # name -> (GridCase, url origin is north-west?)
        self.errors = []

    def render(self, bbox, size):
        import numpy as np
        from PIL import Image
        w, h = size
        rx = (bbox[2] - bbox[0]) / w
        ry = (bbox[3] - bbox[1]) / h
        xs = bbox[0] + (np.arange(w) + 0.5) * rx
        ys = bbox[3] - (np.arange(h) + 0.5) * ry
        cx = np.floor(xs / self.cell).astype(np.int64)
        cy = np.floor(ys / self.cell).astype(np.int64)
        arr = np.zeros((h, w, 3), dtype=np.uint8)
        arr[:, :, 0] = (cx & 255)[None, :]
        arr[:, :, 1] = (cy & 255)[:, None]
        arr[:, :, 2] = 0x40 | (((cx >> 8) & 7) << 3)[None, :] | ((cy >> 8) & 7)[:, None]
        buf = io.BytesIO()
        Image.fromarray(arr, 'RGB').save(buf, 'PNG')
        return buf.getvalue()

    def open(self, url, data=None, method=None):
        from urllib.parse import urlsplit, parse_qsl
        u = urlsplit(url)
        m = re.match(r'^/tiles/(\w+)/(-?\d+)/(-?\d+)/(-?\d+)\.png$', u.path)
        if m:
            name, z, x, y = m.group(1), int(m.group(2)), int(m.group(3)), int(m.group(4))
            gc, nw = self.tile_grids[name]
            self.requests.append({'kind': 'tile', 'grid': name, 'tile': (x, y, z), 'url': url})
            ny = gc.grid_size(z)[1]
            # the url numbers rows from the north (nw) or from the south (sw); gc numbers them by its own origin
            if nw != gc.ul:
                y = ny - 1 - y
            rect = [float(v) for v in gc.tile_rect(x, y, z)]
            return FakeResponse(self.render(rect, (gc.tw, gc.th)), 'image/png')
        q = dict((k.lower(), v) for k, v in parse_qsl(u.query, keep_blank_values=True))
        if u.path == '/tilewms':
            # tile url template with %(bbox)s: the rectangle comes with the request, the size is the tile size
            gc, nw = self.tile_grids['g1']
            bbox = tuple(float(v) for v in q['bbox'].split(','))
            self.requests.append({'kind': 'tilebbox', 'bbox': bbox, 'level': int(q['z']), 'url': url})
            return FakeResponse(self.render(bbox, (gc.tw, gc.th)), 'image/png')
        req = q.get('request', '').lower()
        version = q.get('version') or q.get('wmtver')
        code = q.get('crs') or q.get('srs')
        wire = tuple(float(v) for v in q['bbox'].split(','))
        ne = False
        if version == '1.3.0':
            from mapproxy.srs import SRS
            ne = bool(SRS(code).is_axis_order_ne)
        bbox = (wire[1], wire[0], wire[3], wire[2]) if ne else wire
        size = (int(q['width']), int(q['height']))
        rec = {'kind': req, 'bbox': bbox, 'wire_bbox': wire, 'size': size, 'srs': code, 'version': version, 'url': url}
        if req in ('getfeatureinfo', 'feature_info'):
            rec['pos'] = (int(q.get('i', q.get('x'))), int(q.get('j', q.get('y'))))
            self.requests.append(rec)
            return FakeResponse(b'info', 'text/plain')
        self.requests.append(rec)
        if size[0] <= 0 or size[1] <= 0 or size[0] * size[1] > 4000 * 4000:
            self.errors.append('upstream asked for size %r' % (size,))
            size = (max(1, min(size[0], 4000)), max(1, min(size[1], 4000)))
        return FakeResponse(self.render(bbox, size), 'image/png')


def decode(body):
    """-> (content mask, cx mod 2048, cy mod 2048) of a PNG response"""
    import numpy as np
    from PIL import Image
    img = Image.open(io.BytesIO(body)).convert('RGBA')
    a = np.asarray(img).astype(np.int64)
    content = (a[:, :, 3] == 255) & ((a[:, :, 2] & 0xC0) == 0x40)
    cx = a[:, :, 0] | (((a[:, :, 2] >> 3) & 7) << 8)
    cy = a[:, :, 1] | ((a[:, :, 2] & 7) << 8)
    return content, cx, cy, img.size


ACCUMULATED = 'accumulated-subpixel-error'
DUP_META = 'meta-tiles-with-equal-buffered-bbox-dropped'


def duplicate_meta_bbox(gc, info, bbox, size):
    """diagnosis only (chooses the signature of a missing-content failure): do two different meta tiles needed for
    this request have the same buffered bbox after clipping to the grid bbox?"""
    try:
        from mapproxy.grid import MetaGrid
        g = gc.grid
        gb = [float(v) for v in gc.bbox]
        b = (max(bbox[0], gb[0]), max(bbox[1], gb[1]), min(bbox[2], gb[2]), min(bbox[3], gb[3]))
        mg = MetaGrid(g, tuple(info['meta_size']), info['meta_buffer'])
        seen = {}
        for l in range(len(gc.res)):
            _, _, tiles = g.get_affected_level_tiles(b, l)
            for t in tiles:
                if t is None:
                    continue
                mt = mg.meta_tile(t)
                key = (l, tuple(mt.bbox))
                main = mg.main_tile(t)
                if key in seen and seen[key] != main:
                    return True
                seen[key] = main
    except Exception:  # noqa
        return False
    return False


def pixel_oracle(ctx, up, body, bbox, size, up_res, extent, to_up, rep, sig, tol_px=1.5, stages=0):
    """Every content pixel shows a cell within tol_px output pixels (+ half an upstream pixel) of its own ground
    position; pixels well inside `extent` (given in upstream coordinates) must show content.
    to_up: None or function (xs, ys) -> (xs, ys) mapping request-SRS coordinates to upstream-SRS coordinates."""
    import numpy as np
    try:
        content, cx, cy, isize = decode(body)
    except Exception as e:  # noqa
        ctx.fail(sig + ':not-an-image', 'response is not an image: %r' % (e,), rep)
        return None
    if tuple(isize) != tuple(size):
        ctx.fail(sig + ':size', 'response image has size %r, requested %r' % (isize, size), rep)
        return None
    w, h = size
    rx = (bbox[2] - bbox[0]) / w
    ry = (bbox[3] - bbox[1]) / h
    px = bbox[0] + (np.arange(w) + 0.5) * rx
    py = bbox[3] - (np.arange(h) + 0.5) * ry
    X, Y = np.meshgrid(px, py)
    if to_up is not None:
        # tolerance in upstream units: image of the pixel's neighbourhood
        X2, Y2 = to_up(X + tol_px * rx, Y + tol_px * ry)
        X, Y = to_up(X, Y)
        tx = np.abs(X2 - X)
        ty = np.abs(Y2 - Y)
    else:
        tx = np.full(X.shape, tol_px * rx)
        ty = np.full(Y.shape, tol_px * ry)
    cell = up.cell
    ex = np.floor(X / cell).astype(np.int64)
    ey = np.floor(Y / cell).astype(np.int64)
    dx = ((cx - ex + 1024) % 2048) - 1024
    dy_ = ((cy - ey + 1024) % 2048) - 1024
    kx, ky = ex + dx, ey + dy_
    distx = np.maximum(0, np.maximum(kx * cell - X, X - (kx + 1) * cell))
    disty = np.maximum(0, np.maximum(ky * cell - Y, Y - (ky + 1) * cell))
    slack = up_res / 2.0
    # the unit of the tolerance is the coarser of the output pixel and the upstream / stored pixel: when the output is
    # finer than the stored level (upsampling) the truncations of the pipeline are fractions of a *stored* pixel
    tx = np.maximum(tx, tol_px * up_res)
    ty = np.maximum(ty, tol_px * up_res)
    bad = content & ((distx > tx + slack + 1e-9 * (1 + np.abs(X))) | (disty > ty + slack + 1e-9 * (1 + np.abs(Y))))
    worst = 0.0
    if content.any():
        worst = float(np.max(np.where(content, np.maximum((distx - slack) / np.maximum(tx, 1e-300), (disty - slack) / np.maximum(ty, 1e-300)), 0))) * tol_px
    if bad.any():
        j, i = [int(v[0]) for v in np.nonzero(bad)]
        # known finding: sub-pixel truncation stages and resampling add up to more than 1.5 px (each < 1 px, same direction)
        # (each truncating stage: error in [0, 1) px - sub_extent_error; resampling: 0.5 px + 0.1 px - crop_path_error)
        if stages >= 1 and worst <= 0.6 + stages:
            fsig = ACCUMULATED
            ctx.count('e2e:accumulated_subpixel_error(known finding)')
        else:
            fsig = sig + ':misplaced'
        ctx.fail(fsig, 'output pixel (%d, %d) at ground position (%r, %r) shows upstream cell at distance (%.3f, %.3f) pixels '
                 '(allowed %.1f + half an upstream pixel; unit: the coarser of output and upstream pixel); %d of %d pixels misplaced' % (
                     i, j, float(X[j, i]), float(Y[j, i]), float((distx[j, i] - slack) / tx[j, i] * tol_px), float((disty[j, i] - slack) / ty[j, i] * tol_px),
                     tol_px, int(bad.sum()), w * h), dict(rep, truncation_stages=stages, worst_error_px=worst))
    if extent is not None:
        mx = tx + up_res + cell
        my = ty + up_res + cell
        inside = (X > extent[0] + mx) & (X < extent[2] - mx) & (Y > extent[1] + my) & (Y < extent[3] - my)
        missing = inside & ~content
        if missing.any():
            j, i = [int(v[0]) for v in np.nonzero(missing)]
            msig = sig + ':missing'
            if rep.get('duplicate_meta_bbox'):
                msig = DUP_META
                ctx.count('e2e:missing_content_duplicate_meta_bbox(known finding)')
            ctx.fail(msig, 'output pixel (%d, %d) at ground position (%r, %r) lies inside the layer extent but shows no upstream content; %d pixels missing'
                     % (i, j, float(X[j, i]), float(Y[j, i]), int(missing.sum())), rep)
    return worst


def grid_yaml(gc):
    c = gc.conf
    return {'srs': c['srs'], 'bbox': c['bbox'], 'tile_size': c['tile_size'], 'res': c['res'], 'origin': c['origin'],
            'stretch_factor': c['stretch_factor'], 'max_shrink_factor': c['max_shrink_factor']}


def build_app(ctx, conf, creators=1):
    import yaml
    from mapproxy.wsgiapp import make_wsgi_app
    from webtest import TestApp
    d = ctx.tmpdir('app')
    conf = json.loads(json.dumps(conf))
    conf.setdefault('globals', {})
    conf['globals'].setdefault('cache', {})
    # one tile creator thread: the check must be deterministic (concurrent creation belongs to C08); the schedule
    # probe (e2e_schedule) asks for two creators and gates them itself
    conf['globals']['cache'].update({'concurrent_tile_creators': creators, 'base_dir': os.path.join(d, 'cache'), 'lock_dir': os.path.join(d, 'locks'), 'tile_lock_dir': os.path.join(d, 'tlocks')})
    conf['globals'].setdefault('image', {})
    conf['globals']['image'].update({'resampling_method': 'nearest', 'paletted': False})
    path = os.path.join(d, 'mapproxy.yaml')
    with open(path, 'w') as f:
        yaml.safe_dump(conf, f)
    return TestApp(make_wsgi_app(path)), d


def wms_url(version, layer, bbox, size, code, ne, extra=''):
    b = (bbox[1], bbox[0], bbox[3], bbox[2]) if (version == '1.3.0' and ne) else bbox
    return ('/service?SERVICE=WMS&VERSION=%s&REQUEST=GetMap&LAYERS=%s&STYLES=&%s=%s&BBOX=%s&WIDTH=%d&HEIGHT=%d&FORMAT=image/png%s'
            % (version, layer, 'CRS' if version == '1.3.0' else 'SRS', code, ','.join(repr(float(v)) for v in b), size[0], size[1], extra))


TILE_CONFS = [0]


def e2e_conf(rng, gc, kind):
    """configuration for one grid; returns (conf, info)"""
    code = gc.conf['srs']
    ms = rng.choice([[1, 1], [2, 2], [3, 2], [4, 4], [1, 2]])
    buf = rng.choice([0, 0, 10, 37, 80])
    upv = rng.choice(['1.1.1', '1.3.0'])
    conf = {
        'services': {'wms': {'srs': [code, 'EPSG:4326', 'EPSG:3857'], 'image_formats': ['image/png'], 'md': {'title': 't'}},
                     'wmts': {'kvp': True, 'restful': True, 'featureinfo_formats': [{'mimetype': 'text/plain', 'suffix': 'txt'}]},
                     'tms': {}},
        'layers': [{'name': 'lyr', 'title': 'lyr', 'sources': ['c1']}],
        'caches': {'c1': {'grids': ['g1'], 'sources': ['src'], 'format': 'image/png', 'meta_size': ms, 'meta_buffer': buf}},
        'sources': {'src': {'type': 'wms', 'req': {'url': 'http://up/wms', 'layers': 'a'}, 'wms_opts': {'version': upv, 'featureinfo': True}}},
        'grids': {'g1': grid_yaml(gc)},
    }
    info = {'kind': kind, 'meta_size': ms, 'meta_buffer': buf, 'upstream_version': upv, 'grid': gc.conf, 'extent': [float(v) for v in gc.bbox]}
    if kind == 'tiles':
        # the tile source may number its rows from the other corner than the cache grid when both numberings
        # describe the same rectangles
        nw = gc.ul
        other = 'll' if gc.ul else 'ul'
        if rng.random() < 0.6 and gc.grid.supports_access_with_origin(other):
            nw = not gc.ul
        gs = dict(grid_yaml(gc))
        gs['origin'] = 'ul' if nw else 'll'
        conf['grids']['gs'] = gs
        conf['sources']['src'] = {'type': 'tile', 'url': 'http://up/tiles/g1/%(z)s/%(x)s/%(y)s.png', 'grid': 'gs'}
        TILE_CONFS[0] += 1
        if TILE_CONFS[0] % 2 == 1:
            # (every other tile configuration of a run) a WMS used as tile server: the rectangle of the tile is put into the url
            conf['sources']['src']['url'] = 'http://up/tilewms?layers=a&bbox=%(bbox)s&z=%(z)s'
            info['tile_url_bbox'] = True
        conf['caches']['c1'].pop('meta_size')
        conf['caches']['c1'].pop('meta_buffer')
        info.update({'tile_origin_nw': nw, 'meta_size': [1, 1], 'meta_buffer': 0})
    elif kind == 'coverage':
        b = [float(v) for v in gc.bbox]
        w, h = b[2] - b[0], b[3] - b[1]
        cov = [b[0] + math.floor(w * rng.choice([0.125, 0.25, 0.3]) * 8) / 8, b[1] + math.floor(h * rng.choice([0.125, 0.25, 0.3]) * 8) / 8,
               b[2] - math.floor(w * rng.choice([0.125, 0.25, 0.3]) * 8) / 8, b[3] - math.floor(h * rng.choice([0.125, 0.2]) * 8) / 8]
        conf['sources']['src']['coverage'] = {'bbox': cov, 'srs': code}
        info['extent'] = cov
        info['coverage'] = cov
    elif kind == 'direct':
        b = [float(v) for v in gc.bbox]
        conf['layers'][0]['sources'] = ['src']
        conf['sources']['src']['coverage'] = {'bbox': b, 'srs': code}
        info['coverage'] = b
    elif kind in ('downscale', 'upscale'):
        # tiles of one level are built from the neighbouring level (TileManager._scaled_tile); the source only delivers
        # the neighbouring level and only inside a coverage, so that some source tiles are missing
        nlev = len(gc.res)
        b = [float(v) for v in gc.bbox]
        w, h = b[2] - b[0], b[3] - b[1]
        cov = [b[0] + math.floor(w * rng.choice([0.125, 0.25, 0.3, 0.4]) * 8) / 8, b[1] + math.floor(h * rng.choice([0.125, 0.25, 0.3]) * 8) / 8,
               b[2] - math.floor(w * rng.choice([0.125, 0.25, 0.3]) * 8) / 8, b[3] - math.floor(h * rng.choice([0.125, 0.2, 0.4]) * 8) / 8]
        conf['sources']['src']['coverage'] = {'bbox': cov, 'srs': code}
        if kind == 'downscale':
            src_level = rng.randrange(1, nlev)
            conf['sources']['src']['min_res'] = float(gc.res[src_level]) * 1.01   # margin: clipped meta tiles have slightly non-square pixels
            conf['caches']['c1']['downscale_tiles'] = 1
            info['request_level'] = src_level - 1
        else:
            src_level = rng.randrange(0, nlev - 1)
            conf['sources']['src']['max_res'] = float(gc.res[src_level]) * 0.99
            conf['caches']['c1']['upscale_tiles'] = 1
            info['request_level'] = src_level + 1
        if rng.random() < 0.6:
            conf['caches']['c1']['meta_size'] = [1, 1]
            conf['caches']['c1']['meta_buffer'] = 0
            info['meta_size'], info['meta_buffer'] = [1, 1], 0
        info.update({'extent': cov, 'coverage': cov, 'src_level': src_level})
    elif kind == 'cascade':
        g2 = dict(grid_yaml(gc))
        g2['origin'] = 'ul' if gc.conf['origin'] in ('ll', 'sw') else 'll'
        g2['tile_size'] = [gc.tw * 2, gc.th]
        conf['grids']['g2'] = g2
        conf['caches']['c2'] = {'grids': ['g2'], 'sources': ['c1'], 'format': 'image/png', 'meta_size': [1, 1], 'meta_buffer': 0}
        conf['layers'][0]['sources'] = ['c2']
    return conf, info


SCALED = []


def scaled_cases(ctx, T, gc, info, conf, url, number):
    """what TileManager._scaled_tile handed to TiledImage (recorded) against the model scaled_tile_sources, and the
    property oracle: one entry per cell of the mosaic, every present source tile belongs to its cell"""
    cov = [frac(v) for v in info['coverage']]
    for rec in SCALED:
        gx, gy = rec['tile_grid']
        sb = [frac(v) for v in rec['src_bbox']]
        rep = {'conf': conf, 'request': url, 'request_number': number, 'scaled_tile': rec}
        sl = None
        for l, r in enumerate(gc.res):
            if (sb[2] - sb[0]) == gx * gc.tw * r:
                sl = l
        ctx.case(('scaled', gc.name, rec['req_bbox'], rec['src_bbox'], tuple(rec['mask']), number), True,
                 {'fn': '_scaled_tile', 'grid': gc.conf, 'tile_bbox': rec['req_bbox'], 'src_bbox': rec['src_bbox'], 'tile_grid': rec['tile_grid'],
                  'present': rec['mask']} if len(ctx.samples) < 6 else None)
        if len(rec['mask']) != gx * gy:
            ctx.fail('scaled:list-length', 'rescaled tile %r: %d source entries for a %dx%d mosaic (missing tiles must keep their cell)'
                     % (rec['req_bbox'], len(rec['mask']), gx, gy), rep)
            continue
        if sl is None or not gc.can_scale(*rec['req_bbox']) or not gc.can_scale(*rec['src_bbox']):
            continue
        # exact expectation: cell (i, j) from the top left shows the source tile whose rectangle is that cell
        r = gc.res[sl]
        nx, ny = gc.grid_size(sl)
        sens = False
        for k, present in enumerate(rec['mask']):
            cx, cy = k % gx, k // gx
            rect = (sb[0] + cx * gc.tw * r, sb[3] - (cy + 1) * gc.th * r, sb[0] + (cx + 1) * gc.tw * r, sb[3] - cy * gc.th * r)
            tx = (rect[0] - gc.bbox[0]) / (r * gc.tw)
            ty = ((gc.bbox[3] - rect[3]) if gc.ul else (rect[1] - gc.bbox[1])) / (r * gc.th)
            in_grid = tx.denominator == 1 and ty.denominator == 1 and 0 <= tx < nx and 0 <= ty < ny
            ix = min(rect[2], cov[2]) - max(rect[0], cov[0])
            iy = min(rect[3], cov[3]) - max(rect[1], cov[1])
            meets = ix > 0 and iy > 0
            if meets and (ix < 2 * r or iy < 2 * r):
                sens = True    # a sliver of less than two pixels: bbox_position_in_image may give it size 0
            # with meta tiles a source tile outside the coverage is created together with its meta tile
            plain = info['meta_size'] == [1, 1] and info['meta_buffer'] == 0
            if present and not (in_grid and (meets or not plain)):
                ctx.fail('scaled:wrong-cell', 'rescaled tile %r: cell %d of the source mosaic holds a tile although no creatable tile lies there'
                         % (rec['req_bbox'], k), rep)
                break
        if sens or info['meta_size'] != [1, 1] or info['meta_buffer'] != 0:
            ctx.count('scaled:model_comparison_skipped')
            continue
        T.add('scaled', '(%s, %s, %s, %d, %s, %d, %d, %s)' % (gc.name, gc.zbbox(info['coverage']), gc.zbbox(rec['req_bbox']), sl,
                                                             gc.zbbox(rec['src_bbox']), gx, gy, llit(rec['mask'], blit)), rep)


def e2e_same_srs(ctx, T, grids_defs):
    """cache / tile source / coverage / direct / cascade configurations, requests in the grid SRS"""
    import mapproxy.client.http as http
    from mapproxy.srs import SRS
    rng = ctx.rng
    up = Upstream()
    orig_open = http.HTTPClient.open
    http.HTTPClient.open = lambda self, url, data=None, method=None: up.open(url, data, method)
    worst_all = 0.0
    import mapproxy.cache.tile as cache_tile
    orig_ti = cache_tile.TiledImage

    class RecTiledImage(orig_ti):
        # TileManager._scaled_tile is the only user of TiledImage inside mapproxy.cache.tile
        def transform(self, req_bbox, req_srs, out_size, image_opts):
            SCALED.append({'src_bbox': tuple(self.src_bbox), 'tile_grid': tuple(self.tile_grid), 'mask': [t is not None for t in self.tiles],
                           'req_bbox': tuple(req_bbox)})
            return orig_ti.transform(self, req_bbox, req_srs, out_size, image_opts)
    cache_tile.TiledImage = RecTiledImage
    try:
        nconf = ctx.n(13, 80)
        kinds = ['wms', 'downscale', 'tiles', 'coverage', 'direct', 'cascade', 'upscale', 'wms', 'downscale']
        for ci in range(nconf):
            kind = kinds[ci % len(kinds)]
            force = {}
            if rng.random() < 0.3 and kind not in ('downscale', 'upscale'):
                force['srs'] = 'EPSG:4326'   # axis order ne; coordinates are just numbers for a same-SRS pipeline
            gc = make_grid(rng, 'e%d' % ci, force)
            if force.get('srs') == 'EPSG:4326' and (abs(float(gc.bbox[0])) > 1e7):
                continue
            grids_defs.append(gc.definition())
            conf, info = e2e_conf(rng, gc, kind)
            try:
                app, d = build_app(ctx, conf)
            except Exception as e:  # noqa
                ctx.fail('e2e:config', 'make_wsgi_app failed for a valid configuration: %r' % (e,), {'conf': conf})
                continue
            code = gc.conf['srs']
            ne = bool(SRS(code).is_axis_order_ne)
            up.tile_grids = {'g1': (gc, info.get('tile_origin_nw', False))}
            ctx.count('e2e:config=' + kind)
            for ri in range(ctx.n(6, 12)):
                if kind in ('downscale', 'upscale'):
                    bbox, size, rkind = request_for(rng, gc, aligned=rng.choice(['tile', 'tiles', 'tiles', 'shifted', 'edge']), level=info['request_level'])
                else:
                    bbox, size, rkind = request_for(rng, gc)
                if size[0] * size[1] > 400000 or not gc.can_scale(*bbox):
                    continue
                version = rng.choice(['1.1.1', '1.3.0'])
                out_res = (bbox[2] - bbox[0]) / size[0]
                up.cell = out_res / 2.0
                up.requests = []
                # a fresh application (empty cache) per request: the ground cell size of the synthetic upstream changes
                try:
                    app, d = build_app(ctx, conf)
                except Exception as e:  # noqa
                    ctx.fail('e2e:config', 'make_wsgi_app failed for a valid configuration: %r' % (e,), {'conf': conf})
                    break
                url = wms_url(version, 'lyr', bbox, size, code, ne)
                SCALED.clear()
                rep = {'conf': conf, 'request': url, 'bbox': bbox, 'size': size, 'client_version': version}
                if info['meta_buffer'] > 0 and kind != 'tiles':
                    rep['duplicate_meta_bbox'] = duplicate_meta_bbox(gc, info, bbox, size)
                try:
                    resp = app.get(url, expect_errors=True)
                except Exception as e:  # noqa
                    ctx.fail('e2e:exception', 'request raised %r' % (e,), rep)
                    continue
                ctx.case(('e2e', kind, gc.conf['bbox'], tuple(gc.conf['res']), gc.conf['origin'], tuple(info['meta_size']), info['meta_buffer'], bbox, size, version),
                         rkind != 'outside', {'config': kind, 'grid': gc.conf, 'meta': (info['meta_size'], info['meta_buffer']), 'request': url,
                                              'upstream_requests': [r['url'] for r in up.requests][:4]} if ri == 0 else None)
                ctx.count('e2e:request=' + rkind)
                if resp.status_int != 200 or not resp.content_type.startswith('image/'):
                    # a refused request is fine only for huge tile counts / outside requests
                    full = resp.text if resp.content_type.startswith(('text', 'application')) else ''
                    txt = full[-300:]
                    if 'too many tiles' in full or 'Invalid BBOX' in full or 'Request too large' in full:
                        ctx.count('e2e:refused')
                        continue
                    ctx.fail('e2e:error-response', 'status %s %s: %s' % (resp.status, resp.content_type, txt), rep)
                    continue
                maps = [r for r in up.requests if r['kind'] in ('getmap', 'map')]
                tiles = [r for r in up.requests if r['kind'] == 'tile']
                rep['upstream'] = [r['url'] for r in up.requests][:12]
                if up.errors:
                    ctx.fail('e2e:upstream-size', up.errors[0], rep)
                    up.errors = []
                up_res = out_res
                if maps:
                    up_res = max(max((r['bbox'][2] - r['bbox'][0]) / r['size'][0], (r['bbox'][3] - r['bbox'][1]) / r['size'][1]) for r in maps)
                elif tiles:
                    up_res = max(float(gc.res[r['tile'][2]]) for r in tiles)
                tbs = [r for r in up.requests if r['kind'] == 'tilebbox']
                if tbs:
                    up_res = max(max((r['bbox'][2] - r['bbox'][0]) / gc.tw, (r['bbox'][3] - r['bbox'][1]) / gc.th) for r in tbs)
                    # oracle: the rectangle in the url is a whole tile of the level (the stored image is georeferenced with it)
                    for r in tbs:
                        rl = gc.res[r['level']]
                        fb = [frac(v) for v in r['bbox']]
                        if fb[2] - fb[0] != rl * gc.tw or fb[3] - fb[1] != rl * gc.th:
                            ctx.fail('e2e:tile-url-bbox', 'tile url asks for the rectangle %r at level %d: not a whole tile (%s x %s expected)' % (
                                r['bbox'], r['level'], float(rl * gc.tw), float(rl * gc.th)), dict(rep, upstream=[x['url'] for x in tbs][:6]))
                            break
                for r in maps:
                    if r['srs'] != code:
                        ctx.fail('e2e:upstream-srs', 'upstream asked in %s, expected %s' % (r['srs'], code), rep)
                gb_ = [float(v) for v in gc.bbox]
                inside_ = gb_[0] <= bbox[0] and gb_[1] <= bbox[1] and bbox[2] <= gb_[2] and bbox[3] <= gb_[3]
                # stages that each may displace content by less than one pixel (always towards the upper left):
                # clipping at the source coverage, clipping of the request at the layer extent, truncation of the meta
                # buffer at a grid bbox edge that is not on the pixel lattice of the level; a cascade resamples twice
                stages = (1 if 'coverage' in info else 0) + (0 if inside_ else 1) + (1 if info['meta_buffer'] > 0 else 0) + (2 if kind == 'cascade' else 0) + (1 if kind in ('downscale', 'upscale') else 0)
                must_extent = info['extent']
                cov_ = info.get('coverage') or gb_
                in_cov_ = cov_[0] <= bbox[0] and cov_[1] <= bbox[1] and bbox[2] <= cov_[2] and bbox[3] <= cov_[3]
                if kind in ('downscale', 'upscale') and not (inside_ and in_cov_):
                    # (the layer extent of a cache is the coverage of its source)
                    # cutting the request down to the layer extent changes its resolution and may select a level that is more
                    # than one rescale step away from what the source delivers: content is not guaranteed there
                    must_extent = None
                worst = pixel_oracle(ctx, up, resp.body, bbox, size, up_res, must_extent, None, rep, 'e2e:' + kind, tol_px=1.5, stages=stages)
                if worst is not None:
                    worst_all = max(worst_all, worst)
                if kind in ('downscale', 'upscale'):
                    scaled_cases(ctx, T, gc, info, conf, url, 1)
                # upstream requests vs the model (empty cache, same SRS, no coverage clipping)
                gb = [float(v) for v in gc.bbox]
                contained = gb[0] <= bbox[0] and gb[1] <= bbox[1] and bbox[2] <= gb[2] and bbox[3] <= gb[3]
                if not contained:
                    # CacheMapLayer.get_map first cuts the request down to the layer extent (bbox_position_in_image, compared
                    # separately); the composition is covered by the pixel oracle only
                    ctx.count('e2e:model_comparison_skipped(request exceeds extent)')
                if contained and kind in ('wms', 'tiles') and not level_is_rounding_sensitive(gc, bbox, size):
                    plan = '(%s, %s, %d, %d)' % (gc.name, gc.zbbox(bbox), size[0], size[1])
                    if kind == 'wms' and all(gc.can_scale(*r['bbox']) for r in maps):
                        obs = llit(maps, lambda r: '(%s, %s)' % (gc.zbbox(r['bbox']), zz(r['size'])))
                        T.add('e2e_wms', '(%s, %d, %d, %d, %s)' % (plan, info['meta_size'][0], info['meta_size'][1], info['meta_buffer'], obs),
                              {'conf': conf, 'request': url, 'upstream': [(r['bbox'], r['size']) for r in maps]})
                    elif kind == 'tiles' and info.get('tile_url_bbox'):
                        if all(gc.can_scale(*r['bbox']) for r in tbs):
                            obs = llit(tbs, lambda r: '(%s, (0, 0))' % gc.zbbox(r['bbox']))
                            T.add('e2e_tilebbox', '(%s, %s)' % (plan, obs), {'conf': conf, 'request': url, 'upstream': [r['bbox'] for r in tbs]})
                    elif kind == 'tiles':
                        # url rows are numbered from the configured origin of the source
                        def internal(t):
                            x, y, z = t
                            if info['tile_origin_nw'] != gc.ul:
                                y = gc.grid_size(z)[1] - 1 - y
                            return (x, y, z)
                        obs = llit(sorted(internal(r['tile']) for r in tiles), coord_lit)
                        T.add('e2e_tiles', '(%s, %s)' % (plan, obs), {'conf': conf, 'request': url, 'upstream_tiles': [r['tile'] for r in tiles]})
                if kind in ('downscale', 'upscale'):
                    # partially filled cache: the source tiles inside the coverage are stored now, the others are neither
                    # cached nor creatable; the same request again (and once more) must show the same content at the same place
                    for again in (2, 3):
                        SCALED.clear()
                        resp2 = app.get(url, expect_errors=True)
                        if resp2.status_int != 200:
                            ctx.fail('e2e:error-response', 'request %d of the same map: status %s' % (again, resp2.status), rep)
                            break
                        pixel_oracle(ctx, up, resp2.body, bbox, size, up_res, must_extent, None, dict(rep, request_number=again), 'e2e:' + kind, tol_px=1.5, stages=stages)
                        scaled_cases(ctx, T, gc, info, conf, url, again)
                    ctx.count('e2e:rescaled_tiles_recorded', len(SCALED))
                # second request: served from the cache, must be the same picture, no new upstream request
                if kind in ('wms', 'tiles', 'coverage') and ri % 2 == 0:
                    n0 = len(up.requests)
                    resp2 = app.get(url, expect_errors=True)
                    if resp2.status_int == 200 and resp2.body != resp.body:
                        c1, c2 = decode(resp.body), decode(resp2.body)
                        if not ((c1[0] == c2[0]).all() and (c1[1] == c2[1])[c1[0]].all() and (c1[2] == c2[2])[c1[0]].all()):
                            if rep.get('duplicate_meta_bbox'):
                                ctx.fail(DUP_META, 'the same request answered a second time shows more content: a meta tile was dropped the first time', rep)
                            else:
                                ctx.fail('e2e:cached-differs', 'the same request answered from the cache shows a different picture', rep)
                    if len(up.requests) != n0 and kind != 'coverage' and rep.get('duplicate_meta_bbox'):
                        # the meta tile that was dropped the first time is fetched now (same known finding)
                        ctx.fail(DUP_META, 'second identical request goes upstream again: a meta tile was dropped the first time', rep)
                    elif len(up.requests) != n0 and kind != 'coverage':
                        ctx.fail('e2e:refetch', 'second identical request went upstream again (%d requests)' % (len(up.requests) - n0), rep)
                # a request that is exactly one stored tile returns the stored tile bytes unresampled
                if rkind == 'tile' and kind in ('wms', 'tiles') and resp.status_int == 200:
                    single_tile_oracle(ctx, app, d, gc, bbox, size, url, resp, rep)
    finally:
        http.HTTPClient.open = orig_open
        cache_tile.TiledImage = orig_ti
    ctx.distribution['e2e:worst_error_output_px_x1000'] = int(worst_all * 1000)


def single_tile_oracle(ctx, app, d, gc, bbox, size, url, resp, rep):
    """the file in the cache for that tile and the response carry the same pixels, and TMS serves the file verbatim"""
    import numpy as np
    from PIL import Image
    files = []
    for root, _, fs in os.walk(os.path.join(d, 'cache')):
        for f in fs:
            if f.endswith('.png'):
                files.append(os.path.join(root, f))
    a = np.asarray(Image.open(io.BytesIO(resp.body)).convert('RGB'))
    # border tiles reach beyond the layer extent: there the answer is clipped, the pixels that show content must
    # still be the stored ones
    mask = decode(resp.body)[0]
    same = False
    for f in files:
        try:
            b = np.asarray(Image.open(f).convert('RGB'))
        except Exception:  # noqa
            continue
        if b.shape == a.shape and (a[mask] == b[mask]).all():
            same = True
            break
    gb = [float(v) for v in gc.bbox]
    if not (gb[0] <= bbox[0] and gb[1] <= bbox[1] and bbox[2] <= gb[2] and bbox[3] <= gb[3]):
        # a border tile that reaches beyond the grid bbox is clipped to the layer extent by CacheMapLayer.get_map
        # (sub-extent path: requested again with the clipped size, i.e. stretched by less than one pixel)
        ctx.count('e2e:single_tile_border(clipped to extent%s)' % ('' if same else ', resampled < 1 px'))
        return
    if files and not same:
        ctx.fail('e2e:single-tile-resampled', 'request for exactly one tile does not return the pixels of any stored tile', rep)
    ctx.count('e2e:single_tile_checked')


def e2e_featureinfo(ctx, T, grid_defs):
    """GetFeatureInfo through WMS (1.1.1 x/y, 1.3.0 i/j and axis order) and WMTS (KVP and RESTful) reaches the upstream
    for the ground point that was clicked; for WMTS the forwarded bbox is the rectangle of the tile that GetTile serves."""
    import mapproxy.client.http as http
    from mapproxy.srs import SRS
    rng = ctx.rng
    up = Upstream()
    orig_open = http.HTTPClient.open
    http.HTTPClient.open = lambda self, url, data=None, method=None: up.open(url, data, method)
    try:
        for ci in range(ctx.n(8, 32)):
            # every combination of (NE / EN axis order) x (upstream 1.1.1 / 1.3.0) in every run
            force = {'srs': ['EPSG:4326', 'EPSG:3857', 'EPSG:4326', 'EPSG:25832'][ci % 4]}
            if ci % 2 == 0:
                force['origin'] = rng.choice(['ll', 'sw'])
            gc = make_grid(rng, 'f%d' % ci, force)
            grid_defs.append(gc.definition())
            # WMTS needs a grid whose tiled area ends at the top of the grid bbox on every level
            wmts_ok = gc.grid.supports_access_with_origin('nw')
            conf, info = e2e_conf(rng, gc, 'wms')
            conf['layers'][0]['sources'] = ['c1']
            upv = ['1.3.0', '1.3.0', '1.1.1', '1.1.1', '1.1.1', '1.3.0'][ci % 6]
            conf['sources']['src']['wms_opts']['version'] = upv
            info['upstream_version'] = upv
            try:
                app, d = build_app(ctx, conf)
            except Exception as e:  # noqa
                ctx.fail('e2e:config', 'make_wsgi_app failed for a valid configuration: %r' % (e,), {'conf': conf})
                continue
            code = gc.conf['srs']
            ne = bool(SRS(code).is_axis_order_ne)
            for _ in range(ctx.n(4, 8)):
                bbox, size, rkind = request_for(rng, gc, aligned=rng.choice(['shifted', 'scaled', 'tile']))
                version = rng.choice(['1.1.1', '1.3.0'])
                pos = (rng.randrange(size[0]), rng.randrange(size[1]))
                pk = ('I', 'J') if version == '1.3.0' else ('X', 'Y')
                url = wms_url(version, 'lyr', bbox, size, code, ne, '&QUERY_LAYERS=lyr&INFO_FORMAT=text/plain&%s=%d&%s=%d' % (pk[0], pos[0], pk[1], pos[1]))
                url = url.replace('REQUEST=GetMap', 'REQUEST=GetFeatureInfo')
                up.requests = []
                rep = {'conf': conf, 'request': url}
                try:
                    resp = app.get(url, expect_errors=True)
                except Exception as e:  # noqa
                    ctx.fail('fi:exception', 'request raised %r' % (e,), rep)
                    continue
                fis = [r for r in up.requests if 'pos' in r]
                ctx.case(('fi-wms', gc.conf['bbox'], bbox, size, pos, version, info['upstream_version']), True,
                         {'request': url, 'upstream': [r['url'] for r in fis][:2]} if len(ctx.samples) < 6 else None)
                ctx.count('fi:wms %s->%s' % (version, info['upstream_version']))
                if resp.status_int != 200 or len(fis) != 1:
                    ctx.fail('fi:not-forwarded', 'feature info request answered %s with %d upstream requests: %s' % (resp.status, len(fis), resp.text[:200]), rep)
                    continue
                r = fis[0]
                rep['upstream'] = r['url']
                rx, ry = (bbox[2] - bbox[0]) / size[0], (bbox[3] - bbox[1]) / size[1]
                c = (bbox[0] + pos[0] * rx, bbox[3] - pos[1] * ry)
                urx, ury = (r['bbox'][2] - r['bbox'][0]) / r['size'][0], (r['bbox'][3] - r['bbox'][1]) / r['size'][1]
                uc = (r['bbox'][0] + r['pos'][0] * urx, r['bbox'][3] - r['pos'][1] * ury)
                if r['srs'] != code or abs(uc[0] - c[0]) > max(rx, urx) or abs(uc[1] - c[1]) > max(ry, ury):
                    ctx.fail('fi:wrong-point', 'clicked ground point %r (pixel %r), upstream asked for %r (pixel %r of %r, %s)' % (c, pos, uc, r['pos'], r['bbox'], r['srs']), rep)
            if not wmts_ok:
                ctx.count('fi:wmts_skipped(grid not compatible)')
                continue
            for _ in range(ctx.n(4, 8)):
                l = rng.randrange(len(gc.res))
                nx, ny = gc.grid_size(l)
                col, row = rng.randrange(nx), rng.randrange(ny)
                i, j = rng.randrange(gc.tw), rng.randrange(gc.th)
                style = rng.choice(['kvp', 'rest'])
                # ground truth (OGC WMTS): row 0 is the northernmost row, the matrix starts at the top left corner
                r_ = float(gc.res[l])
                gb = [float(v) for v in gc.bbox]
                rect = (gb[0] + col * gc.tw * r_, gb[3] - (row + 1) * gc.th * r_, gb[0] + (col + 1) * gc.tw * r_, gb[3] - row * gc.th * r_)
                if style == 'kvp':
                    url = ('/service?SERVICE=WMTS&REQUEST=GetFeatureInfo&VERSION=1.0.0&LAYER=lyr&STYLE=&TILEMATRIXSET=g1&TILEMATRIX=%02d'
                           '&TILEROW=%d&TILECOL=%d&FORMAT=image/png&INFOFORMAT=text/plain&I=%d&J=%d' % (l, row, col, i, j))
                else:
                    url = '/wmts/lyr/g1/%02d/%d/%d/%d/%d.txt' % (l, col, row, i, j)
                tile_url = '/wmts/lyr/g1/%02d/%d/%d.png' % (l, col, row)
                rep = {'conf': conf, 'request': url, 'tile_request': tile_url, 'tile_rectangle': rect}
                # the tile that GetTile serves for the same address really shows `rect` (independent of the model)
                up.cell = r_ / 2.0
                up.requests = []
                app, d = build_app(ctx, conf)
                tresp = app.get(tile_url, expect_errors=True)
                if tresp.status_int == 200:
                    pixel_oracle(ctx, up, tresp.body, rect, (gc.tw, gc.th), r_, None, None, rep, 'wmts-tile', tol_px=1.5, stages=1)
                up.requests = []
                try:
                    resp = app.get(url, expect_errors=True)
                except Exception as e:  # noqa
                    ctx.fail('fi:exception', 'request raised %r' % (e,), rep)
                    continue
                fis = [r for r in up.requests if 'pos' in r]
                ctx.case(('fi-wmts', style, gc.conf['bbox'], gc.conf['origin'], l, col, row, i, j), True,
                         {'request': url, 'upstream': [r['url'] for r in fis][:2]} if len(ctx.samples) < 6 else None)
                ctx.count('fi:wmts-%s,origin=%s' % (style, 'ul' if gc.ul else 'll'))
                if resp.status_int != 200 or len(fis) != 1:
                    ctx.fail('fi:wmts-not-forwarded', 'WMTS feature info answered %s with %d upstream requests: %s' % (resp.status, len(fis), resp.text[:200]), rep)
                    continue
                r = fis[0]
                rep['upstream'] = r['url']
                if gc.can_scale(*r['bbox']):
                    T.add('wmts', '(%s, %s, %s, %s)' % (gc.name, 'KvpFeatureInfo' if style == 'kvp' else 'RestFeatureInfo', coord_lit((col, row, l)), gc.zbbox(r['bbox'])),
                          {'grid': gc.conf, 'request': url, 'forwarded_bbox': r['bbox']})
                if any(abs(a - b) > r_ / 10 for a, b in zip(r['bbox'], rect)) or tuple(r['size']) != (gc.tw, gc.th) or tuple(r['pos']) != (i, j):
                    sig = 'fi:wmts-%s-wrong-tile' % style
                    ctx.fail(sig, 'WMTS GetFeatureInfo (%s) for tile col %d row %d of matrix %d (rectangle %r) is forwarded with bbox %r pos %r'
                             % (style, col, row, l, rect, r['bbox'], r['pos']), rep)
    finally:
        http.HTTPClient.open = orig_open


def e2e_featureinfo_transformed(ctx):
    """GetFeatureInfo whose SRS the upstream does not support (WMSInfoClient._get_transformed_query with the real PROJ):
    square and non-square request pixels, projected / geographic / geographic on another datum on either side.  Oracle:
    the ground point of the forwarded pixel is the clicked ground point (transformed with pyproj directly) within one
    upstream pixel."""
    import pyproj
    import mapproxy.client.http as http
    from mapproxy.srs import SRS
    rng = ctx.rng
    up = Upstream()
    orig_open = http.HTTPClient.open
    http.HTTPClient.open = lambda self, url, data=None, method=None: up.open(url, data, method)
    pairs = [('EPSG:3857', 'EPSG:4326'), ('EPSG:4314', 'EPSG:4326'), ('EPSG:4326', 'EPSG:4314'), ('EPSG:25832', 'EPSG:4326'),
             ('EPSG:4326', 'EPSG:3857'), ('EPSG:4230', 'EPSG:4326'), ('EPSG:31467', 'EPSG:4314')]
    try:
        for ci, (csrs, usrs) in enumerate(pairs[:ctx.n(7, 7)]):
            upv = ['1.1.1', '1.3.0'][ci % 2]
            conf = {
                'services': {'wms': {'srs': sorted(set([csrs, usrs, 'EPSG:4326'])), 'image_formats': ['image/png'], 'md': {'title': 't'}}},
                'layers': [{'name': 'lyr', 'title': 'lyr', 'sources': ['src']}],
                'sources': {'src': {'type': 'wms', 'req': {'url': 'http://up/wms', 'layers': 'a'}, 'supported_srs': [usrs],
                                    'wms_opts': {'version': upv, 'featureinfo': True}}},
            }
            try:
                app, d = build_app(ctx, conf)
            except Exception as e:  # noqa
                ctx.fail('e2e:config', 'make_wsgi_app failed for a valid configuration: %r' % (e,), {'conf': conf})
                continue
            from_ll = pyproj.Transformer.from_crs('EPSG:4326', csrs, always_xy=True)
            to_up = pyproj.Transformer.from_crs(csrs, usrs, always_xy=True)
            ne = bool(SRS(csrs).is_axis_order_ne)
            for ri in range(ctx.n(4, 24)):
                lon, lat = rng.uniform(6.5, 13.5), rng.uniform(47.5, 54.5)
                x0, y0 = from_ll.transform(lon, lat)
                size = rng.choice([(256, 256), (600, 300), (333, 500)])
                unit = 1.0 if not SRS(csrs).is_latlong else 1e-5
                xres = unit * rng.choice([3.0, 10.0, 40.0])
                yres = xres * rng.choice([1.0, 1.0, 2.0, 0.5, 1.7])
                bbox = (x0, y0, x0 + size[0] * xres, y0 + size[1] * yres)
                pos = (rng.randrange(size[0]), rng.randrange(size[1]))
                version = rng.choice(['1.1.1', '1.3.0'])
                pk = ('I', 'J') if version == '1.3.0' else ('X', 'Y')
                url = wms_url(version, 'lyr', bbox, size, csrs, ne, '&QUERY_LAYERS=lyr&INFO_FORMAT=text/plain&%s=%d&%s=%d' % (pk[0], pos[0], pk[1], pos[1]))
                url = url.replace('REQUEST=GetMap', 'REQUEST=GetFeatureInfo')
                up.requests = []
                rep = {'conf': conf, 'request': url}
                try:
                    resp = app.get(url, expect_errors=True)
                except Exception as e:  # noqa
                    ctx.fail('fi:exception', 'request raised %r' % (e,), rep)
                    continue
                fis = [r for r in up.requests if 'pos' in r]
                ctx.case(('fi-transformed', csrs, usrs, bbox, size, pos, version, upv), True,
                         {'request': url, 'upstream': [r['url'] for r in fis][:1]} if ri == 0 else None)
                ctx.count('fi:transformed %s->%s,%s' % (csrs, usrs, 'square' if xres == yres else 'non-square'))
                if resp.status_int != 200 or len(fis) != 1:
                    ctx.fail('fi:not-forwarded', 'feature info request answered %s with %d upstream requests: %s' % (resp.status, len(fis), resp.text[:200]), rep)
                    continue
                r = fis[0]
                rep['upstream'] = r['url']
                c = (bbox[0] + pos[0] * xres, bbox[3] - pos[1] * yres)
                tc = to_up.transform(*c)
                urx, ury = (r['bbox'][2] - r['bbox'][0]) / r['size'][0], (r['bbox'][3] - r['bbox'][1]) / r['size'][1]
                uc = (r['bbox'][0] + r['pos'][0] * urx, r['bbox'][3] - r['pos'][1] * ury)
                if r['srs'] != usrs or abs(uc[0] - tc[0]) > urx or abs(uc[1] - tc[1]) > ury:
                    ctx.fail('fi:transformed-wrong-point', 'clicked pixel %r = ground point %r (%s) = %r (%s); upstream asked for %r (pixel %r of %r, %s): '
                             '%.1f / %.1f upstream pixels away' % (pos, c, csrs, tc, usrs, uc, r['pos'], r['bbox'], r['srs'],
                                                                   (uc[0] - tc[0]) / urx, (uc[1] - tc[1]) / ury), rep)
    finally:
        http.HTTPClient.open = orig_open


def e2e_srs_extent(ctx, T):
    """services.wms.bbox_srs with an explicit extent for the SRS of the request: a request that reaches over the extent is
    cut down in WMSServer.map (third user of bbox_position_in_image), only the part is rendered and pasted back.  PNG and
    GeoTIFF answers: per-pixel oracle on the picture; for image/tiff the georeference tags must describe the requested
    rectangle (tie point = upper left corner of the request, pixel scale = request extent / size)."""
    import mapproxy.client.http as http
    from PIL import Image
    rng = ctx.rng
    up = Upstream()
    orig_open = http.HTTPClient.open
    http.HTTPClient.open = lambda self, url, data=None, method=None: up.open(url, data, method)
    try:
        for ci in range(ctx.n(3, 12)):
            gc = make_grid(rng, 's%d' % ci, {'srs': rng.choice(['EPSG:25832', 'EPSG:3857'])})
            code = gc.conf['srs']
            conf, info = e2e_conf(rng, gc, 'wms')
            b = [float(v) for v in gc.bbox]
            w, h = b[2] - b[0], b[3] - b[1]
            ext = [b[0] + math.floor(w * rng.choice([0.0, 0.125, 0.2]) * 8) / 8, b[1] + math.floor(h * rng.choice([0.0, 0.125, 0.3]) * 8) / 8,
                   b[2] - math.floor(w * rng.choice([0.125, 0.25]) * 8) / 8, b[3] - math.floor(h * rng.choice([0.0, 0.2]) * 8) / 8]
            conf['services']['wms']['bbox_srs'] = [{'srs': code, 'bbox': ext}]
            conf['services']['wms']['image_formats'] = ['image/png', 'image/tiff']
            conf['services'].pop('wmts', None)
            info['extent'] = ext
            for ri in range(ctx.n(4, 10)):
                bbox, size, rkind = request_for(rng, gc, aligned=rng.choice(['shifted', 'scaled', 'edge', 'tiles']))
                if rng.random() < 0.6:
                    # across a border of the configured extent
                    cx = rng.choice([ext[0], ext[2]]); cy = rng.choice([ext[1], ext[3], (ext[1] + ext[3]) / 2])
                    dx = math.floor((cx - (bbox[0] + bbox[2]) / 2) * 8) / 8
                    dy_ = math.floor((cy - (bbox[1] + bbox[3]) / 2) * 8) / 8
                    bbox = (bbox[0] + dx, bbox[1] + dy_, bbox[2] + dx, bbox[3] + dy_)
                if size[0] * size[1] > 300000:
                    continue
                fmt = rng.choice(['image/tiff', 'image/tiff', 'image/png'])
                out_res = (bbox[2] - bbox[0]) / size[0]
                up.cell = out_res / 2.0
                up.requests = []
                try:
                    app, d = build_app(ctx, conf)
                except Exception as e:  # noqa
                    ctx.fail('e2e:config', 'make_wsgi_app failed for a valid configuration: %r' % (e,), {'conf': conf})
                    break
                url = wms_url(rng.choice(['1.1.1', '1.3.0']), 'lyr', bbox, size, code, False).replace('FORMAT=image/png', 'FORMAT=' + fmt)
                rep = {'conf': conf, 'request': url, 'bbox': bbox, 'size': size, 'srs_extent': ext}
                try:
                    resp = app.get(url, expect_errors=True)
                except Exception as e:  # noqa
                    ctx.fail('e2e:exception', 'request raised %r' % (e,), rep)
                    continue
                over = not (ext[0] <= bbox[0] and ext[1] <= bbox[1] and bbox[2] <= ext[2] and bbox[3] <= ext[3])
                ctx.case(('srs-extent', gc.conf['bbox'], tuple(ext), bbox, size, fmt), True,
                         {'config': 'bbox_srs extent', 'request': url, 'srs_extent': ext} if ri == 0 else None)
                ctx.count('e2e:srs_extent %s,%s' % (fmt, 'over the extent' if over else 'inside'))
                if resp.status_int != 200 or not resp.content_type.startswith('image/'):
                    full = resp.text if resp.content_type.startswith(('text', 'application')) else ''
                    if 'too many tiles' in full or 'Invalid BBOX' in full or 'Request too large' in full:
                        continue
                    ctx.fail('e2e:error-response', 'status %s %s: %s' % (resp.status, resp.content_type, full[-300:]), rep)
                    continue
                maps = [r for r in up.requests if r['kind'] == 'getmap']
                up_res = max([max((r['bbox'][2] - r['bbox'][0]) / r['size'][0], (r['bbox'][3] - r['bbox'][1]) / r['size'][1]) for r in maps] or [out_res])
                gb = [float(v) for v in gc.bbox]
                inside_grid = gb[0] <= bbox[0] and gb[1] <= bbox[1] and bbox[2] <= gb[2] and bbox[3] <= gb[3]
                stages = (1 if over else 0) + (0 if inside_grid else 1) + (1 if info['meta_buffer'] > 0 else 0)
                pixel_oracle(ctx, up, resp.body, bbox, size, up_res, ext, None, rep, 'e2e:srs-extent', tol_px=1.5, stages=stages)
                if fmt == 'image/tiff':
                    try:
                        tags = Image.open(io.BytesIO(resp.body)).tag_v2
                        tie, scale = tuple(tags[33922]), tuple(tags[33550])
                    except Exception as e:  # noqa
                        meets = bbox[0] < ext[2] and bbox[2] > ext[0] and bbox[1] < ext[3] and bbox[3] > ext[1]
                        if not meets:
                            # WMSServer.map answers a request outside the SRS extent with a blank image built before any
                            # georeference is attached: nothing is shown, so no pixel is misplaced (observation, not C01)
                            ctx.count('geotiff:blank_answer_outside_extent_has_no_tags')
                            continue
                        ctx.fail('geotiff:no-tags', 'GeoTIFF answer without georeference tags: %r' % (e,), rep)
                        continue
                    rep['geotiff'] = {'tiepoint': tie, 'pixelscale': scale}
                    want_scale = ((bbox[2] - bbox[0]) / size[0], (bbox[3] - bbox[1]) / size[1])
                    eps = 1e-9 * max(abs(v) for v in bbox)
                    if (abs(tie[3] - bbox[0]) > eps or abs(tie[4] - bbox[3]) > eps or tie[0] != 0 or tie[1] != 0
                            or abs(scale[0] - want_scale[0]) > 1e-9 * want_scale[0] or abs(scale[1] - want_scale[1]) > 1e-9 * want_scale[1]):
                        ctx.fail('geotiff:wrong-georeference', 'GeoTIFF for bbox %r size %r is tagged with tie point %r and pixel scale %r '
                                 '(upper left corner %r, scale %r expected): the picture is placed up to %.1f px off by a GIS client'
                                 % (bbox, size, tie[3:5], scale[:2], (bbox[0], bbox[3]), want_scale,
                                    max(abs(tie[3] - bbox[0]) / want_scale[0], abs(tie[4] - bbox[3]) / want_scale[1])), rep)
                    # model: rendered sub query is not observable from outside; the tags are
                    if over or True:
                        T.add('georef', '(%s, %d, %d, Some %s, ((%s, %s), (%s, %s)), %s)' % (
                            qbb(bbox), size[0], size[1], qbb(ext), qlit(tie[3]), qlit(tie[4]), qlit(scale[0]), qlit(scale[1]),
                            qlit(qtol(*bbox) if True else 0)), {'request': url, 'srs_extent': ext, 'tiepoint': tie, 'pixelscale': scale})
    finally:
        http.HTTPClient.open = orig_open


def e2e_reprojected(ctx):
    """EPSG:3857 <-> EPSG:4326: cache in one SRS, request in the other (MESH path of ImageTransformer), and a WMS
    source that only supports the other SRS (source-side reprojection).  Oracle only (PROJ is not modelled)."""
    import numpy as np
    import pyproj
    import mapproxy.client.http as http
    rng = ctx.rng
    up = Upstream()
    orig_open = http.HTTPClient.open
    http.HTTPClient.open = lambda self, url, data=None, method=None: up.open(url, data, method)
    to4326 = pyproj.Transformer.from_crs('EPSG:3857', 'EPSG:4326', always_xy=True)
    to3857 = pyproj.Transformer.from_crs('EPSG:4326', 'EPSG:3857', always_xy=True)
    TR = {('EPSG:3857', 'EPSG:4326'): to4326, ('EPSG:4326', 'EPSG:3857'): to3857}
    worst_all = 0.0
    try:
        for ci in range(ctx.n(10, 40)):
            variant = ['request-4326-on-3857-cache', 'source-4326-for-3857-cache', 'request-3857-on-4326-cache', 'direct-source-4326',
                       'deep-zoom-4326-cache', 'request-4314-on-4326-cache', 'source-4314-for-4326-cache',
                       'direct-source-4326-coverage', 'street-level-4326-on-3857-cache', 'source-4326-coverage-for-3857-cache'][ci % 10]
            origin = rng.choice(['ll', 'ul'])
            ms = rng.choice([[1, 1], [2, 2], [4, 4]])
            buf = rng.choice([0, 20])
            upv = rng.choice(['1.1.1', '1.3.0'])
            if variant == 'request-3857-on-4326-cache':
                grid = {'srs': 'EPSG:4326', 'bbox': [-180, -90, 180, 90], 'origin': origin, 'tile_size': [256, 256],
                        'res': [0.703125 / 2 ** k for k in range(10)]}
                gsrs, rsrs = 'EPSG:4326', 'EPSG:3857'
            elif variant in ('request-4314-on-4326-cache', 'source-4314-for-4326-cache'):
                # two geographic SRS on different datums (DHDN / WGS84): a shift of 100 - 200 m, nothing else
                grid = {'srs': 'EPSG:4326', 'bbox': [-180, -90, 180, 90], 'origin': origin, 'tile_size': [256, 256],
                        'res': [0.703125 / 2 ** k for k in range(19)]}
                gsrs, rsrs = 'EPSG:4326', ('EPSG:4314' if variant.startswith('request') else 'EPSG:4326')
            elif variant == 'deep-zoom-4326-cache':
                # centimetre resolutions in degrees: every digit of the coordinates matters
                grid = {'srs': 'EPSG:4326', 'bbox': [-180, -90, 180, 90], 'origin': origin, 'tile_size': [256, 256],
                        'res': [0.703125 / 2 ** k for k in range(25)]}
                gsrs, rsrs = 'EPSG:4326', 'EPSG:4326'
            else:
                m = 20037508.342789244
                grid = {'srs': 'EPSG:3857', 'bbox': [-m, -m, m, m], 'origin': origin, 'tile_size': [256, 256],
                        'res': [2 * m / 256 / 2 ** k for k in range(20 if variant.startswith('street') else 12)]}
                gsrs, rsrs = 'EPSG:3857', 'EPSG:4326'
            conf = {
                'services': {'wms': {'srs': ['EPSG:4326', 'EPSG:3857', 'EPSG:4314'], 'image_formats': ['image/png'], 'md': {'title': 't'}}},
                'layers': [{'name': 'lyr', 'title': 'lyr', 'sources': ['c1']}],
                'caches': {'c1': {'grids': ['g1'], 'sources': ['src'], 'format': 'image/png', 'meta_size': ms, 'meta_buffer': buf}},
                'sources': {'src': {'type': 'wms', 'req': {'url': 'http://up/wms', 'layers': 'a'}, 'wms_opts': {'version': upv}}},
                'grids': {'g1': grid},
            }
            up_srs = gsrs
            if variant == 'source-4326-for-3857-cache':
                conf['sources']['src']['supported_srs'] = ['EPSG:4326']
                up_srs, rsrs = 'EPSG:4326', 'EPSG:3857'
            elif variant == 'source-4314-for-4326-cache':
                conf['sources']['src']['supported_srs'] = ['EPSG:4314']
                up_srs = 'EPSG:4314'
            elif variant == 'direct-source-4326':
                conf['layers'][0]['sources'] = ['src']
                conf['sources']['src']['supported_srs'] = ['EPSG:4326']
                up_srs, rsrs = 'EPSG:4326', 'EPSG:3857'
            elif variant in ('direct-source-4326-coverage', 'source-4326-coverage-for-3857-cache'):
                # supported_srs and coverage together: the transformed request is cut down to the coverage
                if variant.startswith('direct'):
                    conf['layers'][0]['sources'] = ['src']
                conf['sources']['src']['supported_srs'] = ['EPSG:4326']
                conf['sources']['src']['coverage'] = {'bbox': [5.0, 47.0, 15.0, 55.0], 'srs': 'EPSG:4326'}
                up_srs, rsrs = 'EPSG:4326', 'EPSG:3857'
            try:
                app, d = build_app(ctx, conf)
            except Exception as e:  # noqa
                ctx.fail('e2e:config', 'make_wsgi_app failed for a valid configuration: %r' % (e,), {'conf': conf})
                continue
            ctx.count('e2e:reprojection=' + variant)
            prev_bbox = None
            for ri in range(ctx.n(3, 8)):
                # a request somewhere in Europe / North America, a few hundred metres to a few hundred km wide
                lon, lat = rng.uniform(-120, 40), rng.uniform(-55, 65)
                size = rng.choice([(256, 256), (300, 200), (400, 400)])
                if variant in ('request-4314-on-4326-cache', 'source-4314-for-4326-cache'):
                    lon, lat = rng.uniform(6, 14), rng.uniform(47.5, 54.5)
                    rdeg = rng.choice([1e-5, 3e-5, 1e-4])
                    bbox = (lon, lat, lon + size[0] * rdeg, lat + size[1] * rdeg)
                elif variant == 'deep-zoom-4326-cache':
                    lvl = rng.choice([21, 22, 23, 24])
                    rdeg = 0.703125 / 2 ** lvl * rng.choice([1.0, 1.0, 0.8, 1.3])
                    if rng.random() < 0.5:
                        # exactly one tile of the level
                        rdeg = 0.703125 / 2 ** lvl
                        size = (256, 256)
                        lon = -180 + math.floor((lon + 180) / (rdeg * 256)) * rdeg * 256
                        lat = -90 + math.floor((lat + 90) / (rdeg * 256)) * rdeg * 256
                    bbox = (lon, lat, lon + size[0] * rdeg, lat + size[1] * rdeg)
                elif variant.startswith('street'):
                    lon, lat = round(rng.uniform(-10, 30), 4) + 1e-5, round(rng.uniform(40, 60), 4) + 1e-5
                    rdeg = rng.choice([7, 13]) * 1e-4 / 256
                    size = (256, 256)
                    if ri % 2 == 1:
                        # history: the previous request again, panned by a few pixels (less than 1e-4 degree)
                        bbox = (prev_bbox[0] + 3e-5, prev_bbox[1] + 2e-5, prev_bbox[2] + 3e-5, prev_bbox[3] + 2e-5)
                    else:
                        bbox = (lon, lat, lon + size[0] * rdeg, lat + size[1] * rdeg)
                    prev_bbox = bbox
                elif 'coverage' in variant:
                    # across the border of the coverage (5..15 E, 47..55 N)
                    lon = rng.choice([5.0, 15.0]) + rng.uniform(-1.5, 1.5)
                    lat = rng.choice([47.0, 55.0, 51.0]) + rng.uniform(-1.5, 1.5)
                    x, y = to3857.transform(lon, lat)
                    rm = rng.choice([300.0, 1000.0, 3000.0])
                    bbox = (x - size[0] * rm / 2, y - size[1] * rm / 2, x + size[0] * rm / 2, y + size[1] * rm / 2)
                elif rsrs == 'EPSG:4326':
                    rdeg = rng.choice([0.0001, 0.001, 0.01, 0.05])
                    bbox = (lon, lat, lon + size[0] * rdeg, lat + size[1] * rdeg)
                    out_res_up = None
                else:
                    x, y = to3857.transform(lon, lat)
                    rm = rng.choice([10.0, 100.0, 1000.0, 5000.0])
                    bbox = (x, y, x + size[0] * rm, y + size[1] * rm)
                ne = rsrs in ('EPSG:4326', 'EPSG:4314')
                version = rng.choice(['1.1.1', '1.3.0'])
                url = wms_url(version, 'lyr', bbox, size, rsrs, ne)
                # cell: half an output pixel, measured in the SRS of the upstream
                if up_srs == rsrs:
                    to_up = None
                    cell = (bbox[2] - bbox[0]) / size[0] / 2.0
                else:
                    tr = TR.get((rsrs, up_srs)) or TR.setdefault((rsrs, up_srs), pyproj.Transformer.from_crs(rsrs, up_srs, always_xy=True))
                    to_up = lambda X, Y, tr=tr: tr.transform(X, Y)   # noqa
                    cx, cy = (bbox[0] + bbox[2]) / 2, (bbox[1] + bbox[3]) / 2
                    px = (bbox[2] - bbox[0]) / size[0]
                    a = tr.transform(cx, cy)
                    b = tr.transform(cx + px, cy + px)
                    cell = min(abs(b[0] - a[0]), abs(b[1] - a[1])) / 2.0
                up.cell = cell
                up.requests = []
                app, d = build_app(ctx, conf)
                rep = {'conf': conf, 'request': url, 'variant': variant}
                try:
                    resp = app.get(url, expect_errors=True)
                except Exception as e:  # noqa
                    ctx.fail('e2e:exception', 'request raised %r' % (e,), rep)
                    continue
                ctx.case(('e2e-reproj', variant, origin, tuple(ms), buf, bbox, size, version, upv), True,
                         {'config': variant, 'request': url, 'upstream_requests': [r['url'] for r in up.requests][:3]} if ri == 0 else None)
                if resp.status_int != 200 or not resp.content_type.startswith('image/'):
                    ctx.fail('e2e:error-response', 'status %s %s: %s' % (resp.status, resp.content_type, resp.text[:300] if resp.content_type.startswith(('text', 'application')) else ''), rep)
                    continue
                maps = [r for r in up.requests if r['kind'] == 'getmap']
                rep['upstream'] = [r['url'] for r in maps][:8]
                if not maps and 'coverage' in variant:
                    ctx.count('e2e:reprojection_outside_coverage')
                    continue
                if not maps:
                    ctx.fail('e2e:no-upstream', 'no upstream request for an uncached area', rep)
                    continue
                for r in maps:
                    if r['srs'] != up_srs:
                        ctx.fail('e2e:upstream-srs', 'upstream asked in %s, expected %s' % (r['srs'], up_srs), rep)
                up_res = max(max((r['bbox'][2] - r['bbox'][0]) / r['size'][0], (r['bbox'][3] - r['bbox'][1]) / r['size'][1]) for r in maps)
                # the mesh approximation may deviate by up to one pixel by design (max_px_err); a source-side reprojection
                # is followed by a second resampling from the cache level to the output
                stages = {'source-4326-for-3857-cache': 2, 'source-4314-for-4326-cache': 2, 'deep-zoom-4326-cache': 0,
                          'direct-source-4326-coverage': 2, 'source-4326-coverage-for-3857-cache': 3}.get(variant, 1) + (1 if buf else 0)
                worst = pixel_oracle(ctx, up, resp.body, bbox, size, up_res, None, to_up, rep, 'e2e:' + variant, tol_px=1.5,
                                     stages=stages)
                if worst is not None:
                    worst_all = max(worst_all, worst)
    finally:
        http.HTTPClient.open = orig_open
    ctx.distribution['e2e:reprojection_worst_error_output_px_x1000'] = int(worst_all * 1000)


# ----------------------------------------------------------------------------- deterministic probes (independent of the seed)

WM = 20037508.342789244


def wm_conf(cache=None):
    conf = {
        'services': {'wms': {'srs': ['EPSG:3857'], 'image_formats': ['image/png'], 'md': {'title': 't'}}},
        'layers': [{'name': 'lyr', 'title': 'lyr', 'sources': ['c1']}],
        'caches': {'c1': {'grids': ['GLOBAL_WEBMERCATOR'], 'sources': ['src'], 'format': 'image/png', 'meta_size': [1, 1], 'meta_buffer': 0}},
        'sources': {'src': {'type': 'wms', 'req': {'url': 'http://up/wms', 'layers': 'a'}}},
    }
    if cache is not None:
        conf['caches']['c1']['cache'] = cache
    return conf


def e2e_deep_levels(ctx):
    """Cache back-ends on deep levels of a world-wide grid (level 18 of GLOBAL_WEBMERCATOR: 262144 x 262144 tiles): maps of
    places that are 2^16 and 2^17 tile columns / rows apart (and one tile apart), each answered through one cache, then
    all of them again from the filled cache.  Every back-end has to keep these tiles apart (the compact cache addresses
    bundles with the hexadecimal row / column of the tile).  The ground pattern of the synthetic upstream has a period of
    1536 px here, so that a displacement by a power of two of tiles is visible."""
    import mapproxy.client.http as http
    up = Upstream()
    orig_open = http.HTTPClient.open
    http.HTTPClient.open = lambda self, url, data=None, method=None: up.open(url, data, method)
    level = 18
    res = WM * 2 / 256 / 2 ** level
    tile = 256 * res
    try:
        for name, cache in [('file', None), ('compact-v1', {'type': 'compact', 'version': 1}), ('compact-v2', {'type': 'compact', 'version': 2}),
                            ('sqlite', {'type': 'sqlite'}), ('mbtiles', {'type': 'mbtiles', 'filename': 'deep.mbtiles'})]:
            conf = wm_conf(cache)
            try:
                app, d = build_app(ctx, conf)
            except Exception as e:  # noqa
                ctx.fail('e2e:config', 'make_wsgi_app failed for a valid configuration: %r' % (e,), {'conf': conf})
                continue
            ctx.count('deep:config=' + name)
            up.cell = res * 0.75
            col, row = 70000 + 37, 90000 + 101      # (rows counted from the north)
            places = [('A', col, row), ('B = A + 65536 columns', col + 65536, row), ('C = A + 131072 rows', col, row + 131072),
                      ('D = A + 65536 columns + 65536 rows', col + 65536, row + 65536), ('E = A + 1 column', col + 1, row),
                      ('F = A - 65536 columns', col - 65536, row)]
            for rnd in (1, 2):
                for what, c, r in places:
                    # 200 x 150 px at the resolution of the level, inside the tile (c, r)
                    x0 = -WM + c * tile + 23 * res
                    y1 = WM - r * tile - 31 * res
                    bbox = (x0, y1 - 150 * res, x0 + 200 * res, y1)
                    size = (200, 150)
                    url = wms_url('1.1.1', 'lyr', bbox, size, 'EPSG:3857', False)
                    up.requests = []
                    rep = {'conf': conf, 'request': url, 'bbox': bbox, 'size': size, 'place': what, 'round': rnd, 'backend': name,
                           'history': 'places A..F requested in this order on one cache, then again', 'level': level, 'tile': [c, r]}
                    ctx.case(('deep', name, what, rnd), True, {'config': 'deep-level ' + name, 'request': url} if (rnd == 1 and what == 'A') else None)
                    try:
                        resp = app.get(url, expect_errors=True)
                    except Exception as e:  # noqa
                        ctx.fail('e2e:exception', 'request raised %r' % (e,), rep)
                        continue
                    if resp.status_int != 200 or not resp.content_type.startswith('image/'):
                        ctx.fail('e2e:error-response', 'status %s %s' % (resp.status, resp.content_type), rep)
                        continue
                    maps = [q for q in up.requests if q['kind'] == 'getmap']
                    rep['upstream'] = [q['url'] for q in maps][:4]
                    pixel_oracle(ctx, up, resp.body, bbox, size, res, (-WM, -WM, WM, WM), None, rep, 'deep:' + name, tol_px=1.5, stages=0)
                    if rnd == 1 and len(maps) != 1:
                        ctx.fail('deep:%s:upstream-count' % name, 'first map of place %s (one tile that was never stored): %d upstream requests, expected 1'
                                 % (what, len(maps)), rep)
                    if rnd == 2 and maps:
                        ctx.fail('deep:%s:refetch' % name, 'map of place %s asked again: %d upstream requests although the tile was stored' % (what, len(maps)), rep)
    finally:
        http.HTTPClient.open = orig_open


def e2e_schedule(ctx):
    """Two tile creators of one cache use one WMS source at the same time (concurrent_tile_creators: 2, a map that needs
    two tiles that are not stored).  For every point p of WMSClient._query_req at which the creator reads its query (bbox,
    size, srs) the schedule is forced: the creator that arrives first at p waits there until the other creator has sent a
    complete upstream request, then goes on.  Whatever the schedule, every upstream request must ask for the rectangle
    of a tile of the level with the tile size, each needed tile must be asked for and the map must show every place where
    it belongs (the stored tiles too: the same map again from the cache).  mapproxy is not changed: the gate is a
    MapQuery subclass given to mapproxy.cache.tile, active only inside WMSClient.retrieve."""
    import threading
    import mapproxy.client.http as http
    import mapproxy.cache.tile as cache_tile
    import mapproxy.client.wms as client_wms
    up = Upstream()
    st = {'point': None, 'first': None, 'achieved': False}
    lock = threading.Lock()
    other_sent = threading.Event()
    tl = threading.local()

    def gate(point):
        if not getattr(tl, 'in_retrieve', False) or st['point'] != point:
            return
        me = threading.current_thread()
        with lock:
            if st['first'] is not None:
                return
            st['first'] = me
        if other_sent.wait(5):
            st['achieved'] = True

    orig_query = cache_tile.MapQuery

    class GateQuery(orig_query):
        pass

    def gated(attr):
        def get(self):
            gate(attr)
            return self.__dict__[attr]

        def set_(self, value):
            self.__dict__[attr] = value
        return property(get, set_)
    for attr in ('bbox', 'size', 'srs'):
        setattr(GateQuery, attr, gated(attr))

    orig_retrieve = client_wms.WMSClient.retrieve

    def retrieve(self, query, format):
        tl.in_retrieve = True
        try:
            return orig_retrieve(self, query, format)
        finally:
            tl.in_retrieve = False

    def fake_open(self, url, data=None, method=None):
        with lock:
            r = up.open(url, data, method)
            first = st['first']
        if first is not None and threading.current_thread() is not first:
            other_sent.set()
        return r

    orig_open = http.HTTPClient.open
    http.HTTPClient.open = fake_open
    cache_tile.MapQuery = GateQuery
    client_wms.WMSClient.retrieve = retrieve
    level = 6
    res = WM * 2 / 256 / 2 ** level
    tile = 256 * res
    try:
        n = 0
        for layout in ('side by side', 'one above the other'):
            for point in ('bbox', 'size', 'srs'):
                n += 1
                conf = wm_conf()
                try:
                    app, d = build_app(ctx, conf, creators=2)
                except Exception as e:  # noqa
                    ctx.fail('e2e:config', 'make_wsgi_app failed for a valid configuration: %r' % (e,), {'conf': conf})
                    continue
                col, row = 20 + 3 * n, 11 + 2 * n
                x0 = -WM + col * tile + (100 if layout == 'side by side' else 30) * res
                y1 = WM - row * tile - 20 * res
                size = (300, 200) if layout == 'side by side' else (200, 300)
                bbox = (x0, y1 - size[1] * res, x0 + size[0] * res, y1)
                url = wms_url('1.1.1', 'lyr', bbox, size, 'EPSG:3857', False)
                up.cell = res / 2.0
                up.requests = []
                st.update({'point': point, 'first': None, 'achieved': False})
                other_sent.clear()
                rep = {'conf': conf, 'request': url, 'bbox': bbox, 'size': size, 'concurrent_tile_creators': 2,
                       'schedule': 'the tile creator that first reads query.%s inside WMSClient._query_req waits there until the other '
                                   'creator has sent its complete upstream request, then continues' % point}
                ctx.case(('schedule', layout, point), True, {'config': 'two tile creators, gate at query.' + point, 'request': url} if n == 1 else None)
                try:
                    resp = app.get(url, expect_errors=True)
                except Exception as e:  # noqa
                    ctx.fail('e2e:exception', 'request raised %r' % (e,), rep)
                    continue
                finally:
                    st['point'] = None
                ctx.count('schedule:achieved' if st['achieved'] else 'schedule:not_achieved')
                if resp.status_int != 200 or not resp.content_type.startswith('image/'):
                    ctx.fail('e2e:error-response', 'status %s %s' % (resp.status, resp.content_type), rep)
                    continue
                maps = [q for q in up.requests if q['kind'] == 'getmap']
                rep['upstream'] = sorted(q['url'] for q in maps)[:4]
                # the two tiles of the map
                if layout == 'side by side':
                    want = [(col, row), (col + 1, row)]
                else:
                    want = [(col, row), (col, row + 1)]
                asked = []
                for q in maps:
                    tx = (q['bbox'][0] + WM) / tile
                    ty = (WM - q['bbox'][3]) / tile
                    ok = (q['size'] == (256, 256) and abs(tx - round(tx)) < 1e-6 and abs(ty - round(ty)) < 1e-6
                          and abs((q['bbox'][2] - q['bbox'][0]) - tile) < 1e-6 * tile and abs((q['bbox'][3] - q['bbox'][1]) - tile) < 1e-6 * tile
                          and q['srs'] == 'EPSG:3857')
                    if not ok:
                        ctx.fail('schedule:upstream-request', 'upstream request %r is not one tile of level %d in EPSG:3857' % (q['url'], level), rep)
                    asked.append((int(round(tx)), int(round(ty))))
                if sorted(asked) != sorted(want):
                    ctx.fail('schedule:wrong-tiles-requested', 'the map needs the tiles %r of level %d; the upstream was asked for the rectangles of %r'
                             % (sorted(want), level, sorted(asked)), rep)
                pixel_oracle(ctx, up, resp.body, bbox, size, res, (-WM, -WM, WM, WM), None, rep, 'schedule', tol_px=1.5, stages=0)
                # what was stored: the same map again, served from the cache
                n0 = len(up.requests)
                resp2 = app.get(url, expect_errors=True)
                if resp2.status_int == 200:
                    pixel_oracle(ctx, up, resp2.body, bbox, size, res, (-WM, -WM, WM, WM), None, dict(rep, request_number=2), 'schedule:cached', tol_px=1.5, stages=0)
                if len(up.requests) != n0:
                    ctx.fail('schedule:refetch', 'second identical request went upstream again', rep)
    finally:
        http.HTTPClient.open = orig_open
        cache_tile.MapQuery = orig_query
        client_wms.WMSClient.retrieve = orig_retrieve


def e2e_meta_span(ctx):
    """Deterministic probe: a map that is exactly a block of whole meta tiles (two / three side by side, one above the
    other, 2 x 2) on an empty cache.  TileManager._load_tile_coords gets the created tiles back meta tile after meta
    tile while the request lists its tiles row by row over the whole map; every created tile has to end up in the cell
    of its own coordinate.  Checked on the first answer (cache being filled), on the second answer (from the cache) and
    through a second cache built on top of the first (which stores what the first answer showed)."""
    import mapproxy.client.http as http
    up = Upstream()
    orig_open = http.HTTPClient.open
    http.HTTPClient.open = lambda self, url, data=None, method=None: up.open(url, data, method)
    tw = th = 64
    res = [8.0, 4.0, 2.0, 1.0]
    gbbox = [0.0, 0.0, 2048.0, 2048.0]
    try:
        for origin in ('ll', 'ul'):
            for ms, buf in (([2, 2], 0), ([1, 2], 0), ([3, 2], 0), ([2, 3], 16)):
                for blocks, at in (((2, 1), (2, 1)), ((3, 1), (0, 2)), ((1, 2), (2, 0)), ((2, 2), (1, 1))):
                    for cascade in (False, True):
                        if cascade and (blocks != (2, 1) or buf):
                            continue
                        level = 2
                        r = res[level]
                        mw, mh = ms[0] * tw * r, ms[1] * th * r
                        # meta tiles are aligned to the tile numbering of the grid origin
                        x0 = at[0] * mw
                        if origin == 'll':
                            y0 = at[1] * mh
                        else:
                            y0 = gbbox[3] - (at[1] + blocks[1]) * mh
                        bbox = (x0, y0, x0 + blocks[0] * mw, y0 + blocks[1] * mh)
                        size = (int(blocks[0] * ms[0] * tw), int(blocks[1] * ms[1] * th))
                        grid = {'srs': 'EPSG:3857', 'bbox': gbbox, 'tile_size': [tw, th], 'res': res, 'origin': origin}
                        conf = {
                            'services': {'wms': {'srs': ['EPSG:3857'], 'image_formats': ['image/png'], 'md': {'title': 't'}}},
                            'layers': [{'name': 'lyr', 'title': 'lyr', 'sources': ['c1']}],
                            'caches': {'c1': {'grids': ['g1'], 'sources': ['src'], 'format': 'image/png', 'meta_size': ms, 'meta_buffer': buf}},
                            'sources': {'src': {'type': 'wms', 'req': {'url': 'http://up/wms', 'layers': 'a'}}},
                            'grids': {'g1': grid},
                        }
                        if cascade:
                            # one tile of the upper cache is the whole block of meta tiles of the lower cache
                            g2 = dict(grid, tile_size=[size[0], size[1]], res=[2 * r, r])
                            conf['grids']['g2'] = g2
                            conf['caches']['c2'] = {'grids': ['g2'], 'sources': ['c1'], 'format': 'image/png', 'meta_size': [1, 1], 'meta_buffer': 0}
                            conf['layers'][0]['sources'] = ['c2']
                        try:
                            app, d = build_app(ctx, conf)
                        except Exception as e:  # noqa
                            ctx.fail('e2e:config', 'make_wsgi_app failed for a valid configuration: %r' % (e,), {'conf': conf})
                            continue
                        url = wms_url('1.1.1', 'lyr', bbox, size, 'EPSG:3857', False)
                        up.cell = r / 2.0
                        up.requests = []
                        rep = {'conf': conf, 'request': url, 'bbox': bbox, 'size': size, 'history': 'empty cache; the map is exactly %d x %d whole meta tiles of %d x %d tiles'
                               % (blocks[0], blocks[1], ms[0], ms[1]), 'level': level}
                        ctx.case(('meta-span', origin, tuple(ms), buf, blocks, cascade), True,
                                 {'config': 'map = block of whole meta tiles', 'request': url} if (origin == 'll' and ms == [2, 2] and blocks == (2, 1) and not cascade) else None)
                        ctx.count('meta_span:cascade' if cascade else 'meta_span:cache')
                        try:
                            resp = app.get(url, expect_errors=True)
                        except Exception as e:  # noqa
                            ctx.fail('e2e:exception', 'request raised %r' % (e,), rep)
                            continue
                        if resp.status_int != 200 or not resp.content_type.startswith('image/'):
                            ctx.fail('e2e:error-response', 'status %s %s' % (resp.status, resp.content_type), rep)
                            continue
                        maps = [q for q in up.requests if q['kind'] == 'getmap']
                        rep['upstream'] = [q['url'] for q in maps][:6]
                        if len(maps) != blocks[0] * blocks[1]:
                            ctx.fail('meta_span:upstream-count', '%d upstream requests for a map of %d whole meta tiles' % (len(maps), blocks[0] * blocks[1]), rep)
                        # buffered meta tiles at the grid border are clipped: one more truncation stage
                        stages = (1 if buf else 0) + (2 if cascade else 0)
                        pixel_oracle(ctx, up, resp.body, bbox, size, r, gbbox, None, rep, 'meta_span:first-answer', tol_px=1.5, stages=stages)
                        n0 = len(up.requests)
                        resp2 = app.get(url, expect_errors=True)
                        if resp2.status_int == 200:
                            pixel_oracle(ctx, up, resp2.body, bbox, size, r, gbbox, None, dict(rep, request_number=2), 'meta_span:cached-answer', tol_px=1.5, stages=stages)
                        if len(up.requests) != n0:
                            ctx.fail('meta_span:refetch', 'second identical request went upstream again', rep)
    finally:
        http.HTTPClient.open = orig_open


def replay_corpus(ctx):
    """minimised witnesses (corpus/C01/*.json) are replayed first"""
    import mapproxy.client.http as http
    if not os.path.isdir(CORPUS):
        return
    up = Upstream()
    orig_open = http.HTTPClient.open
    http.HTTPClient.open = lambda self, url, data=None, method=None: up.open(url, data, method)
    try:
        for fn in sorted(os.listdir(CORPUS)):
            if not fn.endswith('.json'):
                continue
            case = json.load(open(os.path.join(CORPUS, fn)))
            try:
                app, d = build_app(ctx, case['conf'])
            except Exception as e:  # noqa
                ctx.fail('e2e:config', 'make_wsgi_app failed for corpus configuration %s: %r' % (fn, e), {'corpus': fn})
                continue
            up.requests = []
            rep = {'corpus': fn, 'conf': case['conf'], 'request': case['request']}
            ctx.case(('corpus', fn), True)
            ctx.count('corpus:' + case['type'])
            if case['type'] == 'map':
                bbox, size = case['bbox'], tuple(case['size'])
                up.cell = (bbox[2] - bbox[0]) / size[0] / 2.0
                rep['duplicate_meta_bbox'] = case.get('duplicate_meta_bbox', False)
                resp = app.get(case['request'], expect_errors=True)
                if resp.status_int != 200:
                    ctx.fail('e2e:error-response', 'corpus %s: status %s' % (fn, resp.status), rep)
                    continue
                maps = [r for r in up.requests if r['kind'] == 'getmap']
                up_res = max([max((r['bbox'][2] - r['bbox'][0]) / r['size'][0], (r['bbox'][3] - r['bbox'][1]) / r['size'][1]) for r in maps] or [up.cell * 2])
                pixel_oracle(ctx, up, resp.body, bbox, size, up_res, case.get('extent'), None, rep, 'e2e:corpus', tol_px=1.5, stages=case.get('stages', 0))
            elif case['type'] == 'wmts-fi':
                resp = app.get(case['request'], expect_errors=True)
                fis = [r for r in up.requests if 'pos' in r]
                rect = case['rect']
                if resp.status_int != 200 or len(fis) != 1:
                    ctx.fail('fi:wmts-not-forwarded', 'corpus %s: status %s, %d upstream requests' % (fn, resp.status, len(fis)), rep)
                elif any(abs(a - b) > 1e-6 * (1 + abs(b)) for a, b in zip(fis[0]['bbox'], rect)) or list(fis[0]['pos']) != list(case['pos']):
                    ctx.fail('fi:wmts-%s-wrong-tile' % case['style'], 'WMTS GetFeatureInfo (%s) %s: tile rectangle %r, forwarded bbox %r pos %r'
                             % (case['style'], case['request'], rect, fis[0]['bbox'], fis[0]['pos']), rep)
    finally:
        http.HTTPClient.open = orig_open


def run(ctx):
    T = Table()
    TILE_CONFS[0] = 0
    try:
        replay_corpus(ctx)
    except Exception as e:  # noqa
        import traceback
        ctx.problem('harness', 'corpus replay could not run: %r' % (e,), traceback.format_exc())
    grid_defs = run_pure(ctx, T)
    for name, f in [('same_srs', lambda: e2e_same_srs(ctx, T, grid_defs)), ('featureinfo', lambda: e2e_featureinfo(ctx, T, grid_defs)),
                    ('featureinfo_transformed', lambda: e2e_featureinfo_transformed(ctx)),
                    ('srs_extent', lambda: e2e_srs_extent(ctx, T)),
                    ('reprojected', lambda: e2e_reprojected(ctx)),
                    ('deep_levels', lambda: e2e_deep_levels(ctx)), ('schedule', lambda: e2e_schedule(ctx)),
                    ('meta_span', lambda: e2e_meta_span(ctx))]:
        try:
            f()
        except Exception as e:  # noqa
            import traceback
            ctx.problem('harness', 'application stage %s could not run: %r' % (name, e), traceback.format_exc())
    correspond(ctx, T, grid_defs)
