"""C08  Concurrent requests for one uncached tile: all correct, one upstream fetch.

Model: coq/theories/Creator.v, lemmas: coq/theories/Creator_proofs.v, theorems: coq/props/P_C08.v.

Tie (correspondence): 2-6 requesters run as threads through the real TileManager.load_tile_coords ->
TileCreator.create_tiles -> _create_single_tile / _create_meta_tile with a real FileCache (real files), the real
TileLocker / FileLock / LockFile (real flock on real lock files) and a synthetic upstream source.  Every access to the
shared world is gated by a deterministic scheduler, so exactly one requester performs exactly one access at a time in
the order a schedule (list of requester ids) dictates:
    cache read    os.path.exists as called by mapproxy.cache.file (FileCache.load_tile / is_cached) and os.lstat
                  (load_tile_metadata of TileManager.is_cached when an expire timestamp is set; merged with the exists
                  call of the same is_cached into one look; likewise the os.lstat of FileCache.load_tile(with_metadata=True),
                  the load of a request that waited for the lock)
    lock attempt  FileLock._try_lock (the real LockFile constructor runs inside; time.sleep between attempts is skipped)
    upstream      source.get_map
    cache write   write_atomic as called by mapproxy.cache.file (FileCache._store)
    unlock        os.remove as called by mapproxy.util.lock (FileLock.unlock)
The observed (requester, access, result) sequence, the responses, the final cache directory and the upstream log are
replayed through `Creator.step` inside Coq (`trace_ok`): every access must be the one the model makes next for that
requester with the same result, and the model's responses / cache / upstream log must equal the observed ones.
MetaGrid.main_tile / MetaTile.tiles / the lock coordinate and TileLocker.lock_filename are compared separately with
g_main / g_members / g_key / lock_name on random grids and coordinates.

The model is the repaired protocol (o_reload = true: a tile that is_cached finds although load_tiles missed it is
loaded again, finding F22); corpus/C08/race-*.json are the witness schedules of the race and are replayed first.

Two deterministic families run under the oracle only (no model of these parts): `wms_family` puts a real WMSSource /
WMSClient (fake HTTP client) behind the tile manager and gates the upstream call twice - the URL is built from the
filled-in request object ('ubuild'), the URL is sent ('fetch') - for requests of different meta tiles (they share the
client's request template but no lock); `live_lock_cleanup_family` lets the periodic lock directory clean-up run while a
lock has been held for lock_timeout + 0..9 s (virtual clock) and then sends a request for the locked meta tile.

Oracle (independent of the model, on what the implementation did): at most one upstream call per meta tile; every
response tile carries the image of its own coordinate; the cache directory ends up holding exactly the valid tiles of
the meta tiles that had to be created (plus the initial tiles), each with its own image; a lock attempt is refused only
while another requester holds the lock of the same meta tile; everything done under a lock concerns tiles of the meta
tile named by the lock file; no exception, no hang.
"""
import glob
import hashlib
import io
import itertools
import json
import os
import shutil
import threading
import time

from common import blit, llit, zlit, slit, VERIF

ID = 'C08'
TECHNIQUE = ('Coq proof (inductive invariants over all schedules of an unbounded number of requesters) + correspondence '
             'check of the executable transition system against the real TileManager/FileCache/TileLocker under a '
             'deterministic scheduler')
LEVEL_TEXT = ('Theorems over the Gallina transition system of _load_tile_coords / create_tiles / _create_single_tile / '
              '_create_meta_tile at the granularity of cache reads, lock attempts, upstream calls, cache writes and unlocks, '
              'for every number of requesters, every request list, every initial cache with correct content and every schedule; '
              'the grid part (main_tile, meta tile members, lock coordinate, lock file name) is proved for every valid grid. '
              'The model is tied to the code by running real requesters on real files under a scheduler that serialises their '
              'accesses and replaying the observed trace through the model in Coq.')
LEVEL_NOTE = ('Trusted: Coq kernel, the hand-written model Creator.v, the scheduler harness.  Imported, not proved here: the '
              'lock of one lock file is exclusive (C07).  Modelled, not verified: the file system (exists / atomic rename), '
              'PIL encode/decode/crop (content = one colour per tile), thread safety of PIL.  Expiry is inside the statement '
              '(expire timestamp before the start of the run, expired files at the start; is_cached = exists + mtime look); '
              'bulk meta tiles of tiled sources are inside too (one upstream request per tile); outside: tiles removed during the run, an expire timestamp that moves past files written during the run, '
              'uncacheable or blank upstream answers, upstream errors, '
              'minimize_meta_requests, concurrent_tile_creators > 1 inside one request (each pool worker '
              'behaves like one more requester), rescale_tiles, dimensions, sqlite/mbtiles back ends, lock timeouts.  '
              'Under the oracle only (real code, chosen schedules, no model): the WMS client behind the source (request '
              'template shared by concurrent upstream calls of different meta tiles) and the lock directory clean-up '
              'while a lock older than the lock timeout is still held.')
DESIGN_REF = 'DESIGN.md section 5, C08'
RULE = ('case = one configuration (grid, meta size, initial cache, 2-6 request lists) run under one schedule to completion; '
        'non-trivial = at least two requesters needed the same meta tile and at least one of them was refused the lock or '
        'found the tiles under the lock / in the second look; distinct by configuration + executed (requester, access, result) sequence')
TRUSTED = ['model Creator.v hand-written from mapproxy/cache/tile.py, cache/file.py, cache/base.py, grid.py (MetaGrid); tie = '
           'differential run of the real classes under an access-level scheduler vs Creator.step',
           'exclusivity of one lock file is the theorem of C07 (abstract lock table in this model)']
ASSUMPTIONS = ['a lock file is held by at most one requester (C07)',
               'tiles are not removed while the requests run; a tile written during the run is not expired (the expire '
               'timestamp lies before the start of the run)',
               'file sources (tiles loaded from the cache) are read when the response is built, after the request finished',
               'the upstream answers every query with a cacheable image whose tiles depend only on the tile coordinate',
               'requests contain valid, distinct tile coordinates of the grid',
               'each request creates its meta tiles one after the other (concurrent_tile_creators = 1)']
EXPLANATION = ('one upstream call per meta tile, correct responses and exact final cache proved as inductive invariants for all '
               'schedules; real TileManager threads driven through chosen interleavings at access granularity and compared step '
               'by step with the model')

HANG_S = 60.0
TS = 4          # tile size in pixels
SIG_RACE = 'response-missing-tile,stored-between-load-and-is_cached'
SIG_CHMOD = 'lock-file-removed-between-create-and-chmod'


def enc(c):
    return c[0] + 256 * c[1] + 65536 * c[2]


def enc_stale(c):
    """content id of the expired image of tile c (colour of z + 100)"""
    return enc((c[0], c[1], c[2] + 100))


def colour(c):
    return (16 + c[0], 16 + c[1], 16 + c[2])


def decode_image(img):
    """content id of a tile image: the coordinate its colour encodes, -2 when it is not one colour"""
    img = img.convert('RGB')
    cols = img.getcolors(4)
    if not cols or len(cols) != 1:
        return -2
    r, g, b = cols[0][1]
    if r < 16 or g < 16 or b < 16:
        return -3
    return enc((r - 16, g - 16, b - 16))


def decode_bytes(data):
    from PIL import Image
    try:
        return decode_image(Image.open(io.BytesIO(data)))
    except Exception:  # noqa
        return -4


class Abort(BaseException):
    pass


class Hang(Exception):
    pass


class Proxy(object):
    def __init__(self, real, **over):
        self._real = real
        self.__dict__.update(over)

    def __getattr__(self, name):
        return getattr(self._real, name)


# ----------------------------------------------------------------------------- world

class World(object):
    """one configuration on disk: grid, cache, tile locker(s), synthetic source, tile manager(s).
    conf['kind']: 'file' (FileCache, replayed through the model), 'file-link' (FileCache with link_single_color_images,
    upstream paints every tile in one colour, write_atomic gated at its temp-file creation and its rename) and 'sqlite'
    (MBTilesLevelCache): the last two are run under the oracle only.
    conf['procs']: every requester has its own cache / locker / tile manager objects on the shared directories (what
    separate worker processes have).  conf['dims']: the requests carry these dimensions."""

    def __init__(self, conf, base, nworkers=1):
        from mapproxy.cache.base import TileLocker
        from mapproxy.cache.tile import TileManager, Tile
        from mapproxy.grid import TileGrid
        from mapproxy.image.opts import ImageOptions
        self.conf = conf
        self.base = base
        self.kind = conf.get('kind', 'file')
        self.bulk = bool(conf.get('bulk'))
        self.lock_timeout = conf.get('lock_timeout', 1000)
        self.vclock = 'lock_timeout' in conf       # virtual clock for mapproxy.util.lock
        self.clock = time.time()
        self.uncacheable = set(tuple(t) for t in conf.get('uncacheable') or [])
        self.gate_cleanup = bool(conf.get('cleanup'))     # the periodic lock directory clean-up is run and gated
        self.lock_perms = conf.get('lock_perms')          # file_permissions of the tile locker (chmod of lock files gated)
        self.wms = bool(conf.get('wms'))                  # the source is a real WMSSource / WMSClient (fake HTTP client)
        self.lenient = (self.kind != 'file' or self.vclock or bool(self.uncacheable) or self.gate_cleanup
                        or bool(self.lock_perms) or self.wms)
        self.substeps = self.kind == 'file-link'
        self.uniform = self.kind == 'file-link'
        self.procs = bool(conf.get('procs'))
        self.dims = dict(conf['dims']) if conf.get('dims') else None
        w, h = conf['extent']
        self.grid = TileGrid(srs=4326, bbox=(0, 0, w, h), tile_size=(TS, TS), res=list(conf['res']),
                             origin=conf['origin'])
        self.sizes = [tuple(s) for s in self.grid.grid_sizes.values()] if isinstance(self.grid.grid_sizes, dict) \
            else [tuple(s) for s in self.grid.grid_sizes]
        self.cache_dir = os.path.join(base, 'cache')
        self.lock_dir = os.path.join(base, 'locks')
        self.opts = ImageOptions(format='image/png')
        self.source = Source(self)
        if self.bulk:
            self.source.supports_meta_tiles = False      # a tiled source: bulk meta tiles, one upstream request per tile
        self.tm_source = make_wms_source(self) if self.wms else self.source
        self.expire = bool(conf.get('expire'))
        self.expire_ts = int(time.time()) - 1000
        ms = list(conf['meta'])
        self.caches, self.tms = [], []
        for _ in range(nworkers if self.procs else 1):
            cache = self.make_cache()
            locker = TileLocker(self.lock_dir, self.lock_timeout, cache.lock_cache_id, file_permissions=self.lock_perms)
            tm = TileManager(self.grid, cache, [self.tm_source], 'png', locker, image_opts=self.opts,
                             meta_size=ms, meta_buffer=0, concurrent_tile_creators=1, bulk_meta_tiles=self.bulk)
            if self.expire:
                # an expire timestamp in the past: files written during the run are not expired
                tm._expire_timestamp = self.expire_ts
            self.caches.append(cache)
            self.tms.append(tm)
        if not self.procs:
            self.tms = self.tms * nworkers
        self.cache, self.tm = self.caches[0], self.tms[0]
        self.meta = self.tm.meta_grid is not None
        self.flip = bool(self.grid.flipped_y_axis)
        self.stale = []
        self.loc = {}
        self.decoy_loc = {}
        if self.kind not in ('sqlite', 'compact', 'mbtiles'):
            for cache in self.caches:
                self.mark_is_cached(cache)
            for z, (gw, gh) in enumerate(self.sizes):
                for x in range(gw):
                    for y in range(gh):
                        self.loc[os.path.normpath(self.cache.tile_location(Tile((x, y, z)), dimensions=self.dims))] = (x, y, z)
                        if self.dims:
                            for d in (None, {k: v + 'x' for k, v in self.dims.items()}):
                                self.decoy_loc[os.path.normpath(self.cache.tile_location(Tile((x, y, z)), dimensions=d))] = (x, y, z)
        self.sched = None

    def make_cache(self):
        if self.kind == 'sqlite':
            from mapproxy.cache.mbtiles import MBTilesLevelCache
            return MBTilesLevelCache(self.cache_dir)
        if self.kind == 'compact':
            from mapproxy.cache.compact import CompactCacheV2
            return CompactCacheV2(self.cache_dir)
        if self.kind == 'mbtiles':
            from mapproxy.cache.mbtiles import MBTilesCache
            os.makedirs(self.cache_dir, exist_ok=True)
            return MBTilesCache(os.path.join(self.cache_dir, 'tiles.mbtiles'), timeout=2)
        from mapproxy.cache.file import FileCache
        return FileCache(self.cache_dir, 'png', link_single_color_images=(self.kind == 'file-link'))

    def mark_is_cached(self, cache):
        # mark the calls FileCache.is_cached makes (its os.path.exists and the os.lstat of the metadata that follows
        # in TileManager.is_cached are one look at the file)
        real_is_cached = cache.is_cached
        world = self

        def is_cached(tile, dimensions=None):
            s = world.sched
            if s is not None and s.tid() is not None:
                s.tls.in_is_cached = True
                try:
                    return real_is_cached(tile, dimensions=dimensions)
                finally:
                    s.tls.in_is_cached = False
            return real_is_cached(tile, dimensions=dimensions)
        cache.is_cached = is_cached
        # FileCache.load_tile(with_metadata=True) = os.path.exists + os.lstat: one look at the file as well
        real_load_tile = cache.load_tile

        def load_tile(tile, with_metadata=False, dimensions=None):
            s = world.sched
            if with_metadata and s is not None and s.tid() is not None:
                s.tls.in_load_meta = True
                try:
                    return real_load_tile(tile, with_metadata=with_metadata, dimensions=dimensions)
                finally:
                    s.tls.in_load_meta = False
            return real_load_tile(tile, with_metadata=with_metadata, dimensions=dimensions)
        cache.load_tile = load_tile

    def want(self, c):
        """content id the upstream delivers for tile c"""
        return enc((34, 44, 54)) if self.uniform else enc(c)

    # the harness's own arithmetic (independent of MetaGrid): which meta tile does a tile belong to
    def my_msize(self, z):
        gw, gh = self.sizes[z]
        if not self.meta:
            return 1, 1
        return min(self.conf['meta'][0], gw), min(self.conf['meta'][1], gh)

    def my_main(self, c):
        x, y, z = c
        mw, mh = self.my_msize(z)
        return (x - x % mw, y - y % mh, z)

    def my_members(self, m):
        x0, y0, z = m
        mw, mh = self.my_msize(z)
        gw, gh = self.sizes[z]
        return sorted((x, y, z) for x in range(x0, x0 + mw) for y in range(y0, y0 + mh) if x < gw and y < gh)

    def coord_of(self, path):
        return self.loc.get(os.path.normpath(path))

    def key_of(self, lock_file):
        name = os.path.basename(lock_file)
        pre = self.cache.lock_cache_id + '-'
        if not (name.startswith(pre) and name.endswith('.lck')):
            return None
        try:
            parts = [int(p) for p in name[len(pre):-4].split('-')]
        except ValueError:
            return None
        return tuple(parts) if len(parts) == 3 else None

    def seed(self, coords):
        from mapproxy.cache.tile import Tile
        from mapproxy.image import ImageSource
        from PIL import Image
        for c in coords:
            img = Image.new('RGB', (TS, TS), colour(c))
            self.cache.store_tile(Tile(c, ImageSource(img, image_opts=self.opts)), dimensions=self.dims)

    def seed_decoys(self, coords):
        """the same tiles under no dimension and under another dimension value, with another image (colour of z + 50)"""
        from mapproxy.cache.tile import Tile
        from mapproxy.image import ImageSource
        from PIL import Image
        if not self.dims:
            return
        for c in coords:
            for d in (None, {k: v + 'x' for k, v in self.dims.items()}):
                img = Image.new('RGB', (TS, TS), colour((c[0], c[1], c[2] + 50)))
                self.cache.store_tile(Tile(c, ImageSource(img, image_opts=self.opts)), dimensions=d)

    def seed_stale(self, coords):
        """expired files: an older image (colour of z+100) with a modification time before the expire timestamp"""
        from mapproxy.cache.tile import Tile
        from mapproxy.image import ImageSource
        from PIL import Image
        for c in coords:
            img = Image.new('RGB', (TS, TS), colour((c[0], c[1], c[2] + 100)))
            t = Tile(c, ImageSource(img, image_opts=self.opts))
            self.cache.store_tile(t, dimensions=self.dims)
            loc = self.cache.tile_location(Tile(c), dimensions=self.dims)
            os.utime(loc, (self.expire_ts - 5000, self.expire_ts - 5000))

    def final_cache(self):
        from PIL import Image
        from mapproxy.cache.tile import Tile
        out = {}
        extra = []
        if self.kind in ('sqlite', 'compact', 'mbtiles'):
            try:
                cache = self.make_cache()
                for z, (gw, gh) in enumerate(self.sizes):
                    if self.kind == 'sqlite' and not os.path.exists(os.path.join(self.cache_dir, '%s.mbtile' % z)):
                        continue
                    for x in range(gw):
                        for y in range(gh):
                            t = Tile((x, y, z))
                            if cache.load_tile(t) and t.source is not None:
                                try:
                                    out[(x, y, z)] = decode_image(t.source.as_image())
                                except Exception:  # noqa
                                    out[(x, y, z)] = -4
                if self.kind in ('sqlite', 'mbtiles'):
                    cache.cleanup()
            except Exception as ex:  # noqa
                extra.append('unreadable %s cache: %s' % (self.kind, type(ex).__name__))
            return out, extra
        for root, _dirs, files in os.walk(self.cache_dir):
            for fn in files:
                p = os.path.join(root, fn)
                c = self.coord_of(p)
                if c is None:
                    if os.path.normpath(p) in self.decoy_loc:
                        continue
                    if self.kind == 'file-link' and os.path.basename(root) == 'single_color_tiles' and '.tmp-' not in fn:
                        continue
                    extra.append(os.path.relpath(p, self.cache_dir))
                    continue
                try:
                    out[c] = decode_image(Image.open(p))
                except Exception:  # noqa
                    out[c] = -4
        return out, extra

    def left_locks(self):
        return sorted(glob.glob(os.path.join(self.lock_dir, '*.lck')))


class Source(object):
    """synthetic upstream: every tile-sized block of the answer is painted with the colour of its tile coordinate"""
    supports_meta_tiles = True
    coverage = None
    extent = None
    res_range = None

    def __init__(self, world):
        self.world = world
        self.calls = []

    def get_map(self, query):
        from mapproxy.image import ImageSource
        w = self.world
        s = w.sched
        entry = s.gate('fetch') if s is not None else None
        img, blocks, main = paint_answer(w, query.bbox, query.size)
        self.calls.append({'main': main, 'blocks': sorted(blocks), 'size': tuple(query.size)})
        if entry is not None:
            entry['res'] = ('fetch', main)
            s.note_under_lock(entry, blocks)
        # tiles the upstream marks as not to be cached (error fill images, Cache-Control): only in bulk answers, per tile
        cacheable = not (w.bulk and any(b in w.uncacheable for b in blocks))
        return ImageSource(img, image_opts=w.opts, cacheable=cacheable)


def paint_answer(w, bbox, size):
    """the upstream's picture for bbox / size: every tile-sized block painted with the colour of its tile coordinate;
    returns (image, covered tile coordinates, smallest covered coordinate)"""
    from PIL import Image
    res = (bbox[2] - bbox[0]) / float(size[0])
    level = min(range(len(w.conf['res'])), key=lambda i: abs(w.conf['res'][i] - res))
    r = float(w.conf['res'][level])
    gw, gh = w.sizes[level]
    img = Image.new('RGB', size, (0, 0, 0))
    blocks = []
    for i in range(size[0] // TS):
        for j in range(size[1] // TS):
            # centre of the block in map units; j counts from the top of the image
            cx = bbox[0] + (i + 0.5) * TS * r
            cy = bbox[3] - (j + 0.5) * TS * r
            tx = int(cx // (TS * r))
            if w.conf['origin'] == 'ul':
                ty = int((w.conf['extent'][1] - cy) // (TS * r))
            else:
                ty = int(cy // (TS * r))
            if 0 <= tx < gw and 0 <= ty < gh:
                blocks.append((tx, ty, level))
                img.paste((50, 60, 70) if w.uniform else colour((tx, ty, level)),
                          (i * TS, j * TS, (i + 1) * TS, (j + 1) * TS))
    main = (min(b[0] for b in blocks), min(b[1] for b in blocks), level) if blocks else (-1, -1, level)
    return img, blocks, main


class FakeHTTP(object):
    """the HTTP client of a real WMSClient: answers the GetMap URL it is given (gated: this is the upstream call)"""

    def __init__(self, world):
        self.world = world

    def open(self, url, data=None, method=None):
        from urllib.parse import urlparse, parse_qs
        w = self.world
        s = w.sched
        entry = s.gate('fetch') if s is not None else None
        qs = dict((k.lower(), v[0]) for k, v in parse_qs(urlparse(url).query).items())
        bbox = tuple(float(v) for v in qs['bbox'].split(','))
        size = (int(qs['width']), int(qs['height']))
        img, blocks, main = paint_answer(w, bbox, size)
        w.source.calls.append({'main': main, 'blocks': sorted(blocks), 'size': size})
        if entry is not None:
            entry['res'] = ('fetch', main)
            s.note_under_lock(entry, blocks)
        buf = io.BytesIO()
        img.save(buf, 'png')
        resp = io.BytesIO(buf.getvalue())
        resp.headers = {'Content-type': 'image/png'}
        resp.code = 200
        return resp


def make_wms_source(world):
    """a real WMSSource / WMSClient on a GetMap request template (one template object shared by all requests of the
    source, as in a configured service).  Two accesses of the upstream call are gated: the URL is built from the request
    object ('ubuild', at the entry of complete_url: the parameters of the query have been filled in) and the URL is
    sent ('fetch')."""
    from mapproxy.client.wms import WMSClient
    from mapproxy.request.wms import create_request
    from mapproxy.source.wms import WMSSource
    req = create_request({'url': 'http://upstream.invalid/service?', 'layers': 'foo'}, {'format': 'image/png'})
    base = type(req)

    class GatedRequest(base):
        @property
        def complete_url(self_):
            s = world.sched
            entry = s.gate('ubuild') if s is not None else None
            url = base.complete_url.fget(self_)
            if entry is not None:
                entry['res'] = ('ubuild',)
            return url
    req.__class__ = GatedRequest
    return WMSSource(WMSClient(req, http_client=FakeHTTP(world)), image_opts=world.opts)


# ----------------------------------------------------------------------------- scheduler

class Sched(object):
    def __init__(self, world, reqs):
        self.world = world
        self.reqs = reqs
        self.m = len(reqs)
        self.sems = [threading.Semaphore(0) for _ in range(self.m)]
        self.arrived = threading.Semaphore(0)
        self.pending = [None] * self.m
        self.finished = [False] * self.m
        self.tls = threading.local()
        self.aborting = False
        self.trace = []
        self.cur = None
        self.weird = []
        self.oracle_fail = []
        self.results = [None] * self.m
        self.removes = 0           # lock files removed so far (unlocks)
        self.attempt_existed = {}  # tid -> did the lock file exist when the current lock attempt started
        self.chmod_lost = set()    # requesters whose chmod of a lock file THEY created found it removed (known finding)
        self.timeout_ok = set()   # requesters that may end with LockTimeout
        self.wait_start = {}      # tid -> virtual clock at the first refused attempt of the current lock() call
        self.last_exists = {}  # tid -> (path, entry, exists) of the exists call of the current step
        self.holding = {}      # tid -> lock key
        self.holder = {}       # lock key -> tid

    def tid(self):
        return getattr(self.tls, 'tid', None)

    def gate(self, opname):
        tid = self.tid()
        if tid is None:
            return None
        if self.aborting:
            raise Abort()
        self.last_exists[tid] = None
        self.pending[tid] = opname
        self.arrived.release()
        self.sems[tid].acquire()
        if self.aborting:
            raise Abort()
        return self.cur

    def note_under_lock(self, entry, coords):
        """oracle: whatever a requester does while it holds a lock concerns the meta tile the lock file names"""
        k = self.holding.get(entry['pid'])
        if k is None or len(k) != 3 or not all(isinstance(v, int) for v in k):
            return
        for c in coords:
            if self.world.lenient and c == (-1, -1, -1):
                continue        # the shared single colour file
            if self.world.my_main(c) != k:
                self.oracle_fail.append(('lock-names-other-meta-tile',
                                         'requester %d holds the lock file of tile %r while it works on tile %r of meta tile %r' % (
                                             entry['pid'], k, c, self.world.my_main(c))))

    # gated calls ---------------------------------------------------------------
    def w_exists(self, path):
        entry = self.gate('read')
        r = os.path.exists(path)
        if entry is None:
            return r
        c = self.world.coord_of(path)
        if c is None:
            if os.path.normpath(path) in self.world.decoy_loc:
                self.oracle_fail.append(('wrong-dimension-location',
                                         'requester %d with dimensions %r looks for tile %r at %s' % (
                                             entry['pid'], self.world.dims, self.world.decoy_loc[os.path.normpath(path)],
                                             os.path.relpath(path, self.world.cache_dir))))
                c = (-2, -2, -2)
            else:
                if not self.world.lenient:
                    self.weird.append('cache read of unexpected path %r' % (path,))
                c = (-1, -1, -1)
        entry['res'] = ('read', c, bool(r))
        if getattr(self.tls, 'in_is_cached', False):
            self.last_exists[entry['pid']] = (path, entry, bool(r), True)
        elif getattr(self.tls, 'in_load_meta', False):
            self.last_exists[entry['pid']] = (path, entry, bool(r), False)
        self.note_under_lock(entry, [c])
        return r

    def w_fs_open(self, path, flags, *a):
        """write_atomic, first half: the temporary file is created (O_EXCL)"""
        if self.tid() is None or not self.world.substeps or not (flags & os.O_EXCL):
            return os.open(path, flags, *a)
        entry = self.gate('wtmp')
        entry['res'] = ('wtmp', os.path.basename(path).split('.tmp-')[0])
        return os.open(path, flags, *a)

    def w_fs_rename(self, src, dst):
        """write_atomic, second half: the temporary file gets the name of the tile file"""
        if self.tid() is None or not self.world.substeps:
            return os.rename(src, dst)
        entry = self.gate('write')
        c = self.world.coord_of(dst) or (-1, -1, -1)
        entry['res'] = ('write', c, os.path.basename(dst))
        return os.rename(src, dst)

    def w_lockdir(self, what, func, path):
        """cleanup_lockdir: os.path.isfile / os.path.getmtime of a lock file (gated only in the clean-up family)"""
        if self.tid() is None or not self.world.gate_cleanup:
            return func(path)
        entry = self.gate(what)
        try:
            r = func(path)
        except OSError as ex:
            entry['res'] = (what, os.path.basename(path), type(ex).__name__)
            raise
        entry['res'] = (what, os.path.basename(path), bool(r) if what == 'lisfile' else 'mtime')
        return r

    def w_bundle(self, what, real, bundle, fh, *a):
        """compact cache: one of the raw writes of BundleV2._store_tile (data append, index entry, header); made visible
        to readers when it returns (flush)"""
        if self.tid() is None or self.world.kind != 'compact':
            return real(bundle, fh, *a)
        entry = self.gate('bwrite')
        r = real(bundle, fh, *a)
        fh.flush()
        entry['res'] = ('bwrite', what)
        return r

    def w_bundle_read(self, what, real, bundle, *a, **kw):
        if self.tid() is None or self.world.kind != 'compact':
            return real(bundle, *a, **kw)
        entry = self.gate('read')
        r = real(bundle, *a, **kw)
        entry['res'] = ('read', what, bool(r))
        return r

    def w_inplace_open(self, path, mode, *a, **kw):
        """a tile file opened for writing in place (the cache never does that: tiles appear by rename): the file exists,
        empty, before its content is written"""
        if self.tid() is None or 'w' not in mode:
            return open(path, mode, *a, **kw)
        entry = self.gate('wopen')
        f = open(path, mode, *a, **kw)
        c = self.world.coord_of(path) or (-1, -1, -1)
        entry['res'] = ('wopen', c)
        sched = self

        class InPlace(object):
            def write(self_, data):
                e = sched.gate('write')
                r = f.write(data)
                f.flush()
                e['res'] = ('write', c, decode_bytes(data))
                return r

            def __enter__(self_):
                return self_

            def __exit__(self_, *x):
                f.close()

            def __getattr__(self_, name):
                return getattr(f, name)
        return InPlace()

    def w_chmod(self, path, mode):
        """lockfile.py: os.chmod of the lock file (between its open and its flock)"""
        if self.tid() is None or not self.world.lock_perms:
            return os.chmod(path, mode)
        entry = self.gate('lchmod')
        entry['res'] = ('lchmod', os.path.basename(path))
        try:
            return os.chmod(path, mode)
        except FileNotFoundError:
            if not self.attempt_existed.get(entry['pid'], True):
                self.chmod_lost.add(entry['pid'])
            raise

    def w_db(self, fget, cache):
        """MBTilesCache.db: the connection of this thread is looked up (cursor / commit / ...)"""
        if self.tid() is None or self.world.kind != 'mbtiles':
            return fget(cache)
        entry = self.gate('db')
        entry['res'] = ('db',)
        return fget(cache)

    def w_plain_exists(self, path):
        """os.path.exists of another cache module (sqlite: is the level file initialised?)"""
        if self.tid() is None:
            return os.path.exists(path)
        entry = self.gate('read')
        r = os.path.exists(path)
        entry['res'] = ('read', os.path.basename(path), bool(r))
        return r

    def w_lstat(self, path):
        """load_tile_metadata of TileManager.is_cached: same look as the exists call just before it (if any)"""
        tid = self.tid()
        if tid is None:
            return os.lstat(path)
        le = self.last_exists.get(tid)
        if le is not None and le[0] == path:
            entry, ex = le[1], le[2]
            self.last_exists[tid] = None
            st = os.lstat(path)
            if le[3]:
                # is_cached: present and not expired
                entry['res'] = ('read', entry['res'][1], ex and int(st.st_mtime) > self.world.expire_ts)
            return st
        entry = self.gate('read')
        c = self.world.coord_of(path)
        if c is None:
            self.weird.append('stat of unexpected path %r' % (path,))
            c = (-1, -1, -1)
        try:
            st = os.lstat(path)
        except OSError:
            entry['res'] = ('read', c, False)
            raise
        entry['res'] = ('read', c, int(st.st_mtime) > self.world.expire_ts)
        self.note_under_lock(entry, [c])
        return st

    def w_write_atomic(self, filename, data):
        from mapproxy.util.fs import write_atomic
        if self.world.substeps:
            return write_atomic(filename, data)     # gated inside, at its open and its rename
        entry = self.gate('write')
        write_atomic(filename, data)
        if entry is None:
            return
        c = self.world.coord_of(filename)
        if c is None:
            if os.path.normpath(filename) in self.world.decoy_loc:
                self.oracle_fail.append(('wrong-dimension-location',
                                         'requester %d with dimensions %r stores tile %r at %s' % (
                                             entry['pid'], self.world.dims, self.world.decoy_loc[os.path.normpath(filename)],
                                             os.path.relpath(filename, self.world.cache_dir))))
                c = (-2, -2, -2)
            else:
                if not self.world.lenient:
                    self.weird.append('cache write to unexpected path %r' % (filename,))
                c = (-1, -1, -1)
        entry['res'] = ('write', c, decode_bytes(data))
        self.note_under_lock(entry, [c])
        if self.holding.get(entry['pid']) is None:
            self.oracle_fail.append(('write-without-lock', 'requester %d stores tile %r without holding a tile lock' % (entry['pid'], c)))

    def w_try_lock(self, real, lock):
        from mapproxy.util.ext.lockfile import LockError
        entry = self.gate('lock')
        if entry is None:
            return real(lock)
        k = self.world.key_of(lock.lock_file)
        if k is None:
            if self.world.lenient:
                k = ('file', os.path.basename(lock.lock_file))
            else:
                self.weird.append('unexpected lock file %r' % (lock.lock_file,))
                k = (-1, -1, -1)
        self.attempt_existed[entry['pid']] = os.path.exists(lock.lock_file)
        removes0 = self.removes
        try:
            r = real(lock)
        except LockError:
            entry['res'] = ('lock', k, False)
            ws = self.wait_start.setdefault(entry['pid'], self.world.clock)
            if self.world.vclock and self.world.clock - ws >= self.world.lock_timeout and k in self.holder \
                    and self.holder[k] != entry['pid']:
                self.timeout_ok.add(entry['pid'])
            if (k not in self.holder or self.holder[k] == entry['pid']) and self.removes == removes0:
                # (an attempt that raced with an unlock - its lock file was removed by the owner while the attempt was
                #  under way - fails as well and is retried: C07)
                self.oracle_fail.append(('refused-without-holder',
                                         'lock attempt of requester %d on %r refused although no other requester holds that lock' % (entry['pid'], k)))
            raise
        entry['res'] = ('lock', k, True)
        self.wait_start.pop(entry['pid'], None)
        if k in self.holder:
            self.oracle_fail.append(('two-holders', 'requesters %d and %d both hold the lock of tile %r' % (self.holder[k], entry['pid'], k)))
        self.holder[k] = entry['pid']
        self.holding[entry['pid']] = k
        return r

    def w_remove(self, path):
        entry = self.gate('unlock')
        if entry is None:
            return os.remove(path)
        k = self.world.key_of(path)
        if k is None:
            if self.world.lenient:
                k = ('file', os.path.basename(path))
            else:
                self.weird.append('remove of unexpected path %r' % (path,))
                k = (-1, -1, -1)
        entry['res'] = ('unlock', k)
        if self.holder.get(k) == entry['pid']:
            del self.holder[k]
        self.holding.pop(entry['pid'], None)
        self.removes += 1
        return os.remove(path)

    # requester -----------------------------------------------------------------
    def body(self, tid):
        self.tls.tid = tid
        try:
            try:
                tiles = self.world.tms[tid].load_tile_coords([tuple(c) for c in self.reqs[tid]], dimensions=self.world.dims)
                if self.world.kind == 'sqlite':
                    self.world.tms[tid].cleanup()
                elif self.world.kind == 'mbtiles':
                    # end of TileManager.session(): the connections of this request are closed
                    e = self.gate('cleanup')
                    e['res'] = ('cleanup',)
                    self.world.tms[tid].cleanup()
                out = []
                for t in tiles:
                    if t.source is None:
                        out.append((tuple(t.coord), None))
                    else:
                        try:
                            out.append((tuple(t.coord), decode_image(t.source.as_image())))
                        except Exception as ex:  # noqa
                            out.append((tuple(t.coord), -5))
                            self.weird.append('response tile unreadable: %s' % type(ex).__name__)
                self.results[tid] = ('ok', out)
            except Abort:
                raise
            except BaseException as ex:  # noqa
                self.results[tid] = ('raised', type(ex).__name__, str(ex)[:200])
        except Abort:
            pass
        finally:
            self.tls.tid = None
            self.finished[tid] = True
            self.arrived.release()

    # scheduler side ------------------------------------------------------------
    def wait_arrival(self):
        if not self.arrived.acquire(timeout=HANG_S):
            raise Hang('a requester did not reach its next access within %.0f s' % HANG_S)

    def grant(self, pid):
        entry = {'pid': pid, 'op': self.pending[pid], 'res': None}
        self.trace.append(entry)
        self.cur = entry
        self.sems[pid].release()
        self.wait_arrival()

    def run(self, schedule, max_steps):
        threads = [threading.Thread(target=self.body, args=(t,), daemon=True) for t in range(self.m)]
        hang = None
        try:
            for t in threads:
                t.start()
            for _ in range(self.m):
                self.wait_arrival()
            steps = 0
            for pid in schedule:
                if isinstance(pid, (tuple, list)) and pid[0] == 'tick':
                    self.world.clock += pid[1]      # ('tick', seconds): the clock of mapproxy.util.lock advances
                    continue
                if isinstance(pid, (tuple, list)):
                    # ('until', requester, access): let the requester run until that access is the next one
                    _, q, op = pid
                    while q < self.m and not self.finished[q] and self.pending[q] != op and steps < max_steps:
                        self.grant(q)
                        steps += 1
                    continue
                if pid >= self.m or self.finished[pid]:
                    continue
                self.grant(pid)
                steps += 1
            rr = 0
            while not all(self.finished):
                if steps >= max_steps:
                    raise Hang('requesters did not finish within %d accesses' % max_steps)
                pid = rr % self.m
                rr += 1
                if self.finished[pid]:
                    continue
                # let a requester run until it is refused a lock, so that the fallback makes progress
                self.grant(pid)
                steps += 1
        except Hang as ex:
            hang = str(ex)
        finally:
            self.aborting = True
            for s in self.sems:
                s.release()
            for t in threads:
                t.join(2.0)
        return hang


class Patches(object):
    """Interpose on the names the cache / lock modules use; everything else goes to the real modules."""

    def __init__(self):
        self.sched = None

    def cur(self):
        s = self.sched
        if s is not None and s.tid() is not None:
            return s
        return None

    def __enter__(self):
        import os as real_os
        import time as real_time
        import mapproxy.util.lock as L
        import mapproxy.cache.file as F
        import mapproxy.cache.mbtiles as MB
        import mapproxy.util.fs as FS
        from mapproxy.util.fs import write_atomic as real_write_atomic
        self.L, self.F, self.MB, self.FS = L, F, MB, FS
        self.saved = {'L.os': L.os, 'L.time': L.time, 'F.os': F.os, 'F.write_atomic': F.write_atomic,
                      'try': L.FileLock._try_lock, 'MB.os': MB.os, 'FS.os': FS.os}
        me = self
        real_try = L.FileLock._try_lock

        def exists(p):
            s = me.cur()
            return s.w_exists(p) if s else real_os.path.exists(p)

        def wa(filename, data):
            s = me.cur()
            return s.w_write_atomic(filename, data) if s else real_write_atomic(filename, data)

        import mapproxy.cache.compact as CP
        self.CP = CP
        self.saved['CP'] = {}
        for name in ('_append_tile', '_update_tile_offset', '_update_metadata'):
            real_m = getattr(CP.BundleV2, name)
            self.saved['CP'][name] = real_m

            def wrapped(bundle, fh, *a, _real=real_m, _name=name):
                s = me.cur()
                return s.w_bundle(_name, _real, bundle, fh, *a) if s else _real(bundle, fh, *a)
            setattr(CP.BundleV2, name, wrapped)
        for name in ('load_tiles', 'is_cached'):
            real_m = getattr(CP.BundleV2, name)
            self.saved['CP'][name] = real_m

            def wrapped_r(bundle, *a, _real=real_m, _name=name, **kw):
                s = me.cur()
                return s.w_bundle_read(_name, _real, bundle, *a, **kw) if s else _real(bundle, *a, **kw)
            setattr(CP.BundleV2, name, wrapped_r)

        import mapproxy.util.ext.lockfile as LF
        self.LF = LF
        self.saved['LF.os'] = LF.os
        self.saved['MB.db'] = MB.MBTilesCache.db

        def chmod(p, mode):
            s = me.cur()
            return s.w_chmod(p, mode) if s else real_os.chmod(p, mode)
        LF.os = Proxy(real_os, chmod=chmod)
        real_fget = MB.MBTilesCache.db.fget

        def db_get(cache):
            s = me.cur()
            return s.w_db(real_fget, cache) if s else real_fget(cache)
        MB.MBTilesCache.db = property(db_get)

        def f_open(p, mode='r', *a, **kw):
            s = me.cur()
            return s.w_inplace_open(p, mode, *a, **kw) if s else open(p, mode, *a, **kw)
        F.open = f_open

        def lisfile(p):
            s = me.cur()
            return s.w_lockdir('lisfile', real_os.path.isfile, p) if s else real_os.path.isfile(p)

        def lmtime(p):
            s = me.cur()
            return s.w_lockdir('lmtime', real_os.path.getmtime, p) if s else real_os.path.getmtime(p)

        def rm(p):
            s = me.cur()
            return s.w_remove(p) if s else real_os.remove(p)

        def sleep(t):
            if me.cur() is None:
                real_time.sleep(t)

        def try_lock(lock):
            s = me.cur()
            return s.w_try_lock(real_try, lock) if s else real_try(lock)

        def lstat(p):
            s = me.cur()
            return s.w_lstat(p) if s else real_os.lstat(p)

        def fs_open(p, flags, *a):
            s = me.cur()
            return s.w_fs_open(p, flags, *a) if s else real_os.open(p, flags, *a)

        def fs_rename(a, b):
            s = me.cur()
            return s.w_fs_rename(a, b) if s else real_os.rename(a, b)

        def mb_exists(p):
            s = me.cur()
            return s.w_plain_exists(p) if s else real_os.path.exists(p)

        F.os = Proxy(real_os, path=Proxy(real_os.path, exists=exists), lstat=lstat)
        FS.os = Proxy(real_os, open=fs_open, rename=fs_rename)
        MB.os = Proxy(real_os, path=Proxy(real_os.path, exists=mb_exists))
        F.write_atomic = wa
        L.os = Proxy(real_os, remove=rm, path=Proxy(real_os.path, isfile=lisfile, getmtime=lmtime))
        def vtime():
            s = me.cur()
            return s.world.clock if (s and s.world.vclock) else real_time.time()

        L.time = Proxy(real_time, sleep=sleep, time=vtime)
        L.FileLock._try_lock = try_lock
        return self

    def __exit__(self, *a):
        L, F = self.L, self.F
        L.os, L.time = self.saved['L.os'], self.saved['L.time']
        F.os, F.write_atomic = self.saved['F.os'], self.saved['F.write_atomic']
        self.MB.os, self.FS.os = self.saved['MB.os'], self.saved['FS.os']
        for name, f in self.saved['CP'].items():
            setattr(self.CP.BundleV2, name, f)
        self.LF.os = self.saved['LF.os']
        self.MB.MBTilesCache.db = self.saved['MB.db']
        try:
            del self.F.open
        except AttributeError:
            pass
        L.FileLock._try_lock = self.saved['try']
        self.sched = None


# ----------------------------------------------------------------------------- generators

GRIDS = [
    # extent, resolutions, origin  -> grid sizes
    {'extent': (32, 32), 'res': (8, 4, 2, 1), 'origin': 'll'},      # 1x1, 2x2, 4x4, 8x8
    {'extent': (24, 24), 'res': (4, 2, 1), 'origin': 'll'},         # 1x1, 2x2, 3x3... (ceil)
    {'extent': (40, 24), 'res': (4, 2, 1), 'origin': 'ul'},         # non-square, flipped
    {'extent': (20, 12), 'res': (2, 1), 'origin': 'll'},            # 3x2, 5x3
    {'extent': (32, 32), 'res': (4, 1), 'origin': 'ul'},            # 2x2, 8x8
]
METAS = [(1, 1), (2, 2), (2, 2), (2, 1), (1, 2), (3, 2), (4, 4), (3, 3)]


def gen_conf(rng):
    g = dict(rng.choice(GRIDS))
    g['meta'] = rng.choice(METAS)
    g['expire'] = rng.random() < 0.35
    if rng.random() < 0.3:
        g['dims'] = {'time': rng.choice(['a', '2020', 't_1'])}
    g['procs'] = rng.random() < 0.3
    g['bulk'] = rng.random() < 0.12
    return g


def gen_requests(rng, world, nthreads, focus):
    """request lists; `focus` = share of requesters that want the same meta tile"""
    sizes = world.sizes
    levels = [z for z in range(len(sizes)) if sizes[z][0] * sizes[z][1] > 1] or [0]
    z = rng.choice(levels)
    gw, gh = sizes[z]
    hot = (rng.randrange(gw), rng.randrange(gh), z)
    hot_members = world.my_members(world.my_main(hot))
    reqs = []
    for _ in range(nthreads):
        r = rng.random()
        if r < focus:
            k = rng.choice([1, 1, 1, 2, 3])
            if rng.random() < 0.6:
                tiles = [hot] + rng.sample(hot_members, min(k - 1, len(hot_members)))
            else:
                tiles = rng.sample(hot_members, min(k, len(hot_members)))
        else:
            # a WMS-like block of tiles or a single tile somewhere else (possibly another level)
            z2 = z if rng.random() < 0.7 else rng.choice(range(len(sizes)))
            gw2, gh2 = sizes[z2]
            x0, y0 = rng.randrange(gw2), rng.randrange(gh2)
            bw, bh = rng.choice([(1, 1), (1, 1), (2, 1), (1, 2), (2, 2), (3, 2)])
            tiles = [(x, y, z2) for y in range(y0, min(gh2, y0 + bh)) for x in range(x0, min(gw2, x0 + bw))]
            rng.shuffle(tiles)
        seen, out = set(), []
        for t in tiles:
            if t not in seen:
                seen.add(t)
                out.append(t)
        reqs.append(out)
    return reqs


def gen_initial(rng, world, reqs):
    r = rng.random()
    if r < 0.6:
        return []
    pool = set()
    for rq in reqs:
        for t in rq:
            pool.update(world.my_members(world.my_main(t)))
    pool = sorted(pool)
    k = rng.randrange(1, max(2, len(pool)))
    return rng.sample(pool, min(k, len(pool)))


def gen_schedule(rng, m, length):
    sched = []
    pid = rng.randrange(m)
    sticky = rng.choice([0.0, 0.3, 0.6, 0.85, 0.95])
    for _ in range(length):
        if rng.random() >= sticky:
            pid = rng.randrange(m)
        sched.append(pid)
    return sched


def race_family(rng, count):
    """one requester looks, another one creates the tile completely, the first one looks again"""
    out = []
    for v in range(count):
        conf = {'extent': (32, 32), 'res': (8, 4, 2, 1), 'origin': rng.choice(['ll', 'ul']),
                'meta': (1, 1) if v % 2 == 0 else rng.choice([(2, 2), (2, 1), (3, 2)])}
        z = rng.choice([1, 2, 3])
        n = 2 ** z
        t = (rng.randrange(n), rng.randrange(n), z)
        m = rng.choice([2, 2, 3])
        reqs = [[t] for _ in range(m)]
        if v > 2 and rng.random() < 0.5:
            reqs[0] = [t, (t[0] ^ 1, t[1], z)]
        k = rng.choice([1, 1, 1, 2]) if v else 1
        sched = [0] * k + [1] * 40 + [0] * 40
        if v > 4:
            for _ in range(rng.choice([0, 1, 2])):
                sched.insert(rng.randrange(len(sched)), rng.randrange(m))
        out.append((conf, reqs, [], sched, 'race-family'))
    return out


def stale_family(rng, count):
    """a refresh rule and a tile that exists but is expired: everybody wants it; the requests that waited for the lock
    must see the re-created tile in their re-check"""
    out = []
    for v in range(count):
        conf = {'extent': (32, 32), 'res': (8, 4, 2, 1), 'origin': rng.choice(['ll', 'ul']),
                'meta': (1, 1) if v % 2 == 0 else rng.choice([(2, 2), (2, 1), (3, 2)]), 'expire': True}
        z = rng.choice([1, 2, 3])
        n = 2 ** z
        t = (rng.randrange(n), rng.randrange(n), z)
        m = rng.choice([2, 3, 4, 5, 6])
        reqs = [[t] for _ in range(m)]
        if v % 3 == 2:
            reqs[-1] = [t, (t[0] ^ 1, t[1], z)]
        conf['stale'] = [t] if v % 4 else [t, (t[0] ^ 1, t[1], z)]
        # everybody looks first (all see the expired tile), then one after the other
        if v % 2 == 0:
            sched = [i for i in range(m) for _ in range(2)] + [i for i in range(m) for _ in range(12)]
        else:
            sched = [i % m for i in range(rng.choice([30, 80]))]
        out.append((conf, reqs, [], sched, 'stale-family'))
    return out


def link_family(rng, count):
    """FileCache with link_single_color_images, every tile has the same colour: requests for DIFFERENT meta tiles (different
    locks) store the same single colour file; write_atomic is gated at the creation of its temporary file and at its rename"""
    out = []
    for v in range(count):
        conf = {'extent': (32, 32), 'res': (8, 4, 2, 1), 'origin': rng.choice(['ll', 'ul']), 'kind': 'file-link',
                'meta': rng.choice([(1, 1), (1, 1), (2, 2), (2, 1)]), 'procs': v % 3 == 0}
        m = rng.choice([2, 2, 3, 4])
        z = rng.choice([2, 3])
        n = 2 ** z
        cells = [(x, y, z) for x in range(0, n, 2) for y in range(0, n, 2)]
        picks = rng.sample(cells, m)          # one tile per requester, pairwise different meta tiles
        reqs = [[c] for c in picks]
        if v % 2 == 0:
            # requester 0 creates its temporary file, then requester 1 runs up to the same point, then both finish
            sched = [('until', 0, 'write'), ('until', 1, 'write')] + [i % m for i in range(60)]
        else:
            sched = gen_schedule(rng, m, 80)
        out.append((conf, reqs, [], sched, 'single-colour-link'))
    return out


def bulk_family(rng, count):
    """tiled source (supports_meta_tiles = False) with bulk_meta_tiles: _create_bulk_meta_tile asks the upstream once per
    tile of the meta tile under the meta tile lock; waiters must find the tiles in their re-check under the lock"""
    out = []
    for v in range(count):
        conf = {'extent': (32, 32), 'res': (8, 4, 2, 1), 'origin': rng.choice(['ll', 'ul']), 'bulk': True,
                'meta': rng.choice([(2, 2), (2, 1), (3, 2)]), 'procs': v % 3 == 0, 'expire': v % 5 == 4}
        m = rng.choice([2, 3, 4])
        z = rng.choice([2, 3])
        n = 2 ** z
        t = (rng.randrange(n), rng.randrange(n), z)
        reqs = [[t] if rng.random() < 0.7 else [(t[0] ^ 1, t[1], z)] for _ in range(m)]
        if v % 2 == 0:
            # everybody looks first (miss), then one after the other
            sched = [i for i in range(m) for _ in range(2)] + [i for i in range(m) for _ in range(40)]
        else:
            sched = gen_schedule(rng, m, 100)
        out.append((conf, reqs, None if v % 4 == 1 else [], sched, 'bulk-meta-tile'))
    return out


def timeout_family(rng, count):
    """the upstream request of the lock holder takes longer than the lock timeout: a waiter gives up with LockTimeout
    (virtual clock for mapproxy.util.lock); requests that come later must still wait for the holder"""
    out = []
    for v in range(count):
        conf = {'extent': (32, 32), 'res': (8, 4, 2, 1), 'origin': rng.choice(['ll', 'ul']), 'lock_timeout': 10,
                'meta': rng.choice([(1, 1), (2, 2), (2, 1)]), 'procs': v % 3 == 0}
        m = rng.choice([3, 3, 4])
        z = rng.choice([2, 3])
        n = 2 ** z
        t = (rng.randrange(n), rng.randrange(n), z)
        reqs = [[t] for _ in range(m)]
        sched = [('until', 0, 'fetch'), ('until', 1, 'lock'), 1, ('tick', rng.choice([4, 11])), 1, 1, ('tick', 7), 1, 1]
        for w in range(2, m):
            sched += [('until', w, 'lock'), w, w]
        if v % 2:
            sched += gen_schedule(rng, m, 40)
        out.append((conf, reqs, [], sched, 'lock-timeout'))
    return out


def cleanup_family(rng, count):
    """the periodic clean-up of the lock directory (every 50th TileLocker.lock of a process) runs in a request for meta tile
    B while the lock file of meta tile A is removed by its owner between os.path.isfile and os.path.getmtime"""
    out = []
    for v in range(count):
        conf = {'extent': (32, 32), 'res': (8, 4, 2, 1), 'origin': rng.choice(['ll', 'ul']), 'cleanup': True,
                'meta': rng.choice([(1, 1), (2, 2), (2, 1)]), 'procs': False}
        z = rng.choice([2, 3])
        n = 2 ** z
        cells = [(x, y, z) for x in range(0, n, 2) for y in range(0, n, 2)]
        a, b = rng.sample(cells, 2)
        reqs = [[a], [b]]
        if v % 2 == 0:
            sched = [('until', 0, 'fetch'), ('until', 1, 'lmtime')] + [0] * 30 + [1] * 30
        else:
            sched = [('until', 0, 'fetch'), ('until', 1, 'lisfile')] + gen_schedule(rng, 2, 60)
        out.append((conf, reqs, [], sched, 'lockdir-cleanup'))
    return out


def uncacheable_family(rng, count):
    """bulk meta tiles, the upstream marks one tile Y of the meta tile as not cacheable: the meta tile stays incomplete, a
    request that waited for tile X finds 'not all cached' under the lock although X was stored meanwhile"""
    out = []
    for v in range(count):
        conf = {'extent': (32, 32), 'res': (8, 4, 2, 1), 'origin': rng.choice(['ll', 'ul']), 'bulk': True,
                'meta': rng.choice([(2, 2), (2, 1)]), 'procs': v % 3 == 0}
        z = rng.choice([2, 3])
        n = 2 ** z
        x0, y0 = rng.randrange(0, n, 2), rng.randrange(0, n, 2)
        X, Y = (x0, y0, z), (x0 + 1, y0, z)
        if v % 2:
            X, Y = Y, X
        conf['uncacheable'] = [Y]
        m = rng.choice([2, 3])
        reqs = [[X] for _ in range(m)]
        if v % 4 == 3:
            reqs[-1] = [Y]
        if v % 2 == 0:
            sched = [i for i in range(m) for _ in range(2)] + [i for i in range(m) for _ in range(40)]
        else:
            sched = gen_schedule(rng, m, 100)
        out.append((conf, reqs, [], sched, 'uncacheable-tile'))
    return out


def compact_family(rng, count):
    """compact cache (version 2): readers take no lock; the raw writes of one tile store (data append, index entry, header)
    are gated one by one and made visible as they return"""
    out = []
    for v in range(count):
        conf = {'extent': (32, 32), 'res': (8, 4, 2, 1), 'origin': rng.choice(['ll', 'ul']), 'kind': 'compact',
                'meta': rng.choice([(1, 1), (1, 1), (2, 2), (2, 1)]), 'procs': v % 3 == 0}
        m = rng.choice([2, 2, 3])
        z = rng.choice([1, 2, 3])
        n = 2 ** z
        t = (rng.randrange(n), rng.randrange(n), z)
        reqs = [[t] for _ in range(m)]
        k = v % 4
        if k < 3:
            # requester 0 creates the tile and is stopped after k+... of its raw writes; then the others look
            sched = [('until', 0, 'bwrite')] + [0] * (k + 1) + [i for i in range(1, m) for _ in range(6)] + [i % m for i in range(80)]
        else:
            sched = gen_schedule(rng, m, 80)
        out.append((conf, reqs, None if v % 5 == 4 else [], sched, 'compact-cache'))
    return out


def inplace_family(rng, count):
    """a reader between the creation of a tile file and the end of its write (tiles must appear atomically): requester 0 is
    run up to a write in place - if the cache ever makes one - and stopped there while the others look"""
    out = []
    for v in range(count):
        conf = {'extent': (32, 32), 'res': (8, 4, 2, 1), 'origin': rng.choice(['ll', 'ul']),
                'meta': rng.choice([(1, 1), (2, 2), (2, 1)]), 'procs': v % 3 == 0}
        m = rng.choice([2, 3])
        z = rng.choice([1, 2, 3])
        n = 2 ** z
        t = (rng.randrange(n), rng.randrange(n), z)
        reqs = [[t] for _ in range(m)]
        sched = [('until', 0, 'wopen'), 0] + [i for i in range(1, m) for _ in range(6)] + [i % m for i in range(60)]
        out.append((conf, reqs, [], sched, 'write-in-place'))
    return out


def lockperm_family(rng, count):
    """tile locker with file_permissions: a waiter is inside a lock attempt (os.chmod of the lock file gated) while the
    holder finishes and removes the lock file"""
    out = []
    for v in range(count):
        conf = {'extent': (32, 32), 'res': (8, 4, 2, 1), 'origin': rng.choice(['ll', 'ul']), 'lock_perms': '644',
                'meta': rng.choice([(1, 1), (2, 2), (2, 1)]), 'procs': v % 3 == 0}
        m = rng.choice([2, 3])
        z = rng.choice([1, 2, 3])
        n = 2 ** z
        t = (rng.randrange(n), rng.randrange(n), z)
        reqs = [[t] for _ in range(m)]
        if v % 2 == 0:
            sched = [('until', 0, 'fetch'), ('until', 1, 'lock'), 1] + [0] * 14 + [i % m for i in range(60)]
        else:
            sched = [('until', 0, 'fetch')] + gen_schedule(rng, m, 80)
        out.append((conf, reqs, [], sched, 'lock-file-permissions'))
    return out


def mbtiles_family(rng, count):
    """one MBTilesCache object shared by the threads of a process: requester 0 has finished its request and is about to
    leave its session (cleanup) while requester 1 is at one of the points where it looks up its connection"""
    out = []
    for v in range(count):
        conf = {'extent': (32, 32), 'res': (8, 4, 2, 1), 'origin': rng.choice(['ll', 'ul']), 'kind': 'mbtiles',
                'meta': rng.choice([(1, 1), (2, 2)]), 'procs': False}
        z = rng.choice([2, 3])
        n = 2 ** z
        cells = [(x, y, z) for x in range(0, n, 2) for y in range(0, n, 2)]
        a, b = rng.sample(cells, 2)
        reqs = [[a], [b]]
        k = v % 12
        sched = [('until', 0, 'cleanup')] + [1] * k + [0] + [1] * 40
        out.append((conf, reqs, [], sched, 'mbtiles-session-cleanup'))
    return out


def sqlite_family(rng, count):
    """sqlite cache (one MBTiles file per level, created on first use), every requester with its own cache objects like a
    worker process: the first requests of a level initialise its file concurrently"""
    out = []
    for v in range(count):
        conf = {'extent': (32, 32), 'res': (8, 4, 2, 1), 'origin': rng.choice(['ll', 'ul']), 'kind': 'sqlite',
                'meta': rng.choice([(1, 1), (2, 2), (2, 1)]), 'procs': True}
        # (requesters that share one MBTilesLevelCache object serialise the creation of a level with a threading.Lock:
        #  a requester stopped at a gate while it holds that lock cannot be scheduled around)
        m = rng.choice([2, 2, 3, 4])
        z = rng.choice([1, 2, 3])
        n = 2 ** z
        t = (rng.randrange(n), rng.randrange(n), z)
        reqs = [[t] if rng.random() < 0.6 else [(rng.randrange(n), rng.randrange(n), z)] for _ in range(m)]
        if v % 2 == 0:
            # everybody looks whether the level file exists, then one after the other
            sched = list(range(m)) + [i for i in range(m) for _ in range(25)]
        else:
            sched = gen_schedule(rng, m, 60)
        out.append((conf, reqs, [], sched, 'sqlite-level-init'))
    return out


def wms_family():
    """a real WMSSource / WMSClient (one request template shared by all requests of the source) and requests for DIFFERENT
    meta tiles: they hold different locks, so their upstream calls interleave freely.  Every requester is run until it has
    filled in its upstream request and is about to build the URL, then they build and send one after the other.
    Deterministic (independent of the seed)."""
    out = []
    v = 0
    for meta in ((2, 2), (1, 1), (2, 1)):
        for origin in ('ll', 'ul'):
            for m in (2, 3):
                conf = {'extent': (32, 32), 'res': (8, 4, 2, 1), 'origin': origin, 'meta': meta, 'wms': True, 'procs': False}
                z = 3 if v % 2 == 0 else 2
                n = 2 ** z
                cells = [(x, y, z) for x in range(0, n, 2) for y in range(0, n, 2)]
                picks = [cells[(v + 3 * i) % len(cells)] for i in range(m)]      # pairwise different meta tiles
                reqs = [[c] for c in picks]
                if v % 3 == 0:
                    sched = [('until', i, 'ubuild') for i in range(m)] + [i for i in range(m) for _ in range(30)]
                elif v % 3 == 1:
                    sched = [('until', i, 'ubuild') for i in reversed(range(m))] + [i % m for i in range(60)]
                else:
                    sched = [('until', 0, 'fetch')] + [('until', i, 'ubuild') for i in range(1, m)] + [i % m for i in range(60)]
                out.append((conf, reqs, [], sched, 'wms-source-different-meta-tiles'))
                v += 1
    # the same meta tile for everybody through the WMS source (one upstream request)
    for meta in ((2, 2), (1, 1)):
        conf = {'extent': (32, 32), 'res': (8, 4, 2, 1), 'origin': 'll', 'meta': meta, 'wms': True, 'procs': False}
        out.append((conf, [[(2, 2, 3)], [(3, 2, 3)], [(2, 2, 3)]], [],
                    [('until', 0, 'ubuild'), 1, 1, 1, 2, 2, 2] + [i % 3 for i in range(60)], 'wms-source-different-meta-tiles'))
    return out


def live_lock_cleanup_family():
    """the periodic clean-up of the lock directory runs (in a request for meta tile B) while requester 0 has been holding
    the lock of meta tile A for longer than the lock timeout but less than lock timeout + 10 s (slow upstream answer plus
    splitting and storing): its lock file must survive, a later request for A must wait for it.  Virtual clock for
    mapproxy.util.lock; lock files carry their real modification time (= start of the run).  Deterministic."""
    out = []
    for v, (meta, origin, age, procs) in enumerate([((1, 1), 'll', 9, False), ((2, 2), 'ul', 9, False), ((2, 1), 'll', 9, True),
                                                     ((2, 2), 'll', 5, False), ((1, 1), 'ul', 2, True), ((2, 2), 'ul', 0, False)]):
        conf = {'extent': (32, 32), 'res': (8, 4, 2, 1), 'origin': origin, 'cleanup': True, 'lock_timeout': 10,
                'meta': meta, 'procs': procs}
        a, b = ((0, 0, 3), (4, 2, 3)) if v % 2 == 0 else ((2, 2, 2), (0, 0, 2))
        reqs = [[a], [b], [a]]
        # 0 takes the lock of A and waits for the upstream; time passes; 1 creates B (its lock() call is the 50th of the
        # process: clean-up); 2 asks for A: load, is_cached, lock attempts; then 0 finishes, then everybody
        sched = [('until', 0, 'fetch'), ('tick', 10 + age), ('until', 1, 'done'), 2, 2, 2, 2, 2, 2] + [0] * 30 + [i % 3 for i in range(60)]
        out.append((conf, reqs, [], sched, 'lockdir-cleanup-live-lock'))
    return out


def contention_family(rng, count):
    """everybody wants the same tile, scheduled round robin / in bursts"""
    out = []
    for v in range(count):
        conf = gen_conf(rng)
        conf = dict(conf)
        m = rng.choice([2, 3, 4, 5, 6])
        out.append((conf, None, None, [i % m for i in range(rng.choice([20, 60, 120]))] if v % 2 == 0 else gen_schedule(rng, m, 150),
                    'contention:%d' % m))
    return out


def corpus_cases():
    out = []
    for fn in sorted(glob.glob(os.path.join(VERIF, 'corpus', 'C08', '*.json'))):
        try:
            d = json.load(open(fn))
            conf = {'extent': tuple(d['conf']['extent']), 'res': tuple(d['conf']['res']), 'origin': d['conf']['origin'],
                    'meta': tuple(d['conf']['meta']), 'expire': bool(d['conf'].get('expire')),
                    'dims': d['conf'].get('dims'), 'procs': bool(d['conf'].get('procs')),
                    'kind': d['conf'].get('kind', 'file'), 'bulk': bool(d['conf'].get('bulk'))}
            if d['conf'].get('lock_timeout') is not None:
                conf['lock_timeout'] = d['conf']['lock_timeout']
            if d['conf'].get('uncacheable'):
                conf['uncacheable'] = [tuple(t) for t in d['conf']['uncacheable']]
            if d['conf'].get('cleanup'):
                conf['cleanup'] = True
            if d['conf'].get('wms'):
                conf['wms'] = True
            if d['conf'].get('lock_perms'):
                conf['lock_perms'] = d['conf']['lock_perms']
            if 'stale' in d:
                conf['stale'] = [tuple(t) for t in d['stale']]
            out.append((conf, [[tuple(t) for t in r] for r in d['requests']], [tuple(t) for t in d.get('initial', [])],
                        list(d['schedule']), 'corpus:' + os.path.basename(fn)))
        except Exception as ex:  # noqa
            out.append((None, None, None, None, 'corpus-unreadable:%s:%r' % (fn, ex)))
    return out


# ----------------------------------------------------------------------------- Coq terms

def clit(c):
    return '(%s, %s, %s)' % (zlit(c[0]), zlit(c[1]), zlit(c[2]))


IMPOSSIBLE = '(0%nat, OSilent)'


def obs_lit(e):
    res = e['res']
    if res is None or res[0] != e['op']:
        return IMPOSSIBLE
    k = res[0]
    if k == 'read':
        o = 'ORead %s %s' % (clit(res[1]), blit(res[2]))
    elif k == 'lock':
        o = 'OLock %s %s' % (clit(res[1]), blit(res[2]))
    elif k == 'fetch':
        o = 'OFetch %s' % clit(res[1])
    elif k == 'write':
        o = 'OWrite %s %s' % (clit(res[1]), zlit(res[2]))
    elif k == 'unlock':
        o = 'OUnlock %s' % clit(res[1])
    else:
        return IMPOSSIBLE
    return '(%d%%nat, %s)' % (e['pid'], o)


def gconf_lit(world):
    return '(mk_gconf %s %s %s %s %s)' % (blit(world.meta), zlit(world.conf['meta'][0]), zlit(world.conf['meta'][1]),
                                           blit(world.flip), llit(world.sizes, lambda s: '(%s, %s)' % (zlit(s[0]), zlit(s[1]))))


def resp_lit(res):
    if res is None or res[0] != 'ok':
        return '[((0, 0, 0), Some (-99))]'       # the model never answers this
    return llit(res[1], lambda kv: '(%s, %s)' % (clit(kv[0]), 'None' if kv[1] is None else '(Some %s)' % zlit(kv[1])))


DEFS = "Definition up_enc (t : coord) : Z := let '(x, y, z) := t in x + 256 * y + 65536 * z.\n"
CASE_TYPE = ('gconf * bool * bool * bool * list (coord * Z) * list (coord * Z) * list (list coord) * list (nat * obs) * '
             'list (list (coord * option Z)) * list (coord * Z) * list coord')
CHECKER = ("fun c => let '(g, reload, expire, bulk, oldl, c0, reqs, tr, resps, final, ups) := c in "
           "trace_ok_x (grid_sys_b g true reload up_enc expire (lookup oldl) bulk) c0 oldl reqs tr resps final ups")


def compact_trace(trace):
    return [[e['pid']] + (list(e['res']) if e['res'] else [e['op'], '?']) for e in trace]


# ----------------------------------------------------------------------------- one run

def run_one(ctx, patches, conf, reqs, initial, schedule, seq_no, rootdir, rng):
    base = os.path.join(rootdir, 'w%d' % seq_no)
    os.makedirs(base)
    ids = [x if isinstance(x, int) else x[1] for x in schedule if isinstance(x, int) or x[0] != 'tick']
    m = len(reqs) if reqs is not None else (max(ids) + 1 if ids else 2)
    world = World(conf, base, m)
    if reqs is None:
        reqs = gen_requests(rng, world, m, 1.0 if rng.random() < 0.7 else 0.7)
    if initial is None:
        initial = gen_initial(rng, world, reqs)
    ok_req = all(0 <= t[2] < len(world.sizes) and 0 <= t[0] < world.sizes[t[2]][0] and 0 <= t[1] < world.sizes[t[2]][1]
                 for r in reqs for t in r)
    initial = sorted(set(tuple(t) for t in initial))
    stale = conf.get('stale')
    if not world.expire:
        stale = []
    elif stale is None:
        pool = sorted(set(u for r in reqs for t in r for u in world.my_members(world.my_main(tuple(t)))) - set(initial))
        k = rng.choice([1, 1, 2, 3, len(pool)])
        hot = [tuple(r[0]) for r in reqs if r and tuple(r[0]) not in initial][:1]
        stale = sorted(set(hot + rng.sample(pool, min(k, len(pool))))) if pool else []
    world.stale = sorted(set(tuple(t) for t in stale) - set(initial))
    world.seed(initial)
    world.seed_stale(world.stale)
    world.seed_decoys(sorted(set(u for r in reqs for t in r for u in world.my_members(world.my_main(tuple(t))))))
    if world.gate_cleanup:
        # the second TileLocker.lock() call of this run is the 50th of the process: it runs cleanup_lockdir
        import mapproxy.util.lock as L
        L._cleanup_counter = 48
    s = Sched(world, reqs)
    world.sched = s
    patches.sched = s
    try:
        hang = s.run(schedule, max_steps=len(schedule) + 4000)
    finally:
        patches.sched = None
        world.sched = None
    final, extra = world.final_cache()
    left = world.left_locks()
    shutil.rmtree(base, ignore_errors=True)
    return world, s, reqs, initial, hang, final, extra, left, ok_req


def oracle(world, s, reqs, initial, hang, final, extra, left):
    """the property statement on what the implementation did; returns list of (signature, what)"""
    out = list(s.oracle_fail)
    if hang:
        out.append(('hang', 'requesters did not terminate: ' + hang))
    for tid, r in enumerate(s.results):
        if r is None:
            if not hang:
                out.append(('no-response', 'requester %d produced no response' % tid))
        elif r[0] == 'raised':
            if r[1] == 'LockTimeout' and tid in s.timeout_ok:
                continue        # waited for the whole lock timeout while another requester held the lock
            if r[1] == 'FileNotFoundError' and tid in s.chmod_lost:
                out.append((SIG_CHMOD, 'requester %d created a lock file, another requester locked, used and removed it before '
                            'the creator set its permissions: os.chmod fails and the request dies with %s' % (tid, r[1])))
                continue
            out.append(('unexpected-exception', 'requester %d raised %s: %s' % (tid, r[1], r[2])))
        else:
            got = [kv[0] for kv in r[1]]
            if got != [tuple(t) for t in reqs[tid]]:
                out.append(('response-shape', 'requester %d asked for %r and was answered %r' % (tid, reqs[tid], got)))
            for c, v in r[1]:
                if v is None:
                    out.append((SIG_RACE if race_window(s, tid, c) else 'response-missing-tile',
                                'requester %d received no image for tile %r although the upstream delivers one' % (tid, c)))
                elif v != world.want(c):
                    out.append(('response-wrong-tile', 'requester %d received image %r for tile %r (expected %r)' % (tid, v, c, world.want(c))))
    # one upstream call per meta tile
    # (counted per tile the answers cover: a meta tile request covers all its tiles, a bulk meta tile is one request per tile)
    seen = {}
    for call in world.source.calls:
        for b in set(call['blocks']):
            seen[b] = seen.get(b, 0) + 1
    dup = {}
    for b, n in seen.items():
        if n > 1:
            dup[world.my_main(b)] = max(dup.get(world.my_main(b), 0), n)
    for mt, n in sorted(dup.items()):
        if any(u in world.uncacheable for u in world.my_members(mt)):
            continue        # the upstream marked a tile of this meta tile as not cacheable: it stays incomplete and is created again
        out.append(('duplicate-fetch', 'the upstream was asked %d times for meta tile %r' % (n, mt)))
    # final cache
    init = set(initial)
    expect = set(init)
    renewed = set()
    for tid, r in enumerate(reqs):
        if tid in s.timeout_ok:
            continue            # gave up waiting for the lock: created nothing
        for t in r:
            if tuple(t) not in init:
                renewed.update(world.my_members(world.my_main(tuple(t))))
    expect |= renewed | set(world.stale)
    expect -= world.uncacheable
    if not hang:
        for c in sorted(expect - set(final)):
            out.append(('final-cache-missing', 'tile %r is not in the cache after all requests finished' % (c,)))
        for c in sorted(set(final) - expect):
            out.append(('final-cache-extra', 'tile %r is in the cache although nobody needed its meta tile' % (c,)))
        for c, v in sorted(final.items()):
            want = enc_stale(c) if (c in world.stale and c not in renewed) else (enc(c) if c in init else world.want(c))
            if v != want:
                out.append(('final-cache-wrong-content', 'cache file of tile %r holds image %r (expected %r)' % (c, v, want)))
        for p in extra:
            if '.tmp-' in p:
                out.append(('final-cache-tempfile', 'temporary file %s left in the cache' % p))
            else:
                out.append(('final-cache-extra', 'unexpected file %s in the cache' % p))
        if left:
            out.append(('lock-file-left', 'lock files left after all requests finished: %r' % ([os.path.basename(x) for x in left],)))
    return out


def race_window(s, tid, c):
    """True when requester tid saw tile c missing, then present, and never looked again (finding F22, repaired)"""
    looks = [e['res'][2] for e in s.trace if e['pid'] == tid and e['res'] and e['res'][0] == 'read' and e['res'][1] == c]
    return looks == [False, True]


def run_threads(ctx, reload_flag):
    rng = ctx.rng
    rootdir = ctx.tmpdir('worlds')
    todo = []
    for c in corpus_cases():
        if c[0] is None:
            ctx.problem('harness', c[4])
        else:
            todo.append(c)
    todo += race_family(rng, ctx.n(24, 200))
    todo += stale_family(rng, ctx.n(40, 300))
    todo += contention_family(rng, ctx.n(30, 400))
    for _ in range(ctx.n(200, 3000)):
        conf = gen_conf(rng)
        m = rng.choice([2, 2, 3, 3, 4, 5, 6])
        todo.append((conf, None, None, gen_schedule(rng, m, rng.choice([10, 30, 60, 120])) + [m - 1], 'random'))
    # exhaustive interleavings of the first accesses of two / three requesters of one tile
    exh = []
    for conf, m, n in ([({'extent': (32, 32), 'res': (8, 4, 2, 1), 'origin': 'll', 'meta': (1, 1)}, 2, ctx.n(7, 12)),
                        ({'extent': (32, 32), 'res': (8, 4, 2, 1), 'origin': 'll', 'meta': (2, 1)}, 2, ctx.n(6, 11)),
                        ({'extent': (32, 32), 'res': (8, 4, 2, 1), 'origin': 'll', 'meta': (2, 1)}, 3, ctx.n(4, 7))]):
        for seq in itertools.product(range(m), repeat=n):
            if seq[0] != 0:
                continue            # symmetric requesters
            exh.append((conf, [[(1, 1, 1)] for _ in range(m)], [], list(seq), 'exhaustive'))
    todo += exh
    todo += link_family(rng, ctx.n(40, 300))
    todo += sqlite_family(rng, ctx.n(30, 250))
    todo += bulk_family(rng, ctx.n(40, 300))
    todo += timeout_family(rng, ctx.n(30, 200))
    todo += cleanup_family(rng, ctx.n(20, 150))
    todo += uncacheable_family(rng, ctx.n(30, 200))
    todo += compact_family(rng, ctx.n(40, 300))
    todo += inplace_family(rng, ctx.n(12, 100))
    todo += lockperm_family(rng, ctx.n(20, 150))
    todo += mbtiles_family(rng, ctx.n(24, 144))
    todo += wms_family()
    todo += live_lock_cleanup_family()

    terms, descr = [], []
    reported = set()
    with Patches() as patches:
        for seq_no, (conf, reqs, initial, schedule, origin) in enumerate(todo):
            _t0 = time.time()
            world, s, reqs, initial, hang, final, extra, left, ok_req = run_one(
                ctx, patches, conf, reqs, initial, schedule, seq_no, rootdir, rng)
            ctx.notes_ms = getattr(ctx, 'notes_ms', {})
            ctx.notes_ms[origin.split(':')[0]] = ctx.notes_ms.get(origin.split(':')[0], 0) + int((time.time() - _t0) * 1000)
            trace = s.trace
            refused = sum(1 for e in trace if e['res'] and e['res'][0] == 'lock' and not e['res'][2])
            under = count_found_later(trace)
            mains = {}
            for tid, r in enumerate(reqs):
                for t in r:
                    mains.setdefault(world.my_main(tuple(t)), set()).add(tid)
            shared = any(len(v) >= 2 for v in mains.values())
            nontrivial = shared and (refused > 0 or under > 0)
            rep = {'origin': origin, 'conf': {'extent': list(conf['extent']), 'res': list(conf['res']), 'origin': conf['origin'],
                                              'meta': list(conf['meta']), 'expire': bool(conf.get('expire')),
                                              'dims': conf.get('dims'), 'procs': bool(conf.get('procs')),
                                              'kind': conf.get('kind', 'file'), 'bulk': bool(conf.get('bulk')),
                                              'lock_timeout': conf.get('lock_timeout'),
                                              'uncacheable': [list(t) for t in conf.get('uncacheable') or []],
                                              'cleanup': bool(conf.get('cleanup')), 'lock_perms': conf.get('lock_perms'),
                                              'wms': bool(conf.get('wms'))},
                   'stale': [list(t) for t in world.stale],
                   'requests': [[list(t) for t in r] for r in reqs], 'initial': [list(t) for t in initial],
                   'schedule': list(schedule), 'trace': compact_trace(trace),
                   'responses': [list(r) if r else None for r in s.results],
                   'upstream_calls': [list(c['main']) for c in world.source.calls]}
            ctx.case((json.dumps(rep['conf'], sort_keys=True), repr(rep['requests']), repr(rep['initial']),
                      tuple((e['pid'], e['res']) for e in trace)), nontrivial,
                     {'conf': rep['conf'], 'requests': rep['requests'], 'initial': rep['initial'], 'steps': len(trace),
                      'trace_head': compact_trace(trace[:30])})
            ctx.count('origin=' + origin.split(':')[0])
            ctx.count('kind=' + world.kind + (',lock-file-permissions' if world.lock_perms else '') + (',uncacheable-tile' if world.uncacheable else '') + (',lockdir-cleanup' if world.gate_cleanup else '') + (',wms-client' if world.wms else '') + (',bulk-meta-tiles' if world.bulk else '') + (',lock-timeouts' if world.vclock else '') + (',own-objects-per-requester' if world.procs else '') + (',dimensions' if world.dims else ''))
            ctx.count('mode=' + ('meta' if world.meta else 'single') + (',expire' if world.expire else ''))
            ctx.count('expired-tiles', len(world.stale))
            ctx.count('requesters=%d' % len(reqs))
            ctx.count('accesses', len(trace))
            ctx.count('lock-refused', refused)
            ctx.count('requests-ended-with-LockTimeout', len(s.timeout_ok))
            ctx.count('found-under-lock-or-second-look', under)
            ctx.count('upstream-calls', len(world.source.calls))
            ctx.count('initial-tiles', len(initial))
            if not ok_req:
                ctx.problem('harness', 'generated request outside the grid', rep)
            for sig, what in oracle(world, s, reqs, initial, hang, final, extra, left):
                if sig not in reported:
                    reported.add(sig)
                    ctx.fail(sig, what, rep)
            for w in s.weird[:3]:
                key = 'weird:' + w.split(':')[0][:60]
                if key not in reported:
                    reported.add(key)
                    ctx.problem('harness', 'unexpected behaviour of the tile code under the scheduler: ' + w, rep)
            if world.lenient:
                continue        # run under the oracle only (no model of this back end / of write_atomic's two halves)
            obs = [obs_lit(e) for e in trace]
            if hang or s.weird:
                obs.append(IMPOSSIBLE)
            ups = [c['main'] for c in world.source.calls]
            terms.append('(%s, %s, %s, %s, %s, %s, %s, [%s], %s, %s, %s)' % (
                gconf_lit(world), blit(reload_flag), blit(world.expire), blit(world.bulk),
                llit(world.stale, lambda c: '(%s, %s)' % (clit(c), zlit(enc_stale(c)))),
                llit(initial, lambda c: '(%s, %s)' % (clit(c), zlit(enc(c)))),
                llit(reqs, lambda r: llit(r, clit)),
                '; '.join(obs),
                llit(s.results, resp_lit),
                llit(sorted(final.items()), lambda kv: '(%s, %s)' % (clit(kv[0]), zlit(kv[1]))),
                llit(ups, clit)))
            descr.append(rep)
    ctx.notes.append('milliseconds spent running the implementation, by family: %r' % (getattr(ctx, 'notes_ms', {}),))
    ctx.corr_check('creator_trace', 'Creator', CASE_TYPE, terms, CHECKER, lambda i: descr[i], shard=120, defs=DEFS)


def count_found_later(trace):
    """reads that hit a tile the same requester had seen missing before (re-check under the lock, second look)"""
    missed = set()
    n = 0
    for e in trace:
        r = e['res']
        if r and r[0] == 'read':
            if not r[2]:
                missed.add((e['pid'], r[1]))
            elif (e['pid'], r[1]) in missed:
                n += 1
    return n


# ----------------------------------------------------------------------------- grid part / lock names

def run_grid(ctx):
    from mapproxy.grid import TileGrid, MetaGrid
    from mapproxy.cache.base import TileLocker
    from mapproxy.cache.tile import Tile
    rng = ctx.rng
    terms, descr = [], []
    for _ in range(ctx.n(500, 6000)):
        tsz = rng.choice([1, 2, 4, 256])
        nlev = rng.choice([1, 2, 3, 4])
        w = rng.choice([1, 2, 3, 5, 8, 13, 16, 31]) * tsz
        h = rng.choice([1, 2, 3, 5, 8, 13, 16, 31]) * tsz
        res = sorted(set(rng.choice([1, 2, 3, 4, 8, 16, 0.5]) for _ in range(nlev)), reverse=True)
        origin = rng.choice(['ll', 'ul'])
        grid = TileGrid(srs=4326, bbox=(0, 0, w, h), tile_size=(tsz, tsz), res=res, origin=origin)
        sizes = [tuple(grid.grid_sizes[i]) for i in range(len(res))]
        ms = (rng.choice([1, 2, 2, 3, 4, 7]), rng.choice([1, 2, 2, 3, 4, 7]))
        mg = MetaGrid(grid, meta_size=ms, meta_buffer=rng.choice([0, 0, 3]))
        z = rng.randrange(len(res))
        gw, gh = sizes[z]
        c = (rng.randrange(gw), rng.randrange(gh), z)
        try:
            main = tuple(mg.main_tile(c))
            mt = mg.meta_tile(c)
            members = [tuple(t) for t in mt.tiles if t is not None]
            key = tuple(mg.main_tile(mt.main_tile_coord))
        except Exception as ex:  # noqa
            ctx.fail('metagrid-exception', 'MetaGrid raised %s for %r' % (type(ex).__name__, c), {'sizes': sizes, 'meta': ms, 'tile': c})
            continue
        d = {'grid_sizes': sizes, 'meta_size': ms, 'origin': origin, 'tile': c, 'main_tile': main, 'members': members, 'lock_coord': key}
        ctx.case(('grid', tuple(sizes), ms, origin, c), len(members) > 1, None)
        ctx.count('grid-part')
        # oracle: the meta tiles partition the grid and the lock names the meta tile
        if c not in members:
            ctx.fail('tile-not-in-own-meta-tile', 'tile %r is not among the tiles of its meta tile %r' % (c, members), d)
        if any(tuple(mg.main_tile(u)) != main for u in members):
            ctx.fail('meta-tile-members-disagree', 'tiles of one meta tile have different main tiles: %r' % (members,), d)
        if key != main:
            ctx.fail('lock-names-other-meta-tile', 'lock coordinate %r differs from the main tile %r' % (key, main), d)
        g = '(mk_gconf true %d %d %s %s)' % (ms[0], ms[1], blit(bool(grid.flipped_y_axis)),
                                               llit(sizes, lambda s_: '(%d, %d)' % s_))
        terms.append('(%s, %s, %s, %s, %s)' % (g, clit(c), clit(main), llit(members, clit), clit(key)))
        descr.append(d)
    ctx.corr_check('metagrid', 'Creator', 'gconf * coord * coord * list coord * coord', terms,
                   "fun c => let '(g, t, m, mem, k) := c in coord_eqb (g_main g t) m && "
                   "list_eqb coord_eqb (g_members g (g_main g t)) mem && coord_eqb (g_key g (g_main g t)) k",
                   lambda i: descr[i])
    # lock file names
    terms, descr = [], []
    names = {}
    for i in range(ctx.n(400, 4000)):
        cid = hashlib.md5(('cache%d' % rng.randrange(6)).encode()).hexdigest()
        big = rng.random() < 0.3
        c = tuple(rng.choice([0, 1, 9, 10, 11, 99, 100, 101, 110, 1010]) if not big else rng.randrange(0, 10 ** rng.randrange(1, 12))
                  for _ in range(3))
        locker = TileLocker('/nonexistent/locks', 10, cid)
        name = os.path.basename(locker.lock_filename(Tile(c)))
        prev = names.setdefault(name, (cid, c))
        ctx.case(('name', cid, c), True, None)
        ctx.count('lock-name')
        if prev != (cid, c):
            ctx.fail('lock-name-collision', 'lock file name %s is used for %r and %r' % (name, prev, (cid, c)), {'name': name})
        if not all(32 <= ord(ch) < 127 for ch in name):
            ctx.problem('harness', 'lock name not printable ASCII: %r' % name)
            continue
        terms.append('(%s, %s, %s)' % (slit(cid), clit(c), slit(name)))
        descr.append({'cache_id': cid, 'coord': c, 'lock_filename': name})
    ctx.corr_check('lock_name', 'Creator', 'string * coord * string', terms,
                   "fun c => let '(id, t, n) := c in "
                   "list_eqb Ascii.eqb (lock_name (list_ascii_of_string id) t) (list_ascii_of_string n)",
                   lambda i: descr[i])


def run(ctx):
    # the protocol of the code: a tile that is_cached finds although load_tiles missed it is loaded again
    # (repair of finding F22).  Not probed: an implementation that does not do this disagrees with the model and
    # answers the witness schedules of corpus/C08/race-*.json without image (signature SIG_RACE).
    run_grid(ctx)
    run_threads(ctx, True)
