"""C02  Tile addresses mean what the capabilities documents say they mean.

Model: coq/theories/TileSvc.v (on top of the exact grid model Grid.v), theorems: coq/props/P_C02.v.
Tie: the real WSGI application (make_wsgi_app on generated YAML: tms, tiles, kml, wmts kvp + restful, wms/WMS-C) is
started for generated grid configurations; the REAL capabilities documents are parsed with lxml (TMS root / TileMap,
WMTS KVP and RESTful Capabilities, WMS 1.1.1 VendorSpecificCapabilities/TileSet, KML super-overlay documents), client
rectangles are computed from the documents with the standard formulas (fractions.Fraction), the advertised (and some
unadvertised) addresses are requested and the internal coordinate handed to the tile manager is observed by
wrapping TileManager.load_tile_coord / load_tile_coords.  Documents, client rectangles and observed coordinates are
compared inside Coq (vm_compute) with the model's tms_tilemap / wmts_matrix_set / kml_document / client_rect / served /
wmsc_get_map.  Oracle (independent of the model): rectangle from the document == rectangle of the tile that was loaded.
"""
from fractions import Fraction
import io
import json
import math
import os
import re
import threading

from common import zlit, blit, llit, olit
from gridlib import GridCase, frac

ID = 'C02'
TECHNIQUE = ('Coq proof over an exact-arithmetic model of the tile services (TMS, tiles, KML, WMTS, WMS-C) + correspondence of '
             'the model with the real WSGI application and its real capabilities documents')
LEVEL_TEXT = ('Theorems for every grid (any bbox, tile size, positive resolution list, both origins, global profiles, sqrt2 level '
              'skip, NE axis order, any layer extent) and every address of every service over the Gallina model of '
              'TileServiceGrid / TileLayer._internal_tile_coord / TileMatrixSet / the TileMap, TileSet and KML documents and the '
              'client-side standard formulas; the model is tied to the code by running the real application on generated '
              'configurations, parsing its real capabilities and observing the coordinate passed to the tile manager.')
LEVEL_NOTE = ('Trusted: Coq kernel; hand-written model TileSvc.v/Grid.v; the correspondence harness (lxml parsing, client formulas '
              'in Fractions). Not modelled: template rendering and float formatting (validated by parsing the real documents), '
              'IEEE rounding of grid.py (exact stream bit-exact, realistic stream 1e-9 relative). The path from the internal '
              'coordinate to pixels is covered by an end-to-end pixel stage (position-encoding upstream, real tile manager, meta tiles, '
              'TileSplitter) with a pixel oracle and a correspondence against the meta tile model MetaGrid.v of C04 (imported read-only); '
              'the float test res[0]/res[1] == sqrt(2) is an input of the model.')
DESIGN_REF = 'DESIGN.md section 5, C02'
RULE = ('case = (grid configuration, service flavour incl. ?origin= / tms origin option, address); non-trivial = address on a grid '
        'whose extent is not a multiple of the tile span, with ul origin, a global profile, sqrt2 levels, NE axis order or a '
        'coverage-restricted extent; distinct by (grid parameters, service, address)')
TRUSTED = ['model TileSvc.v hand-written from service/tile.py, service/wmts.py, service/kml.py, layer.py and the templates; '
           'tie = differential run of the real WSGI app vs model (vm_compute)',
           'float formatting of ScaleDenominator: the client resolution recovered from the document must match a level resolution '
           'within 1e-9 relative and is then snapped to it',
           'skip_odd (res[0]/res[1] == math.sqrt(2)) is an input of the model, taken from the configuration (res_factor: sqrt2)']
SCHEDULES = ('two-request schedules (A parsed, B parsed, A handled, B handled; threads gated at Server.parse_request) on pairs of advertised '
             'TMS / tiles / KML addresses with different grid path elements: same oracle and `served` table as sequential requests, plus '
             'the `schedule` correspondence with run_schedule (theorem request_isolation: all schedules)')
ASSUMPTIONS = ['resolutions positive (strictly decreasing for same_ground_tile_same_internal), bbox non-degenerate, tile size positive',
               'tms_address_exact: layer extent = grid bbox and (origin ll or tiled area bottom-aligned at that level) - excludes exactly finding F8',
               'kml_href_roundtrip: on sqrt2 grids for even internal levels (the only ones KML links to; kml_document_links_exact needs no hypothesis); W1/K1/K2 are repaired',
               'origin_override_exact / kml_address_exact: the effective origin is the grid origin or the level is bottom-aligned (misalign = 0)',
               'meter_per_unit positive (wmts scale denominator)',
               'request_isolation: the handled request was parsed before (any interleaving otherwise)']
EXPLANATION = ('address -> internal coordinate and capabilities -> client rectangle proved equal over Z for all grids; real app '
               'compared on exact and realistic grid configurations')
HERE = os.path.dirname(os.path.dirname(os.path.dirname(os.path.abspath(__file__))))
CORPUS = os.path.join(HERE, 'corpus', 'C02')

SIG_F8 = 'tms:origin-is-not-a-tile-corner(ul-unaligned-or-extent-differs)'
SIG_F8_WMSC = 'wmsc:advertised-tile-refused-or-shifted(ul-unaligned-or-extent-differs)'

MERC = 20037508.342789244
MPD = 111319.4907932736
SRS_KIND = {3857: 'SrsMerc', 900913: 'SrsMerc', 4326: 'SrsGeod', 25832: 'SrsOther', 31467: 'SrsOther', 3035: 'SrsOther',
            4267: 'SrsOther', 4230: 'SrsOther', 4277: 'SrsOther',
            2180: 'SrsOther', 3006: 'SrsOther', 4258: 'SrsOther', 4269: 'SrsOther', 2154: 'SrsOther', 32633: 'SrsOther'}
# axis order of the CRS definitions (EPSG registry), written down independently of mapproxy: some are in mapproxy's configured
# axis_order_ne / axis_order_en lists (4326, 4258, 31467 / 25832, 900913), the others are decided by PROJ (3035, 2180, 3006, 4269
# north/east; 3857, 2154, 32633 east/north)
SRS_NE = {3857: False, 900913: False, 4326: True, 25832: False, 31467: True, 3035: True,
          2180: True, 3006: True, 4258: True, 4269: True, 2154: False, 32633: False, 4267: True, 4230: True, 4277: True}
# geographic CRS: a WMTS client uses 111319.4907932736 m per degree for all of them, whatever the ellipsoid
LATLONG = (4326, 4258, 4269, 4267, 4230, 4277)
PROJECTED_OFFSET = {31467: (3400000, 5500000), 25832: (400000, 5500000), 3035: (4200000, 3100000), 2180: (500000, 400000),
                    3006: (500000, 6500000), 2154: (600000, 6500000), 32633: (400000, 5500000)}
PROFILE = {'global-mercator': 'GlobalMercator', 'global-geodetic': 'GlobalGeodetic', 'local': 'LocalProfile'}


# ----------------------------------------------------------------------------- configurations

class LayerSpec(object):
    """one tile layer = (layer, grid).  Normally one layer = one cache on one grid (+ optional cache coverage that restricts the
    layer extent); specs that share `layer` form ONE layer whose single cache has several grids (one tile layer per grid)."""

    def __init__(self, name, epsg, grid_conf, kind, coverage=None, sqrt2=False, layer=None):
        self.name = name              # unique: names the grid g_<name>
        self.layer = layer or name    # public layer name
        self.epsg = epsg
        self.grid_conf = grid_conf
        self.kind = kind              # 'exact' / 'real'
        self.coverage = coverage      # bbox in the grid SRS or None
        self.sqrt2 = sqrt2

    def describe(self):
        d = {'epsg': self.epsg, 'grid': self.grid_conf, 'coverage': self.coverage, 'sqrt2': self.sqrt2, 'kind': self.kind}
        if self.layer != self.name:
            d['layer_with_several_grids'] = self.layer
        return d


def gen_global_geodetic_layer(rng, i):
    """global-geodetic profile (bbox -180,-90,180,90 in EPSG:4326) with a custom dyadic resolution list: the first level is
    1x1, 2x1, 2x2, 4x2, ... tiles; the profile hides that first level whatever its size"""
    tw, th = rng.choice([(4, 4), (4, 2), (2, 2), (8, 4), (8, 8), (16, 8)])
    ladder = [Fraction(90) / 2 ** k for k in range(7) if Fraction(90) / 2 ** k * 8 % 1 == 0]
    ladder = [r for r in ladder if 360 / r >= tw / 2]
    start = rng.randrange(0, max(1, len(ladder) - 2))
    n = rng.randrange(2, 5)
    if rng.random() < 0.6:
        res = ladder[start:start + n]
    else:
        res = sorted(set(rng.sample(ladder, min(len(ladder), n))), reverse=True)
    if len(res) < 2:
        res = ladder[:2]
    conf = {'srs': 'EPSG:4326', 'bbox': [-180.0, -90.0, 180.0, 90.0], 'res': [float(r) for r in res], 'tile_size': [tw, th],
            'origin': rng.choice(['ll', 'ul', 'sw', 'nw']), 'stretch_factor': rng.choice([1.125, 1.25, 1.5]),
            'max_shrink_factor': rng.choice([4.0, 2.0])}
    return LayerSpec('x%d' % i, 4326, conf, 'exact', None)


def gen_exact_layer(rng, i):
    if rng.random() < 0.2:
        return gen_global_geodetic_layer(rng, i)
    epsg = rng.choice([3857, 3857, 25832, 31467, 4326, 4326, 3035, 2180, 3006, 4269, 4258, 2154, 32633, 3035, 4267, 4230, 4277])
    ul = rng.choice(['ll', 'ul', 'sw', 'nw', 'ul'])
    if epsg in LATLONG:
        tw, th = rng.choice([(4, 4), (8, 8), (8, 4), (16, 16), (5, 10)])
        n = rng.randrange(2, 6)
        base = rng.choice([Fraction(1, 8), Fraction(1, 4), Fraction(1, 2)])
        mode = rng.choice(['pyramid', 'custom'])
        if mode == 'pyramid':
            res = [base * 2 ** (n - 1 - j) for j in range(n)]
        else:
            res = sorted({base * rng.randrange(1, 24) for _ in range(n)}, reverse=True)
            if len(res) < 2:
                res = [res[0] * 2, res[0]]
        x0 = Fraction(rng.randrange(-160 * 8, 40 * 8), 8)
        y0 = Fraction(rng.randrange(-80 * 8, 10 * 8), 8)
        maxw, maxh = 178 - x0, 88 - y0
    else:
        tw, th = rng.choice([(256, 256), (100, 100), (64, 128), (7, 5), (10, 10), (512, 256)])
        n = rng.randrange(2, 7)
        mode = rng.choice(['pyramid', 'custom', 'custom'])
        if mode == 'pyramid':
            base = 10 * rng.choice([1, 2, 3, 5, 8])
            res = [Fraction(base * 2 ** (n - 1 - j)) for j in range(n)]
        else:
            res = sorted({Fraction(10 * rng.randrange(1, 300)) for _ in range(n)}, reverse=True)
            if len(res) < 2:
                res = [res[0] * 3, res[0]]
        x0 = Fraction(rng.randrange(-5000, 5000))
        y0 = Fraction(rng.randrange(-5000, 5000))
        if epsg in PROJECTED_OFFSET:
            x0 += PROJECTED_OFFSET[epsg][0]
            y0 += PROJECTED_OFFSET[epsg][1]
        maxw = maxh = None
    sx, sy = res[0] * tw, res[0] * th
    fx, fy = res[-1] * tw, res[-1] * th
    w = rng.choice([sx, sx * 2, sx * 3 + res[-1] * rng.randrange(1, 2 * tw), sx + res[-1] * rng.randrange(1, 3 * tw),
                    fx * rng.randrange(1, 9), sx * rng.randrange(1, 4) - res[-1], fx * rng.randrange(1, 5) + res[-1] / 2])
    h = rng.choice([sy, sy * 2, sy * 3 + res[-1] * rng.randrange(1, 2 * th), sy + res[-1] * rng.randrange(1, 3 * th),
                    fy * rng.randrange(1, 9), sy * rng.randrange(1, 4) - res[-1], fy * rng.randrange(1, 5) + res[-1] / 2])
    if maxw is not None:
        while w > maxw and len(res) > 2:
            res = res[1:]
            w = min(w, res[0] * tw * 2)
        while h > maxh and len(res) > 2:
            res = res[1:]
            h = min(h, res[0] * th * 2)
        w, h = min(w, maxw), min(h, maxh)
    if w <= 0 or h <= 0:
        w, h = fx, fy
    bbox = [float(x0), float(y0), float(x0 + w), float(y0 + h)]
    conf = {'srs': 'EPSG:%d' % epsg, 'bbox': bbox, 'res': [float(r) for r in res], 'tile_size': [tw, th], 'origin': ul,
            'stretch_factor': rng.choice([1.125, 1.25, 1.5]), 'max_shrink_factor': rng.choice([4.0, 2.0])}
    coverage = None
    if rng.random() < 0.2:
        # a cache coverage inside the grid bbox: the layer extent differs from the grid bbox (second class of F8)
        q = res[-1] * rng.choice([1, tw, 3])
        coverage = [float(x0 + q), float(y0 + q * rng.choice([0, 1, 2])), float(x0 + w - q * rng.choice([0, 1])), float(y0 + h)]
        if not (coverage[0] < coverage[2] and coverage[1] < coverage[3]):
            coverage = None
    return LayerSpec('x%d' % i, epsg, conf, 'exact', coverage)


def real_layers():
    out = []
    k = [0]

    def add(epsg, conf, sqrt2=False, kind='real', layer=None):
        k[0] += 1
        out.append(LayerSpec('r%d' % k[0], epsg, conf, kind, None, sqrt2, layer=layer))
    add(900913, {'base': 'GLOBAL_MERCATOR', 'num_levels': 7})
    add(900913, {'base': 'GLOBAL_MERCATOR', 'num_levels': 6, 'origin': 'nw'})
    add(3857, {'base': 'GLOBAL_WEBMERCATOR', 'num_levels': 6})
    add(4326, {'base': 'GLOBAL_GEODETIC', 'num_levels': 7}, kind='exact')
    add(4326, {'base': 'GLOBAL_GEODETIC', 'num_levels': 6, 'origin': 'ul'}, kind='exact')
    add(900913, {'base': 'GLOBAL_MERCATOR', 'res_factor': 'sqrt2', 'num_levels': 9}, sqrt2=True)
    add(900913, {'base': 'GLOBAL_MERCATOR', 'res_factor': 'sqrt2', 'num_levels': 8, 'origin': 'nw'}, sqrt2=True)
    add(3857, {'srs': 'EPSG:3857', 'bbox': [0, 0, 2048, 1024], 'res_factor': 'sqrt2', 'num_levels': 7, 'origin': 'ul',
               'tile_size': [64, 64]}, sqrt2=True)
    add(3857, {'srs': 'EPSG:3857', 'bbox': [100, 200, 2148, 1224], 'res_factor': 'sqrt2', 'num_levels': 6, 'tile_size': [64, 64]},
        sqrt2=True)
    add(4326, {'srs': 'EPSG:4326', 'bbox': [-180, -90, 180, 90], 'res_factor': 'sqrt2', 'num_levels': 6, 'origin': 'ul'}, sqrt2=True)
    add(25832, {'srs': 'EPSG:25832', 'bbox': [243900.0, 4427757.0, 756099.0, 6655205.0], 'res': [1000, 500, 250, 100, 50],
                'origin': 'ul'})
    add(25832, {'srs': 'EPSG:25832', 'bbox': [243900.0, 4427757.0, 756099.0, 6655205.0], 'min_res': 2800, 'num_levels': 6})
    add(31467, {'srs': 'EPSG:31467', 'bbox': [3300000.0, 5200000.0, 3950000.0, 6100000.0], 'min_res': 2800, 'num_levels': 5,
                'origin': 'nw'})
    add(4326, {'srs': 'EPSG:4326', 'bbox': [5.0, 45.0, 15.5, 55.25], 'res_factor': 1.5, 'num_levels': 6, 'origin': 'ul'})
    add(4326, {'srs': 'EPSG:4326', 'bbox': [-180, -90, 180, 90], 'tile_size': [360, 180], 'num_levels': 5}, kind='exact')
    # axis order decided by PROJ, not by mapproxy's configured axis_order_ne / axis_order_en lists
    add(3035, {'srs': 'EPSG:3035', 'bbox': [4000000, 2700000, 4700000, 3600000], 'res': [2000, 1000, 500], 'origin': 'nw'}, kind='exact')
    add(2180, {'srs': 'EPSG:2180', 'bbox': [140000, 100000, 900000, 780000], 'res': [1000, 400, 100], 'tile_size': [100, 100]}, kind='exact')
    add(4269, {'srs': 'EPSG:4269', 'bbox': [-125, 24, -66, 50], 'res': [0.25, 0.125, 0.0625], 'tile_size': [64, 64], 'origin': 'ul'}, kind='exact')
    add(2154, {'srs': 'EPSG:2154', 'bbox': [100000, 6000000, 1300000, 7200000], 'res': [2000, 500], 'origin': 'nw'}, kind='exact')
    # global profiles (decided by SRS + bbox only) whose first level is not the single world tile: the profile hides that
    # level in the TileMap and requests are shifted by one level all the same
    add(4326, {'base': 'GLOBAL_GEODETIC', 'min_res': 0.703125, 'num_levels': 4}, kind='exact')                      # 2x1
    add(4326, {'base': 'GLOBAL_GEODETIC', 'min_res': 0.3515625, 'num_levels': 4, 'origin': 'ul'}, kind='exact')     # 4x2
    add(4326, {'base': 'GLOBAL_GEODETIC', 'tile_size': [256, 128], 'res': [0.703125, 0.3515625, 0.17578125]}, kind='exact')  # 2x2
    add(4326, {'base': 'GLOBAL_GEODETIC', 'res': [0.5, 0.25, 0.125], 'origin': 'ul'}, kind='exact')                 # 3x2, unaligned
    add(900913, {'base': 'GLOBAL_MERCATOR', 'min_res': 78271.51696402048, 'num_levels': 4})                        # 2x2
    add(900913, {'base': 'GLOBAL_MERCATOR', 'min_res': 39135.75848201024, 'num_levels': 3, 'origin': 'nw'})       # 4x4
    add(3857, {'base': 'GLOBAL_WEBMERCATOR', 'res': [100000, 50000, 20000, 10000]})                                # custom list, 2x2
    add(4326, {'base': 'GLOBAL_GEODETIC', 'res_factor': 'sqrt2', 'min_res': 0.703125, 'num_levels': 6}, sqrt2=True)              # 2x1
    add(4326, {'base': 'GLOBAL_GEODETIC', 'res_factor': 'sqrt2', 'min_res': 0.3515625, 'num_levels': 5, 'origin': 'ul'}, sqrt2=True)  # 4x2
    add(900913, {'base': 'GLOBAL_MERCATOR', 'res_factor': 'sqrt2', 'min_res': 78271.51696402048, 'num_levels': 6, 'origin': 'nw'},
        sqrt2=True)                                                                                                  # 2x2
    add(900913, {'base': 'GLOBAL_MERCATOR', 'res_factor': 'sqrt2', 'num_levels': 4}, sqrt2=True)   # internal_level(0) = 4 does not exist
    # geographic SRS on other ellipsoids (Clarke 1866, International 1924, Airy): the WMTS scale denominator uses the constant
    # 111319.4907932736 m per degree for every geographic CRS (OGC 07-057r7 6.1, Table 2 note)
    add(4267, {'srs': 'EPSG:4267', 'bbox': [-125, 24, -66, 50], 'res': [0.25, 0.125, 0.0625, 0.0078125], 'tile_size': [64, 64], 'origin': 'ul'}, kind='exact')
    add(4230, {'srs': 'EPSG:4230', 'bbox': [-10, 35, 30, 70], 'res': [0.5, 0.125], 'tile_size': [32, 32]}, kind='exact')
    # ul / nw grids with non-square tiles, aligned on every level (tile height != tile width in tile_bbox, WMS-C, KML boxes)
    add(4326, {'srs': 'EPSG:4326', 'bbox': [-32, -16, 32, 16], 'res': [1, 0.5, 0.25], 'tile_size': [8, 4], 'origin': 'ul'}, kind='exact')
    add(3857, {'srs': 'EPSG:3857', 'bbox': [0, 0, 6400, 12800], 'res': [20, 10], 'tile_size': [64, 128], 'origin': 'nw'}, kind='exact')
    # one layer, one cache, several grids: a tile layer per grid, each with the extent of its own grid
    add(3857, {'srs': 'EPSG:3857', 'bbox': [0, 0, 1000, 700], 'res': [4, 2, 1], 'tile_size': [100, 100], 'origin': 'ul'}, kind='exact', layer='mg1')
    add(25832, {'srs': 'EPSG:25832', 'bbox': [400000, 5500000, 401024, 5500512], 'res': [4, 2], 'tile_size': [64, 64]}, kind='exact', layer='mg1')
    add(4326, {'base': 'GLOBAL_GEODETIC', 'num_levels': 4}, kind='exact', layer='mg2')
    add(900913, {'base': 'GLOBAL_MERCATOR', 'num_levels': 4}, layer='mg2')
    add(3035, {'srs': 'EPSG:3035', 'bbox': [4000000, 2700000, 4256000, 2956000], 'res': [1000, 500], 'tile_size': [64, 64], 'origin': 'nw'}, kind='exact', layer='mg2')
    return out


def build_conf(layers, tms_origin):
    conf = {
        'services': {'tms': {}, 'kml': {}, 'wmts': {'kvp': True, 'restful': True},
                     'wms': {'srs': sorted({'EPSG:%d' % l.epsg for l in layers})}},
        'layers': [], 'caches': {}, 'grids': {},
        'sources': {'src': {'type': 'wms', 'req': {'url': 'http://localhost:1/service', 'layers': 'x'}}},
    }
    if tms_origin:
        conf['services']['tms']['origin'] = tms_origin
    for l in layers:
        g = dict(l.grid_conf)
        conf['grids']['g_' + l.name] = g
        if 'c_' + l.layer in conf['caches']:
            # a further grid of the cache of this layer
            conf['caches']['c_' + l.layer]['grids'].append('g_' + l.name)
            continue
        c = {'grids': ['g_' + l.name], 'sources': ['src'], 'disable_storage': True}
        if l.coverage:
            c['cache'] = {'type': 'file', 'directory': '/nonexistent-c02', 'coverage': {'bbox': l.coverage, 'srs': 'EPSG:%d' % l.epsg}}
            del c['disable_storage']
        conf['caches']['c_' + l.layer] = c
        conf['layers'].append({'name': l.layer, 'title': 'T ' + l.layer, 'sources': ['c_' + l.layer]})
    return conf


# ----------------------------------------------------------------------------- the application under observation

class Observer(object):
    def __init__(self):
        self.loads = []

    def install(self):
        from mapproxy.cache import tile as ct
        from mapproxy.image import BlankImageSource
        from mapproxy.image.opts import ImageOptions
        obs = self
        self.orig = (ct.TileManager.load_tile_coord, ct.TileManager.load_tile_coords)

        def load_tile_coord(tm, tile_coord, dimensions=None, with_metadata=False):
            obs.loads.append(('one', tm.grid.name, tile_coord, threading.current_thread().name))
            t = ct.Tile(tile_coord)
            t.source = BlankImageSource(size=(1, 1), image_opts=ImageOptions(format='png', transparent=True))
            return t

        def load_tile_coords(tm, tile_coords, dimensions=None, with_metadata=False):
            coords = list(tile_coords)
            obs.loads.append(('many', tm.grid.name, coords, threading.current_thread().name))
            tiles = ct.TileCollection(coords)
            for t in tiles.tiles:
                if t.coord is not None:
                    t.source = BlankImageSource(size=tm.grid.tile_size, image_opts=ImageOptions(format='png', transparent=True))
            return tiles

        ct.TileManager.load_tile_coord = load_tile_coord
        ct.TileManager.load_tile_coords = load_tile_coords

    def remove(self):
        from mapproxy.cache import tile as ct
        ct.TileManager.load_tile_coord, ct.TileManager.load_tile_coords = self.orig


def get(app, obs, url):
    """-> (status int or 'raised', content type, body bytes, loads)"""
    del obs.loads[:]
    try:
        r = app.get(url, expect_errors=True)
        return r.status_int, r.content_type, r.body, list(obs.loads)
    except Exception as e:  # noqa
        return 'raised:' + type(e).__name__, None, b'', list(obs.loads)


def path_of(href):
    m = re.match(r'https?://[^/]+(/.*)$', href)
    return m.group(1) if m else href


def xml(body):
    from lxml import etree
    return etree.fromstring(body, etree.XMLParser(resolve_entities=False, no_network=True, load_dtd=False))


def F(s):
    """the double a client reads from the document (values are printed with repr: the round trip is exact)"""
    return Fraction(float(s.strip()))


def D(s):
    """exact value of a decimal string (KML boxes are printed with %f)"""
    return Fraction(s.strip())


# ----------------------------------------------------------------------------- document parsers (real documents -> plain data)

def parse_tms_root(body):
    root = xml(body)
    return [(tm.get('href'), tm.get('profile'), tm.get('srs')) for tm in root.iter('TileMap')]


def parse_tilemap(body):
    root = xml(body)
    bb = root.find('BoundingBox')
    org = root.find('Origin')
    tf = root.find('TileFormat')
    ts = root.find('TileSets')
    sets = [(int(t.get('order')), F(t.get('units-per-pixel')), t.get('href')) for t in ts.findall('TileSet')]
    return {'bbox': [F(bb.get(k)) for k in ('minx', 'miny', 'maxx', 'maxy')], 'origin': (F(org.get('x')), F(org.get('y'))),
            'tw': int(tf.get('width')), 'th': int(tf.get('height')), 'ext': tf.get('extension'), 'profile': ts.get('profile'),
            'srs': root.findtext('SRS'), 'sets': sets}


WMTS_NS = {'w': 'http://www.opengis.net/wmts/1.0', 'ows': 'http://www.opengis.net/ows/1.1'}


def parse_wmts(body):
    root = xml(body)
    sets = {}
    for ms in root.findall('w:Contents/w:TileMatrixSet', WMTS_NS):
        name = ms.findtext('ows:Identifier', namespaces=WMTS_NS)
        mats = []
        for m in ms.findall('w:TileMatrix', WMTS_NS):
            tl = m.findtext('w:TopLeftCorner', namespaces=WMTS_NS).split()
            mats.append({'id': m.findtext('ows:Identifier', namespaces=WMTS_NS), 'scale': F(m.findtext('w:ScaleDenominator', namespaces=WMTS_NS)),
                         'top': (F(tl[0]), F(tl[1])), 'tw': int(m.findtext('w:TileWidth', namespaces=WMTS_NS)),
                         'th': int(m.findtext('w:TileHeight', namespaces=WMTS_NS)), 'w': int(m.findtext('w:MatrixWidth', namespaces=WMTS_NS)),
                         'h': int(m.findtext('w:MatrixHeight', namespaces=WMTS_NS))})
        sets[name] = {'crs': ms.findtext('ows:SupportedCRS', namespaces=WMTS_NS), 'matrices': mats}
    layers = {}
    for l in root.findall('w:Contents/w:Layer', WMTS_NS):
        name = l.findtext('ows:Identifier', namespaces=WMTS_NS)
        links = [x.text for x in l.findall('w:TileMatrixSetLink/w:TileMatrixSet', WMTS_NS)]
        tmpl = [r.get('template') for r in l.findall('w:ResourceURL', WMTS_NS) if r.get('resourceType') == 'tile']
        fmt = l.findtext('w:Format', namespaces=WMTS_NS)
        layers[name] = {'sets': links, 'template': tmpl[0] if tmpl else None, 'format': fmt}
    return sets, layers


def parse_wmsc(body):
    root = xml(body)
    out = {}
    for ts in root.iter('TileSet'):
        bb = ts.find('BoundingBox')
        out[(ts.findtext('Layers'), ts.findtext('SRS'))] = {
            'srs': ts.findtext('SRS'), 'bbox': [F(bb.get(k)) for k in ('minx', 'miny', 'maxx', 'maxy')],
            'res': [F(x) for x in ts.findtext('Resolutions').split()], 'tw': int(ts.findtext('Width')), 'th': int(ts.findtext('Height')),
            'format': ts.findtext('Format')}
    return out


KML_NS = {'k': 'http://www.opengis.net/kml/2.2'}


def parse_kml(body):
    root = xml(body)

    def box(el):
        return [D(el.findtext('k:' + k, namespaces=KML_NS)) for k in ('west', 'south', 'east', 'north')]
    region = box(root.find('k:Document/k:Region/k:LatLonAltBox', KML_NS))
    overlays = []
    for go in root.findall('k:Document/k:GroundOverlay', KML_NS):
        overlays.append((go.findtext('k:Icon/k:href', namespaces=KML_NS), box(go.find('k:LatLonBox', KML_NS))))
    links = [nl.findtext('k:Link/k:href', namespaces=KML_NS) for nl in root.findall('k:Document/k:NetworkLink', KML_NS)]
    return region, overlays, links


# ----------------------------------------------------------------------------- per layer state

class L(object):
    pass


def setup_layer(spec, tile_layer, idx):
    st = L()
    st.spec = spec
    g = tile_layer.tile_manager.grid
    st.grid = g
    st.gc = GridCase('g%d' % idx, g, extra_den=8)
    st.gc.kind = spec.kind
    st.lname = 'L%d' % idx
    st.exact = spec.kind == 'exact'
    gc = st.gc
    st.default_bbox = (tuple(g.bbox) == (-MERC, -MERC, MERC, MERC) and SRS_KIND[spec.epsg] == 'SrsMerc') or \
                      (tuple(g.bbox) == (-180.0, -90.0, 180.0, 90.0) and SRS_KIND[spec.epsg] == 'SrsGeod')
    st.profile = ('GlobalMercator' if SRS_KIND[spec.epsg] == 'SrsMerc' else 'GlobalGeodetic') if st.default_bbox else 'LocalProfile'
    st.skip_first = st.default_bbox
    st.sqrt2 = spec.sqrt2
    st.ne = SRS_NE[spec.epsg]
    st.mpu = Fraction(MPD) if spec.epsg in LATLONG else Fraction(1)
    st.extent = [frac(v) for v in (spec.coverage if spec.coverage else g.bbox)]
    st.extent_differs = st.extent != gc.bbox
    # tolerance (in lattice quanta) for rectangles of the realistic stream: 1e-9 of the coordinate magnitude
    mag = max(abs(v) for v in gc.bbox)
    st.tol = 0 if st.exact else int(mag * gc.S / 10 ** 9) + 1
    st.ftol = Fraction(0) if st.exact else mag / 10 ** 9
    return st


def layer_gallina(st):
    gc = st.gc
    # extent: the rule of config/loader.py caches() (coverage of the cache, else the bbox of this grid); metres per unit: the rule of
    # service/wmts.py; the harness gives the configuration (coverage, geographic or not), the model computes the values
    cov = 'None' if not st.spec.coverage else '(Some (%s, %s, %s, %s))' % tuple(zlit(gc.z(frac(v))) for v in st.spec.coverage)
    mpu = '(meter_per_unit %s)' % blit(st.spec.epsg in LATLONG)
    return 'Definition %s : tlayer := mkLayer %s %s %s %s %s (fst %s) (snd %s) (cache_extent %s None %s) %s.' % (
        st.lname, gc.name, SRS_KIND[st.spec.epsg], blit(st.default_bbox), blit(st.sqrt2), blit(st.ne),
        mpu, mpu, cov, gc.name, zlit(gc.S))


def misalign(st, l):
    gc = st.gc
    nx, ny = gc.grid_size(l)
    return (gc.bbox[3] - gc.bbox[1]) - ny * gc.res[l] * gc.th


def rect_close(a, b, tol):
    return all(abs(x - y) <= tol for x, y in zip(a, b))


def zrect(gc, r):
    """scaled integer rectangle; None when not representable (realistic stream: round to the lattice)"""
    out = []
    for v in r:
        q = frac(v) * gc.S
        out.append(int(round(q)))
    return '(%s, %s, %s, %s)' % tuple(zlit(v) for v in out)


def coordlit(c):
    return '(%s, %s, %s)' % (zlit(c[0]), zlit(c[1]), zlit(c[2]))


def olist_coord(c):
    return 'None' if c is None else '(Some %s)' % coordlit(c)


OREQ = {None: 'ONone', 'sw': 'OSW', 'nw': 'ONW'}


def sample_xy(rng, nx, ny, full_limit=20, k=10):
    """addresses of a level: everything for small levels, else corners / borders / outside / random"""
    pts = set()
    if nx * ny <= full_limit:
        pts.update((x, y) for x in range(nx) for y in range(ny))
    else:
        for x in (0, nx - 1):
            for y in (0, ny - 1):
                pts.add((x, y))
        for _ in range(k):
            pts.add((rng.randrange(nx), rng.randrange(ny)))
    pts.update([(-1, 0), (0, -1), (nx, 0), (0, ny), (nx - 1, ny), (nx, ny - 1)])
    return sorted(pts)


class Run(object):
    def __init__(self, ctx):
        self.ctx = ctx
        self.defs = []
        self.served = ([], [])     # terms, descriptions
        self.crect = ([], [])
        self.tmsdoc = ([], [])
        self.wmtsdoc = ([], [])
        self.wmscdoc = ([], [])
        self.wmsc = ([], [])
        self.kml = ([], [])
        self.svcgrid = ([], [])
        self.addr_log = []
        self.sched = ([], [])
        self.kmlwgs = ([], [])
        self.app_seq = 0
        self.known = {}

    def add(self, table, term, desc):
        table[0].append(term)
        table[1].append(desc)


def rep(st, service, addr, **kw):
    d = {'layer': st.spec.describe(), 'service': service, 'address': addr}
    d.update(kw)
    return d


def observed_coord(status, loads):
    """-> ('ok', coord or None) / ('junk', text)"""
    if isinstance(status, str):
        return ('junk', status)
    if len(loads) == 1 and loads[0][0] == 'one' and status == 200:
        return ('ok', tuple(int(v) for v in loads[0][2]))
    if not loads and status in (400, 404):
        return ('ok', None)
    return ('junk', 'status %r loads %r' % (status, loads))


def check_address(R, st, srv, service, addr_term, url, client_rect, addr_desc, advertised, known_sig=None, known_cond=False,
                  result=None, schedule=None):
    """request one address; oracle rectangle-from-document == rectangle of the loaded tile; register the Coq cases.
    result / schedule: the answer was obtained under a two-request schedule (run_pair) instead of a sequential request"""
    ctx, gc = R.ctx, st.gc
    if result is None:
        status, ctype, body, loads = get(R.app, R.obs, url)
        if advertised and service in ('tms', 'tiles', 'kml'):
            R.addr_log.append((st, srv, service, addr_term, url, client_rect, addr_desc, advertised, known_sig, known_cond))
    else:
        status, ctype, body, loads = result
        addr_desc = list(addr_desc) + ['schedule', schedule]
    kind, c = observed_coord(status, loads)
    nontrivial = st.gc.ul or st.skip_first or st.sqrt2 or st.ne or st.extent_differs or any(misalign(st, l) != 0 for l in range(len(gc.res)))
    ctx.case((json.dumps(st.spec.describe(), sort_keys=True), service, srv, addr_desc), nontrivial,
             {'layer': st.spec.describe(), 'service': service, 'address': addr_desc, 'url': url, 'status': status,
              'loaded': c if kind == 'ok' else loads})
    ctx.count('svc=' + service)
    d = rep(st, service, addr_desc, url=url, tms_origin=srv, status=status, loaded=repr(loads))
    if schedule:
        d['schedule'] = schedule
    if kind == 'junk':
        ctx.fail(service + ':unexpected-answer', '%s answered %s for %s' % (service, c, url), d)
        obs_term = '(Some (-7, -7, -7))'
    else:
        obs_term = olist_coord(c)
        ctx.count('answer=' + ('tile' if c else 'refused'))
    R.add(R.served, '(%s, %s, %s, %s)' % (st.lname, OREQ[srv], addr_term, obs_term), d)
    if client_rect is not None:
        R.add(R.crect, '(%s, %s, %s, %s, Some %s)' % (st.lname, OREQ[srv], addr_term, zlit(st.tol), zrect(gc, client_rect)), d)
    # ---- oracle
    if kind != 'ok':
        return c
    if c is None:
        if advertised:
            sig = known_sig if known_cond else service + ':advertised-address-refused'
            ctx.fail(sig, '%s: advertised address %s is refused (status %s)' % (service, url, status), d)
        return None
    if client_rect is None:
        return c
    if not (0 <= c[2] < len(gc.res)):
        ctx.fail(service + ':loaded-invalid-level', 'loaded %r' % (c,), d)
        return c
    real = gc.tile_rect(*c)
    if not rect_close(real, client_rect, st.ftol):
        d['client_rectangle'] = [float(v) for v in client_rect]
        d['served_rectangle'] = [float(v) for v in real]
        sig = known_sig if known_cond else service + ':rectangle-mismatch'
        ctx.fail(sig, '%s %s: the client computes %r from the capabilities, the served tile %r covers %r' % (
            service, url, [float(v) for v in client_rect], c, [float(v) for v in real]), d)
    return c


def snap_res(st, r):
    """level resolution matching a client-side resolution within 1e-9 relative (float formatting of the document)"""
    for lr in st.gc.res:
        if abs(lr - r) <= lr / 10 ** 9:
            return lr
    return None


# ----------------------------------------------------------------------------- services

def do_tms(R, st, srv, tilemap_href):
    ctx, gc, rng = R.ctx, st.gc, R.ctx.rng
    status, ctype, body, _ = get(R.app, R.obs, path_of(tilemap_href))
    if status != 200:
        ctx.fail('tms:no-tilemap', 'TileMap document %s: status %r' % (tilemap_href, status), rep(st, 'tms', None))
        return
    doc = parse_tilemap(body)
    sets_ok = all(gc.can_scale(u) for _, u, _ in doc['sets']) and all(gc.can_scale(v) for v in doc['bbox'] + list(doc['origin']))
    d = rep(st, 'tms', 'TileMap', document={k: (repr(v)) for k, v in doc.items()})
    if not sets_ok or doc['profile'] not in PROFILE:
        ctx.fail('tms:tilemap-values', 'TileMap values are not grid values: %r' % (doc,), d)
        return
    R.add(R.tmsdoc, '(%s, mkTmsDoc %s (%s, %s) %d %d %s %s)' % (
        st.lname, '(%s, %s, %s, %s)' % tuple(zlit(gc.z(v)) for v in doc['bbox']), zlit(gc.z(doc['origin'][0])), zlit(gc.z(doc['origin'][1])),
        doc['tw'], doc['th'], PROFILE[doc['profile']],
        llit(doc['sets'], lambda s: '(%s, %s)' % (zlit(s[0]), zlit(gc.z(s[1]))))), d)
    ctx.case(('tmsdoc', json.dumps(st.spec.describe(), sort_keys=True)), True)
    ox, oy = doc['origin']
    for order, upp, href in doc['sets']:
        lr = snap_res(st, upp)
        if lr is None:
            ctx.fail('tms:units-per-pixel-is-no-level', 'units-per-pixel %r of order %d is not a resolution of the grid' % (float(upp), order), d)
            continue
        # the client derives the valid range from the BoundingBox: tiles whose rectangle has a point inside the bbox that is
        # at least one pixel away from the right / top border (grid.py ignores a strip thinner than one pixel, C03)
        sx, sy = upp * doc['tw'], upp * doc['th']
        nx = max(1, math.ceil((doc['bbox'][2] - upp - ox) / sx))
        ny = max(1, math.ceil((doc['bbox'][3] - upp - oy) / sy))
        x_lo = math.floor((doc['bbox'][0] - ox) / sx)
        y_lo = math.floor((doc['bbox'][1] - oy) / sy)
        for x, y in sample_xy(rng, nx, ny, full_limit=R.full_limit, k=R.k):
            advertised = x_lo <= x < nx and y_lo <= y < ny
            rect = (ox + x * sx, oy + y * sy, ox + (x + 1) * sx, oy + (y + 1) * sy)
            il = (order + (1 if st.skip_first else 0)) * (2 if st.sqrt2 else 1)
            f8 = st.extent_differs or (gc.ul and il < len(gc.res) and misalign(st, il) != 0)
            check_address(R, st, srv, 'tms', '(ATms %s %s %s)' % (zlit(order), zlit(x), zlit(y)),
                          '%s/%d/%d.%s' % (path_of(href), x, y, doc['ext']), rect, ['tms', order, x, y], advertised, SIG_F8, f8)
    # an order that is not advertised
    n = len(doc['sets'])
    for z in (n, -1):
        check_address(R, st, srv, 'tms', '(ATms %s 0 0)' % zlit(z), '%s/%d/0/0.%s' % (path_of(tilemap_href), z, doc['ext']), None,
                      ['tms', z, 0, 0], False)
    return doc


def conv_rect(gc, o_ul, x, y, l):
    r = gc.res[l]
    sx, sy = r * gc.tw, r * gc.th
    if o_ul:
        return (gc.bbox[0] + x * sx, gc.bbox[3] - (y + 1) * sy, gc.bbox[0] + (x + 1) * sx, gc.bbox[3] - y * sy)
    return (gc.bbox[0] + x * sx, gc.bbox[1] + y * sy, gc.bbox[0] + (x + 1) * sx, gc.bbox[1] + (y + 1) * sy)


def do_tiles_kml(R, st, srv, tilemap_href):
    """/tiles (with ?origin= and the service option) and /kml image addresses: no capabilities document; the oracle uses the
    documented convention (addresses counted from the corner of the grid named by the origin) where the grid supports it"""
    ctx, gc, rng = R.ctx, st.gc, R.ctx.rng
    base = path_of(tilemap_href)            # /tms/1.0.0/<layer>/<srs>
    m = re.match(r'^/tms/1\.0\.0/(.*)$', base)
    rel = m.group(1)
    step = 2 if st.sqrt2 else 1
    nlev = (len(gc.res) + step - 1) // step
    for z in list(range(nlev)) + [nlev, -1]:
        il = z * step
        if 0 <= il < len(gc.res):
            nx, ny = gc.grid_size(il)
        else:
            nx, ny = 1, 1
        pts = sample_xy(rng, nx, ny, full_limit=R.full_limit // 2, k=max(2, R.k // 2))
        for q in (None, 'sw', 'nw'):
            o = q or srv
            o_ul = gc.ul if o is None else (o == 'nw')
            for x, y in pts:
                rect = None
                if 0 <= il < len(gc.res) and (o_ul == gc.ul or misalign(st, il) == 0):
                    rect = conv_rect(gc, o_ul, x, y, il)
                url = '/tiles/%s/%d/%d/%d.png' % (rel, z, x, y) + ('?origin=' + q if q else '')
                adv = 0 <= il < len(gc.res) and 0 <= x < nx and 0 <= y < ny
                check_address(R, st, srv, 'tiles', '(ATiles %s %s %s %s)' % (OREQ[q], zlit(z), zlit(x), zlit(y)), url, rect,
                              ['tiles', q, z, x, y], adv)
        for x, y in pts[:max(6, len(pts) // 2)]:
            rect = None
            if 0 <= il < len(gc.res) and (not gc.ul or misalign(st, il) == 0):
                rect = conv_rect(gc, False, x, y, il)
            adv = 0 <= il < len(gc.res) and 0 <= x < nx and 0 <= y < ny
            check_address(R, st, srv, 'kml', '(AKml %s %s %s)' % (zlit(z), zlit(x), zlit(y)), '/kml/%s/%d/%d/%d.png' % (rel, z, x, y),
                          rect, ['kml', z, x, y], adv)
    return rel


MERC_R = 6378137.0


def merc_to_wgs(rect):
    """what a KML client is told for a (web) mercator rectangle: spherical inverse mercator; a rectangle that ends at the border
    of the mercator WORLD (+-20037508.342789244, within 0.1) is extended to the pole (kml.py _tile_bbox_to_wgs)"""
    def lon(x):
        return math.degrees(float(x) / MERC_R)

    def lat(y):
        return math.degrees(2 * math.atan(math.exp(float(y) / MERC_R)) - math.pi / 2)
    south = -90.0 if abs(float(rect[1]) + MERC) < 0.1 else lat(rect[1])
    north = 90.0 if abs(float(rect[3]) - MERC) < 0.1 else lat(rect[3])
    return (lon(rect[0]), south, lon(rect[2]), north)


def wgs_to_merc(box):
    """mercator rectangle of a LatLonBox (to compare the document with the model, which works in the grid SRS)"""
    def y(lat):
        lat = float(lat)
        if abs(lat) >= 90.0:
            return math.copysign(MERC, lat)
        return MERC_R * math.log(math.tan(math.pi / 4 + math.radians(lat) / 2))
    return (Fraction(math.radians(float(box[0])) * MERC_R), Fraction(y(box[1])), Fraction(math.radians(float(box[2])) * MERC_R), Fraction(y(box[3])))


def do_kml_docs(R, st, srv, rel):
    """KML super-overlay documents: EPSG:4326 grids (LatLonBox = rectangle in the grid SRS) and (web) mercator grids (LatLonBox =
    inverse mercator of the rectangle, extended to the pole at the border of the mercator world)"""
    ctx, gc, rng = R.ctx, st.gc, R.ctx.rng
    merc = st.spec.epsg in (3857, 900913)
    if st.spec.epsg != 4326 and not merc:
        return
    # %f prints 6 decimals: exact on the lattice of the exact stream, within 1e-6 on the realistic stream
    ktol = Fraction(0) if st.exact else Fraction(1, 10 ** 6)
    kztol = 0 if st.exact else int(gc.S / 10 ** 6) + 1
    if merc:
        # %f: 1e-6 degree is 0.11 m at the equator and 1.3 m in mercator y at 85 degrees: the document is compared with the model
        # within 2 m (grids with pixels of at least 8 m: a tile is at least 16 m high)
        ktol = Fraction(2, 10 ** 6)
        kztol = 2 * gc.S + 1
        if min(gc.res) < 8:
            return
    step = 2 if st.sqrt2 else 1
    nlev = (len(gc.res) + step - 1) // step
    for z in range(nlev):
        nx, ny = gc.grid_size(z * step)
        pts = sample_xy(rng, nx, ny, full_limit=6, k=3)[:(5 if merc else 8)]
        for x, y in pts:
            url = '/kml/%s/%d/%d/%d.kml' % (rel, z, x, y)
            status, ctype, body, loads = get(R.app, R.obs, url)
            d = rep(st, 'kml-doc', [z, x, y], url=url, status=status)
            inside = 0 <= x < nx and 0 <= y < ny
            ctx.case(('kmldoc', json.dumps(st.spec.describe(), sort_keys=True), z, x, y), True)
            ctx.count('svc=kml-doc')
            if status == 200:
                try:
                    region, overlays, links = parse_kml(body)
                except Exception as e:  # noqa
                    ctx.fail('kml:document-unparsable', 'KML document %s cannot be parsed: %r' % (url, e), d)
                    continue
                ok = (not st.exact) or merc or (all(gc.can_scale(v) for v in region) and all(gc.can_scale(v) for _, b in overlays for v in b))
                subs = []
                for href, box in overlays:
                    mm = re.search(r'/(-?\d+)/(-?\d+)/(-?\d+)\.png$', href)
                    cz, cx, cy = int(mm.group(1)), int(mm.group(2)), int(mm.group(3))
                    subs.append(((cx, cy, cz), box, href))
                if not ok:
                    ctx.fail('kml:box-values', 'KML boxes of %s are not lattice values (6 decimals)' % url, d)
                    continue
                if merc:
                    term = '(KmlDoc %s %s)' % (zrect(gc, wgs_to_merc(region)),
                                               llit(subs, lambda s: '(Some %s, %s)' % (coordlit(s[0]), zrect(gc, wgs_to_merc(s[1])))))
                else:
                    term = '(KmlDoc %s %s)' % (zrect(gc, region), llit(subs, lambda s: '(Some %s, %s)' % (coordlit(s[0]), zrect(gc, s[1]))))
                # oracle: every advertised image address covers its LatLonBox
                for (cx, cy, cz), box, href in subs:
                    s2, _, _, loads2 = get(R.app, R.obs, path_of(href))
                    k2, c2 = observed_coord(s2, loads2)
                    dd = dict(d, href=href, latlonbox=[float(v) for v in box], loaded=repr(loads2), status2=s2)
                    if k2 != 'ok':
                        ctx.fail('kml:unexpected-answer', 'KML image %s: %s' % (href, c2), dd)
                    elif c2 is None:
                        ctx.fail('kml:advertised-address-refused', 'image %s advertised by %s is refused (%s)' % (href, url, s2), dd)
                    elif 0 <= c2[2] < len(gc.res):
                        # the LatLonBox rule of kml.py in the model (kml_bbox_to_wgs): T = the harness's own transformation of the
                        # rectangle of the loaded tile (spherical inverse mercator without any pole rule / identity), in microdegrees
                        tr = gc.tile_rect(*c2)
                        if merc:
                            tw_ = merc_to_wgs((tr[0], Fraction(0), tr[2], Fraction(0)))
                            lat = [math.degrees(2 * math.atan(math.exp(float(v) / MERC_R)) - math.pi / 2) for v in (tr[1], tr[3])]
                            tbox = (tw_[0], lat[0], tw_[2], lat[1])
                        else:
                            tbox = tuple(float(v) for v in tr)
                        micro = lambda vs: '(%s, %s, %s, %s)' % tuple(zlit(int(round(float(v) * 10 ** 6))) for v in vs)  # noqa
                        R.add(R.kmlwgs, '(%s, %s, %s, %s, %s, %s)' % (micro(tbox), blit(merc), zlit(int(round(Fraction(MERC) * gc.S))),
                                                                      zlit(max(gc.S // 10, 1)), zrect(gc, tr), micro(box)), dd)
                    if k2 == 'ok' and c2 is not None and (not (0 <= c2[2] < len(gc.res)) or
                            not rect_close(merc_to_wgs(gc.tile_rect(*c2)) if merc else gc.tile_rect(*c2), box, ktol)):
                        ctx.fail('kml:rectangle-mismatch', 'image %s advertised with LatLonBox %r is tile %r covering %r' % (
                            href, [float(v) for v in box], c2, [float(v) for v in gc.tile_rect(*c2)]), dd)
                for href in links:
                    s3, _, _, _ = get(R.app, R.obs, path_of(href))
                    if s3 != 200:
                        ctx.fail('kml:advertised-document-fails', 'KML document %s linked from %s answers %s' % (href, url, s3),
                                 dict(d, href=href, status3=s3))
            elif status == 500:
                term = 'KmlCrash'
                ctx.fail('kml:document-500', 'KML document %s answers 500' % url, d)
            elif status in (400, 404):
                term = 'KmlOutOfRange'
                if inside:
                    ctx.fail('kml:advertised-document-fails', 'KML document %s answers %s' % (url, status), d)
            else:
                ctx.fail('kml:unexpected-answer', 'KML document %s: %r' % (url, status), d)
                continue
            R.add(R.kml, '(%s, %s, %s, %s, %s, %s)' % (st.lname, zlit(kztol), zlit(x), zlit(y), zlit(z), term), d)


def do_wmts(R, st, srv, sets, layers, flavour):
    ctx, gc, rng = R.ctx, st.gc, R.ctx.rng
    name = st.spec.layer
    d0 = rep(st, 'wmts', 'Capabilities')
    gname = st.grid.name
    offered = name in layers and gname in layers[name]['sets']
    aligned = gc.ul or all(misalign(st, l) == 0 for l in range(len(gc.res)))
    if not offered:
        if flavour == 'rest':
            R.add(R.wmtsdoc, '(%s, %s, None)' % (st.lname, zlit(st.tol)), d0)
        if aligned and st.exact:
            ctx.fail('wmts:layer-missing', 'layer %s on a north-west addressable grid is missing in the WMTS capabilities' % name, d0)
        # addresses of a layer that is not offered are refused
        url = '/wmts/%s/%s/00/0/0.png' % (name, gname) if flavour == 'rest' else \
            '/service?service=WMTS&request=GetTile&version=1.0.0&layer=%s&style=&tilematrixset=%s&tilematrix=00&tilerow=0&tilecol=0&format=image/png' % (name, gname)
        check_address(R, st, srv, 'wmts-' + flavour, '(AWmts 0 0 0)', url, None, ['wmts', 0, 0, 0], False)
        return
    if not aligned:
        ctx.fail('wmts:unaligned-grid-offered', 'layer %s is offered by WMTS although its grid cannot be addressed from the north-west' % name, d0)
    lay = layers[name]
    if gname not in lay['sets'] or gname not in sets or len(lay['sets']) > st.n_grids:
        ctx.fail('wmts:matrix-set-link', 'layer %s links %r' % (name, lay['sets']), d0)
        return
    mats = sets[gname]['matrices']
    terms = []
    usable = []
    for m in mats:
        cres = m['scale'] * Fraction(28, 100000) / st.mpu
        lr = snap_res(st, cres)
        tlx, tly = (m['top'][1], m['top'][0]) if st.ne else m['top']
        if lr is None:
            ctx.fail('wmts:scale-denominator-is-no-level', 'ScaleDenominator %r of matrix %s gives pixel span %r, not a resolution of the grid' % (
                float(m['scale']), m['id'], float(cres)), d0)
            continue
        usable.append((m, lr, tlx, tly))
        terms.append('(mkTM %s %s %s (%s, %s) %d %d %d %d)' % (
            zlit(int(m['id'])), zlit(gc.z(lr) * 100000 * st.mpu.numerator), zlit(28 * st.mpu.denominator),
            zlit(int(round(m['top'][0] * gc.S))), zlit(int(round(m['top'][1] * gc.S))), m['tw'], m['th'], m['w'], m['h']))
    if flavour == 'rest':
        R.add(R.wmtsdoc, '(%s, %s, Some %s)' % (st.lname, zlit(st.tol), '[' + '; '.join(terms) + ']'),
              dict(d0, matrices=[{k: (float(v) if isinstance(v, Fraction) else repr(v)) for k, v in m.items()} for m in mats]))
        ctx.case(('wmtsdoc', json.dumps(st.spec.describe(), sort_keys=True)), True)
    for m, lr, tlx, tly in usable:
        mid = int(m['id'])
        sx, sy = lr * m['tw'], lr * m['th']
        for col, row in sample_xy(rng, m['w'], m['h'], full_limit=R.full_limit, k=R.k):
            advertised = 0 <= col < m['w'] and 0 <= row < m['h']
            rect = (tlx + col * sx, tly - (row + 1) * sy, tlx + (col + 1) * sx, tly - row * sy) if advertised else None
            if flavour == 'rest':
                url = path_of(lay['template']).replace('{TileMatrixSet}', gname).replace('{TileMatrix}', m['id']) \
                    .replace('{TileCol}', str(col)).replace('{TileRow}', str(row))
            else:
                url = ('/service?service=WMTS&request=GetTile&version=1.0.0&layer=%s&style=&tilematrixset=%s&tilematrix=%s'
                       '&tilerow=%d&tilecol=%d&format=%s' % (name, gname, m['id'], row, col, lay['format']))
            check_address(R, st, srv, 'wmts-' + flavour, '(AWmts %s %s %s)' % (zlit(mid), zlit(col), zlit(row)), url, rect,
                          ['wmts', mid, col, row], advertised)
    # a matrix that is not advertised
    mid = len(mats)
    url = '/service?service=WMTS&request=GetTile&version=1.0.0&layer=%s&style=&tilematrixset=%s&tilematrix=%d&tilerow=0&tilecol=0&format=%s' % (
        name, gname, mid, lay['format'])
    check_address(R, st, srv, 'wmts-kvp', '(AWmts %s 0 0)' % zlit(mid), url, None, ['wmts', mid, 0, 0], False)


def do_wmsc(R, st, tileset):
    """WMS-C: TileSet of the WMS 1.1.1 capabilities and GetMap tiled=true for the rectangles a client derives from it"""
    ctx, gc, rng = R.ctx, st.gc, R.ctx.rng
    name = st.spec.layer
    d0 = rep(st, 'wmsc', 'TileSet', tileset=repr(tileset))
    if tileset is None:
        ctx.fail('wmsc:tileset-missing', 'no TileSet for layer %s' % name, d0)
        return
    if not (all(gc.can_scale(v) for v in tileset['bbox']) and all(gc.can_scale(v) for v in tileset['res'])):
        ctx.fail('wmsc:tileset-values', 'TileSet values are not grid values', d0)
        return
    R.add(R.wmscdoc, '(%s, %s, %s, %d, %d)' % (st.lname, '(%s, %s, %s, %s)' % tuple(zlit(gc.z(v)) for v in tileset['bbox']),
                                            llit([gc.z(v) for v in tileset['res']]), tileset['tw'], tileset['th']), d0)
    ctx.case(('wmscdoc', json.dumps(st.spec.describe(), sort_keys=True)), True)
    if not st.exact or st.sqrt2:
        return
    ex0, ey0, ex1, ey1 = tileset['bbox']
    tw, th = tileset['tw'], tileset['th']

    def fmt(v):
        v = Fraction(v)
        s = '%.6f' % float(v)
        return s if Fraction(s) == v else None

    for r in tileset['res']:
        sx, sy = r * tw, r * th
        nx = max(1, math.ceil((ex1 - r - ex0) / sx))
        ny = max(1, math.ceil((ey1 - r - ey0) / sy))
        pts = sample_xy(rng, nx, ny, full_limit=R.full_limit // 2, k=max(2, R.k // 2))
        for i, j in pts:
            rect = (ex0 + i * sx, ey0 + j * sy, ex0 + (i + 1) * sx, ey0 + (j + 1) * sy)
            variants = [('exact', rect, tw, th)]
            if rng.random() < 0.3:
                e = r / rng.choice([8, 16, 4, 2])
                variants.append(('shifted', tuple(v + e for v in rect), tw, th))
            if rng.random() < 0.3:
                # one axis only (bbox_equals uses one tolerance for the min corner and one for the max corner), up to 2 px
                e = r * rng.choice([Fraction(1, 8), Fraction(1, 16), Fraction(1, 4), Fraction(1, 2), 1, 2, Fraction(-1, 8), Fraction(-1, 4)])
                k = rng.choice([(1, 0, 1, 0), (0, 1, 0, 1), (1, 0, 0, 0), (0, 0, 0, 1), (0, 0, 1, 0), (0, 1, 0, 0)])
                variants.append(('shift-axis', tuple(v + e * kk for v, kk in zip(rect, k)), tw, th))
            if rng.random() < 0.1:
                variants.append(('wrongsize', rect, tw + 1, th))
            if rng.random() < 0.1:
                variants.append(('two', (rect[0], rect[1], rect[2] + sx, rect[3]), tw, th))
            for vname, bb, w, h in variants:
                txt = [fmt(v) for v in bb]
                if None in txt or not all(gc.can_scale(v) for v in bb):
                    continue
                if not (bb[0] < bb[2] and bb[1] < bb[3]):
                    # a degenerate rectangle is rejected by the WMS request parser ('invalid bbox'), it never reaches the layer
                    continue
                url = ('/service?service=WMS&version=1.1.1&request=GetMap&layers=%s&styles=&srs=%s&bbox=%s&width=%d&height=%d'
                       '&format=%s&tiled=true' % (name, tileset['srs'], ','.join(txt), w, h, tileset['format']))
                status, ctype, body, loads = get(R.app, R.obs, url)
                d = rep(st, 'wmsc', [float(r), i, j, vname], url=url, status=status, loaded=repr(loads), content_type=ctype)
                ctx.case((json.dumps(st.spec.describe(), sort_keys=True), 'wmsc', float(r), i, j, vname), True,
                         {'layer': st.spec.describe(), 'service': 'wmsc', 'url': url, 'status': status, 'loaded': repr(loads)})
                ctx.count('svc=wmsc')
                many = [l for l in loads if l[0] == 'many']
                if isinstance(status, str) or len(loads) > 1:
                    ctx.fail('wmsc:unexpected-answer', 'GetMap tiled=true %s: %r %r' % (url, status, loads), d)
                    continue
                if many and status == 200 and ctype and ctype.startswith('image/'):
                    coords = many[0][2]
                    if len(coords) == 1 and coords[0] is not None:
                        obs, oc = 'WLoaded %s' % coordlit(coords[0]), tuple(coords[0])
                    elif len(coords) == 1:
                        obs, oc = 'WBlank', None
                    else:
                        ctx.fail('wmsc:more-than-one-tile', 'tiled GetMap loaded %r' % (coords,), d)
                        continue
                elif not loads and status == 200 and ctype and ctype.startswith('image/'):
                    obs, oc = 'WBlank', None
                elif not loads and ctype and 'xml' in ctype:
                    obs, oc = 'WRefused', None
                else:
                    ctx.fail('wmsc:unexpected-answer', 'GetMap tiled=true %s: %r %r %r' % (url, status, ctype, loads), d)
                    continue
                ctx.count('wmsc=' + obs.split()[0] + ':' + vname)
                R.add(R.wmsc, '(%s, %s, %d, %d, %s)' % (gc.name, zrect(gc, bb), w, h, obs), d)
                # oracle: a served tile is the stored tile of the requested rectangle within 1/10 pixel - never a neighbour;
                # a rectangle computed from the TileSet (inside the advertised range) is served
                if oc is not None:
                    real = gc.tile_rect(*oc) if 0 <= oc[2] < len(gc.res) else None
                    tolx, toly = abs(bb[2] - bb[0]) / w / 10, abs(bb[3] - bb[1]) / h / 10
                    if real is None or not (abs(real[0] - bb[0]) < tolx and abs(real[2] - bb[2]) < tolx and
                                            abs(real[1] - bb[1]) < toly and abs(real[3] - bb[3]) < toly):
                        ctx.fail('wmsc:served-tile-is-not-the-requested-rectangle',
                                 'tiled GetMap for %r served tile %r covering %r' % ([float(v) for v in bb], oc, real and [float(v) for v in real]), d)
                if vname == 'exact' and 0 <= i < nx and 0 <= j < ny and oc is None:
                    lvl = [k for k, lr in enumerate(gc.res) if lr == r]
                    f8 = st.extent_differs or (gc.ul and lvl and misalign(st, lvl[0]) != 0)
                    ctx.fail(SIG_F8_WMSC if f8 else 'wmsc:advertised-tile-refused',
                             'the tile (%d, %d) at resolution %r of the advertised TileSet is not served (%s)' % (i, j, float(r), obs), d)


# ----------------------------------------------------------------------------- one application

def run_app(R, layers, tms_origin, idx0):
    ctx = R.ctx
    import yaml
    from mapproxy.wsgiapp import make_wsgi_app
    from webtest import TestApp
    conf = build_conf(layers, tms_origin)
    d = ctx.tmpdir('app')
    path = os.path.join(d, 'mapproxy.yaml')
    with open(path, 'w') as f:
        yaml.safe_dump(conf, f)
    try:
        app = TestApp(make_wsgi_app(path))
    except Exception as e:  # noqa
        ctx.fail('config:app-cannot-be-built', 'make_wsgi_app failed for a valid configuration: %r' % (e,), {'conf': conf})
        return
    R.app = app
    handlers = app.app.handlers
    tms_layers = handlers['tms'].layers
    states = []
    for i, spec in enumerate(layers):
        tl = [v for v in tms_layers.values() if v.name == spec.layer and v.tile_manager.grid.name == 'g_' + spec.name]
        if len(tl) != 1:
            ctx.fail('config:layer-missing', 'layer %s has %d tile layers on grid g_%s' % (spec.layer, len(tl), spec.name), {'conf': conf})
            continue
        st = setup_layer(spec, tl[0], idx0 + i)
        st.path_element = tl[0].md['name_path'][1]
        first = [s0 for s0 in states if s0.spec.layer == spec.layer]
        st.layer_id = first[0].layer_id if first else idx0 + i
        st.n_grids = len([l for l in layers if l.layer == spec.layer])
        states.append(st)
        R.defs.append(st.gc.definition())
        R.defs.append(layer_gallina(st))
        # TileServiceGrid.internal_level / .bbox (demo pages)
        try:
            ils = [int(tl[0].grid.internal_level(k)) for k in range(4)]
        except Exception as e:  # noqa
            ils = None
        try:
            sb = tuple(tl[0].grid.bbox)
            sbt = '(Some (%s, %s, %s, %s))' % tuple(zlit(st.gc.z(v)) for v in sb) if all(st.gc.can_scale(v) for v in sb) else '(Some (0, 0, 0, 0))'
        except IndexError:
            sb, sbt = 'IndexError', 'None'
        except Exception as e:  # noqa
            sb, sbt = 'raised:' + type(e).__name__, '(Some (0, 0, 0, 0))'
        if ils is not None:
            R.add(R.svcgrid, '(%s, %s, %s)' % (st.lname, llit(ils), sbt), {'layer': spec.describe(), 'internal_level': ils, 'bbox': repr(sb)})
            ctx.case(('svcgrid', json.dumps(spec.describe(), sort_keys=True)), True)
        for key in ('origin=' + ('ul' if st.gc.ul else 'll'), 'profile=' + st.profile, 'sqrt2=%s' % st.sqrt2, 'ne=%s' % st.ne,
                    'extent_differs=%s' % st.extent_differs, 'kind=' + spec.kind,
                    'aligned=%s' % all(misalign(st, l) == 0 for l in range(len(st.gc.res)))):
            ctx.count(key)
    # documents
    status, _, body, _ = get(app, R.obs, '/tms/1.0.0/')
    root = parse_tms_root(body) if status == 200 else []
    s1, _, b1, _ = get(app, R.obs, '/wmts/1.0.0/WMTSCapabilities.xml')
    s2, _, b2, _ = get(app, R.obs, '/service?service=WMTS&request=GetCapabilities')
    s3, _, b3, _ = get(app, R.obs, '/service?service=WMS&version=1.1.1&request=GetCapabilities&tiled=true')
    if status != 200 or s1 != 200 or s2 != 200 or s3 != 200:
        ctx.fail('capabilities:not-available', 'capabilities status tms %r wmts-rest %r wmts-kvp %r wms %r' % (status, s1, s2, s3), {'conf': conf})
        return
    rest_sets, rest_layers = parse_wmts(b1)
    kvp_sets, kvp_layers = parse_wmts(b2)
    wmsc = parse_wmsc(b3)
    if json.dumps(rest_sets, sort_keys=True, default=str) != json.dumps(kvp_sets, sort_keys=True, default=str):
        ctx.fail('wmts:kvp-and-restful-capabilities-differ', 'TileMatrixSets of the KVP and RESTful capabilities differ', {'conf': conf})
    for st in states:
        hrefs = [h for h, prof, srs in root if h.endswith('/%s/%s' % (st.spec.layer, st.path_element))]
        if len(hrefs) != 1:
            ctx.fail('tms:root-resource', 'layer %s has %d TileMaps for %s in the root resource' % (st.spec.layer, len(hrefs), st.path_element),
                     rep(st, 'tms', None))
            continue
        prof = [p for h, p, s in root if h == hrefs[0]][0]
        if PROFILE.get(prof) != st.profile:
            # reported through the TileMap correspondence as well; this is the oracle on the root document
            ctx.fail('tms:profile', 'root resource advertises profile %r for %r' % (prof, st.spec.describe()), rep(st, 'tms', None))
        do_tms(R, st, tms_origin, hrefs[0])
        rel = do_tiles_kml(R, st, tms_origin, hrefs[0])
        do_kml_docs(R, st, tms_origin, rel)
        do_wmts(R, st, tms_origin, rest_sets, rest_layers, 'rest')
        do_wmts(R, st, tms_origin, kvp_sets, kvp_layers, 'kvp')
        do_wmsc(R, st, wmsc.get((st.spec.layer, 'EPSG:%d' % st.spec.epsg)))
    R.app_seq += 1
    R.states = states
    R.app_table = 'app%d' % R.app_seq
    R.defs.append('Definition %s : layer_table := %s.' % (
        R.app_table, llit(states, lambda st: '(%d, %d, %s)' % (st.layer_id, st.spec.epsg, st.lname))))
    do_pairs(R, tms_origin)


def run_pair(R, url_a, url_b):
    """Two requests in two threads against the same WSGI application, gated at Server.parse_request:
    A is parsed, then B is parsed, then A is handled, then B is handled.  -> (result of A, result of B)"""
    from webtest import TestApp
    import mapproxy.service.base as base
    wsgi = R.app.app
    gates = {'c02-A': (threading.Event(), threading.Event()), 'c02-B': (threading.Event(), threading.Event())}
    orig = base.Server.parse_request
    out = {}

    def gated(self, req):
        g = gates.get(threading.current_thread().name)
        try:
            return orig(self, req)
        finally:
            if g:
                g[0].set()
                g[1].wait(20)

    def worker(url):
        name = threading.current_thread().name
        try:
            r = TestApp(wsgi).get(url, expect_errors=True)
            out[name] = (r.status_int, r.content_type, r.body)
        except Exception as e:  # noqa
            out[name] = ('raised:' + type(e).__name__, None, b'')
        finally:
            gates[name][0].set()

    del R.obs.loads[:]
    base.Server.parse_request = gated
    try:
        ta = threading.Thread(target=worker, args=(url_a,), name='c02-A', daemon=True)
        tb = threading.Thread(target=worker, args=(url_b,), name='c02-B', daemon=True)
        ta.start()
        gates['c02-A'][0].wait(20)      # A parsed
        tb.start()
        gates['c02-B'][0].wait(20)      # B parsed
        gates['c02-A'][1].set()         # A handled
        ta.join(30)
        gates['c02-B'][1].set()         # B handled
        tb.join(30)
    finally:
        base.Server.parse_request = orig
        for g in gates.values():
            g[1].set()
    loads = list(R.obs.loads)
    res = []
    for name in ('c02-A', 'c02-B'):
        st_, ct_, body_ = out.get(name, ('raised:hang', None, b''))
        res.append((st_, ct_, body_, [l for l in loads if l[3] == name]))
    return res


def do_pairs(R, srv):
    """Request isolation: the answer for an address must not depend on another request that is parsed between the parsing and
    the handling of this one (the model's `served` is a function of the address alone).  Pairs of advertised TMS / tiles / KML
    addresses of different layers / grid path elements are run under the schedule of run_pair and go through the same oracle
    and the same `served` correspondence as the sequential requests."""
    ctx, rng = R.ctx, R.ctx.rng
    log, R.addr_log = R.addr_log, []
    if len(log) < 2:
        return
    n = ctx.n(6, 30)
    tries = 0
    while n > 0 and tries < 200:
        tries += 1
        a, b = rng.choice(log), rng.choice(log)
        def grid_element(url):
            parts = url.split('?')[0].split('/')
            return parts[4] if parts[1] == 'tms' else parts[3]
        if a[0] is b[0] or grid_element(a[4]) == grid_element(b[4]):
            continue
        n -= 1
        if rng.random() < 0.4:
            # B without grid path element: TileServer / KMLServer try <layer>_EPSG900913 and <layer>_EPSG4326
            b = list(b)
            b[4] = re.sub(r'^(/tms/1\.0\.0/[^/]+|/tiles/[^/]+|/kml/[^/]+)/[^/]+/', r'\1/', b[4], count=1)
            # which grid of the layer answers: TileServer tries <layer>_EPSG900913 first, KMLServer <layer>_EPSG4326
            have = {s0.spec.epsg for s0 in R.states if s0.spec.layer == b[0].spec.layer}
            order = [e for e in ((4326, 900913) if b[2] == 'kml' else (900913, 4326)) if e in have]
            b[7] = bool(order) and order[0] == b[0].spec.epsg
            b = tuple(b)
        ra, rb = run_pair(R, a[4], b[4])
        sched = 'A parsed, B parsed, A handled, B handled; A=%s B=%s' % (a[4], b[4])
        ctx.count('svc=pair')
        check_address(R, *a, result=ra, schedule=sched)
        if b[7]:
            # (a request without grid path element for a layer that has neither a 900913 nor a 4326 grid does not reach the layer:
            # 'unknown layer'; it is compared with the request model below only)
            check_address(R, *b, result=rb, schedule=sched)

        # the schedule itself goes to the request / schedule model (run_schedule): both answers must be the model's
        def req_term(x):
            ge = re.match(r'^[A-Za-z]+(\d+)$', grid_element(x[4]))
            return '(mkReq %s %d %s %s)' % (blit(x[2] == 'kml'), x[0].layer_id, olit(int(ge.group(1)) if ge else None), x[3])

        def obs_term(r):
            kind, c = observed_coord(r[0], r[3])
            return olist_coord(c) if kind == 'ok' else '(Some (-7, -7, -7))'
        R.add(R.sched, '(%s, %s, %s, %s, %s, %s)' % (R.app_table, OREQ[srv], req_term(a), req_term(b), obs_term(ra), obs_term(rb)),
              {'schedule': sched, 'A': {'url': a[4], 'status': ra[0], 'loaded': repr(ra[3])}, 'B': {'url': b[4], 'status': rb[0], 'loaded': repr(rb[3])}})


# ----------------------------------------------------------------------------- pixels: content of the returned tile

class FakeResponse(io.BytesIO):
    def __init__(self, data, ctype):
        io.BytesIO.__init__(self, data)
        self.headers = {'Content-type': ctype, 'Content-length': str(len(data))}
        self.code = 200


def cell_colours(kx, ky):
    """position code of the ground cells (kx[i], ky[j]): numpy arrays -> (h, w, 3) uint8"""
    import numpy as np
    arr = np.zeros((len(ky), len(kx), 3), dtype=np.uint8)
    arr[:, :, 0] = (kx & 255)[None, :]
    arr[:, :, 1] = (ky & 255)[:, None]
    arr[:, :, 2] = 0x40 | (((kx >> 8) & 7) << 3)[None, :] | ((ky >> 8) & 7)[:, None]
    return arr


class PixelUpstream(object):
    """Synthetic WMS upstream: the pixel of a GetMap answer whose ground cell (one pixel of the requested resolution, lattice
    anchored at the lower-left corner of the grid bbox of the requested layer) has index (kx, ky) is coloured with
    cell_colours(kx, ky).  Requests that are not on that lattice are recorded (no resampling is expected for tile creation)."""

    def __init__(self):
        self.grids = {}        # upstream layer name -> GridCase
        self.requests = []
        self.off_lattice = []

    def open(self, url, data=None, method=None):
        import numpy as np
        from PIL import Image
        from urllib.parse import urlsplit, parse_qsl
        q = dict((k.lower(), v) for k, v in parse_qsl(urlsplit(url).query, keep_blank_values=True))
        gc = self.grids[q['layers']]
        bbox = [Fraction(float(v)) for v in q['bbox'].split(',')]
        w, h = int(q['width']), int(q['height'])
        self.requests.append((q['layers'], q['bbox'], w, h))
        rx = (bbox[2] - bbox[0]) / w
        ry = (bbox[3] - bbox[1]) / h
        fx = (bbox[0] - gc.bbox[0]) / rx
        fy = (bbox[3] - gc.bbox[1]) / ry
        # on the lattice up to float noise of the doubles in the URL (1e-6 pixel)
        if abs(rx / ry - 1) > Fraction(1, 10 ** 9) or abs(fx - round(fx)) > Fraction(1, 10 ** 6) or abs(fy - round(fy)) > Fraction(1, 10 ** 6):
            self.off_lattice.append(url)
        kx = int(round(fx)) + np.arange(w, dtype=np.int64)
        ky = int(round(fy)) - 1 - np.arange(h, dtype=np.int64)
        buf = io.BytesIO()
        Image.fromarray(cell_colours(kx, ky), 'RGB').save(buf, 'PNG')
        return FakeResponse(buf.getvalue(), 'image/png')


def pixel_layers(ctx):
    rng = ctx.rng
    out = []

    def add(epsg, grid, meta_size=None, meta_buffer=None):
        out.append((LayerSpec('p%d' % len(out), epsg, grid, 'exact'), meta_size, meta_buffer))
    # bbox not a multiple of the tile span: the top (ll) / bottom (ul) tile row sticks out of the grid bbox; default meta tiles
    add(3857, {'srs': 'EPSG:3857', 'bbox': [0, 0, 1000, 1000], 'res': [4, 2, 1], 'tile_size': [256, 256], 'origin': 'll'})
    add(3857, {'srs': 'EPSG:3857', 'bbox': [0, 0, 1000, 1000], 'res': [4, 2, 1], 'tile_size': [256, 256], 'origin': 'ul'})
    add(3857, {'srs': 'EPSG:3857', 'bbox': [0, 0, 552, 856], 'res': [8, 4, 2], 'tile_size': [32, 32], 'origin': 'll'}, [2, 2], 10)
    add(4326, {'base': 'GLOBAL_GEODETIC', 'num_levels': 3})
    add(3857, {'srs': 'EPSG:3857', 'bbox': [0, 0, 1000, 1200], 'res': [4, 2], 'tile_size': [64, 32], 'origin': 'ul'}, [2, 2], 10)
    # doubles that are not on a dyadic lattice: the buffer that is cut off at the grid border is 79.99999.. / 80.00000..1 pixels
    add(900913, {'base': 'GLOBAL_MERCATOR', 'num_levels': 4})
    add(900913, {'base': 'GLOBAL_MERCATOR', 'num_levels': 3, 'origin': 'nw'}, [2, 2], 30)
    add(3857, {'srs': 'EPSG:3857', 'bbox': [0, 0, 1000, 1000], 'res': [4, 1], 'tile_size': [100, 100], 'origin': 'll'}, [3, 3], 0)
    add(3035, {'srs': 'EPSG:3035', 'bbox': [4000000, 2700000, 4700000, 3600000], 'res': [2000, 1000, 500], 'tile_size': [64, 64],
               'origin': 'nw'}, [2, 3], 7)
    # levels with more than 1,000,000 columns and rows (every directory component of the cache layouts is exercised): addresses
    # whose column / row differ by a multiple of 1,000,000 (and a 2**20 neighbour), requested in a fixed order - the first one is
    # stored before the others are asked for, so a tile that is found under the path of another tile shows the wrong ground.
    # Tile sizes whose multiple of 1,000,000 is not a multiple of 2048 (the position code carries 11 bits per axis).
    add(3857, {'srs': 'EPSG:3857', 'bbox': [0, 0, 20 * 2000010, 30 * 2000010], 'res': [4, 1], 'tile_size': [20, 30], 'origin': 'll'}, [2, 2], 5)
    out[-1][0].force_points = {1: [(5, 7), (1000005, 7), (2000005, 7), (1048575, 7), (5, 1000007), (5, 2000007), (1000005, 1000007),
                                   (6, 1048575)]}
    add(25832, {'srs': 'EPSG:25832', 'bbox': [0, 0, 2 * 50 * 1100000, 2 * 50 * 1050000], 'res': [8, 2], 'tile_size': [50, 50], 'origin': 'ul'},
        [3, 2], 0)
    out[-1][0].force_points = {1: [(1000003, 9), (3, 9), (3, 1000009), (1000003, 1000009), (1000002, 1000010)]}
    for _ in range(ctx.n(3, 14)):
        tw, th = rng.choice([(32, 32), (64, 32), (50, 50), (128, 128), (20, 30)])
        n = rng.randrange(1, 4)
        res = [rng.choice([1, 2, 5, 10])]
        for _k in range(n):
            res.insert(0, res[0] * rng.choice([2, 2, 3, 5]))
        w = res[0] * (tw * rng.randrange(1, 3) + rng.randrange(0, tw))
        h = res[0] * (th * rng.randrange(1, 3) + rng.randrange(0, th))
        x0, y0 = rng.randrange(-3000, 3000), rng.randrange(-3000, 3000)
        add(rng.choice([3857, 25832, 2180]),
            {'srs': None, 'bbox': [x0, y0, x0 + w, y0 + h], 'res': res, 'tile_size': [tw, th], 'origin': rng.choice(['ll', 'ul', 'nw', 'sw'])},
            rng.choice([[1, 1], [2, 2], [3, 2], [4, 4]]), rng.choice([0, 5, 20, 80]))
    for spec, _ms, _mb in out:
        if spec.grid_conf.get('srs', '') is None:
            spec.grid_conf['srs'] = 'EPSG:%d' % spec.epsg
    return out


def do_pixels(ctx):
    """End to end without the observer: real tile manager, file cache, meta tiles, TileSplitter.  Oracle: every pixel of the
    returned tile whose ground cell lies inside the grid bbox carries the position code of the cell that the client computes
    for that pixel from the address (tiles: documented convention; TMS / WMTS: rectangle from the capabilities), and the same
    ground tile through another service is the same image."""
    import numpy as np
    import yaml
    from PIL import Image
    from mapproxy.wsgiapp import make_wsgi_app
    from mapproxy.client import http
    from webtest import TestApp
    rng = ctx.rng
    layers = pixel_layers(ctx)
    up = PixelUpstream()
    pdefs, pterms, pdesc = [], [], []
    conf = {'services': {'tms': {}, 'kml': {}, 'wmts': {'kvp': True, 'restful': True}}, 'layers': [], 'caches': {}, 'grids': {}, 'sources': {},
            'globals': {'image': {'paletted': False}}}      # no colour quantisation: the position code must survive the PNG encoder
    d = ctx.tmpdir('pixels')
    for spec, ms, mb in layers:
        conf['grids']['g_' + spec.name] = dict(spec.grid_conf)
        c = {'grids': ['g_' + spec.name], 'sources': ['s_' + spec.name], 'cache': {'type': 'file', 'directory': os.path.join(d, spec.name)}}
        if ms is not None:
            c['meta_size'] = ms
        if mb is not None:
            c['meta_buffer'] = mb
        conf['caches']['c_' + spec.name] = c
        conf['sources']['s_' + spec.name] = {'type': 'wms', 'req': {'url': 'http://localhost:1/service', 'layers': 'u_' + spec.name}}
        conf['layers'].append({'name': spec.name, 'title': spec.name, 'sources': ['c_' + spec.name]})
    path = os.path.join(d, 'mapproxy.yaml')
    with open(path, 'w') as f:
        yaml.safe_dump(conf, f)
    orig_open = http.HTTPClient.open
    http.HTTPClient.open = lambda self, url, data=None, method=None: up.open(url, data, method)
    try:
        try:
            app = TestApp(make_wsgi_app(path))
        except Exception as e:  # noqa
            ctx.fail('config:app-cannot-be-built', 'make_wsgi_app failed for a valid configuration: %r' % (e,), {'conf': conf})
            return
        tms_layers = app.app.handlers['tms'].layers
        s1, _, b1, _ = get(app, Observer(), '/wmts/1.0.0/WMTSCapabilities.xml')
        wsets, wlayers = parse_wmts(b1) if s1 == 200 else ({}, {})
        for k, (spec, ms, mb) in enumerate(layers):
            tl = [v for v in tms_layers.values() if v.name == spec.name][0]
            g = tl.tile_manager.grid
            gc = GridCase('pg%d' % k, g, extra_den=8)
            up.grids['u_' + spec.name] = gc
            pdefs.append(gc.definition())
            mgrid = '(mkMG %s %d %d %d)' % ((gc.name,) + tuple(ms or (4, 4)) + (80 if mb is None else mb,))
            rel = '%s/%s' % (spec.name, tl.md['name_path'][1])
            hidden = 1 if tl.grid._skip_first_level else 0
            st, _, body, _ = get(app, Observer(), '/tms/1.0.0/' + rel)
            tmsdoc = parse_tilemap(body) if st == 200 else None
            for l in range(len(gc.res)):
                r = gc.res[l]
                nx, ny = gc.grid_size(l)
                top = 0 if gc.ul else ny - 1
                forced = getattr(spec, 'force_points', None)
                if forced is not None:
                    # fixed addresses in a fixed order (history: earlier ones are stored when the later ones are requested);
                    # independent of the seed
                    pts = [p for p in forced.get(l, []) if p[0] < nx and p[1] < ny]
                else:
                    pts = {(x, top) for x in rng.sample(range(nx), min(nx, 3))}
                    pts |= {(x, ny - 1 - top) for x in rng.sample(range(nx), min(nx, 2))}
                    pts |= {(rng.randrange(nx), rng.randrange(ny)) for _ in range(2)}
                    pts = sorted(pts)
                for x, y in pts:
                    rect = gc.tile_rect(x, y, l)
                    addrs = [('tiles', '/tiles/%s/%d/%d/%d.png' % (rel, l, x, y), rect)]
                    ysw = ny - 1 - y if gc.ul else y
                    ynw = y if gc.ul else ny - 1 - y
                    if tmsdoc is not None:
                        for order, upp, href in tmsdoc['sets']:
                            ox, oy = tmsdoc['origin']
                            rr = (ox + x * upp * gc.tw, oy + ysw * upp * gc.th, ox + (x + 1) * upp * gc.tw, oy + (ysw + 1) * upp * gc.th)
                            if order == l - hidden and rr == rect:      # (not where finding F8 applies)
                                addrs.append(('tms', '%s/%d/%d.png' % (path_of(href), x, ysw), rr))
                    if spec.name in wlayers and g.name in wsets:
                        for m in wsets[g.name]['matrices']:
                            if int(m['id']) != l:
                                continue
                            cres = snap_res_list(gc.res, m['scale'] * Fraction(28, 100000) / (Fraction(MPD) if spec.epsg in LATLONG else 1))
                            tlx, tly = (m['top'][1], m['top'][0]) if SRS_NE[spec.epsg] else m['top']
                            if cres is not None:
                                rr = (tlx + x * cres * m['tw'], tly - (ynw + 1) * cres * m['th'], tlx + (x + 1) * cres * m['tw'], tly - ynw * cres * m['th'])
                                url = path_of(wlayers[spec.name]['template']).replace('{TileMatrixSet}', g.name).replace('{TileMatrix}', m['id']) \
                                    .replace('{TileCol}', str(x)).replace('{TileRow}', str(ynw))
                                addrs.append(('wmts', url, rr))
                    first = None
                    for service, url, rr in addrs:
                        try:
                            resp = app.get(url, expect_errors=True)
                            status, body = resp.status_int, resp.body
                        except Exception as e:  # noqa
                            status, body = 'raised:' + type(e).__name__, b''
                        dsc = {'layer': spec.describe(), 'meta_size': ms, 'meta_buffer': mb, 'service': service, 'url': url,
                               'status': status, 'client_rectangle': [float(v) for v in rr], 'internal_tile': [x, y, l]}
                        ctx.case(('pixels', json.dumps(spec.describe(), sort_keys=True), ms, mb, service, l, x, y), True, dsc if first is None else None)
                        ctx.count('svc=pixels-' + service)
                        if status != 200:
                            ctx.fail('pixels:advertised-address-refused', '%s answers %r' % (url, status), dsc)
                            continue
                        try:
                            img = np.asarray(Image.open(io.BytesIO(body)).convert('RGB'))
                        except Exception as e:  # noqa
                            ctx.fail('pixels:not-an-image', '%s: %r' % (url, e), dsc)
                            continue
                        if img.shape[:2] != (gc.th, gc.tw):
                            ctx.fail('pixels:wrong-tile-size', '%s returned %r' % (url, img.shape), dsc)
                            continue
                        fx = (rr[0] - gc.bbox[0]) / r
                        fy = (rr[3] - gc.bbox[1]) / r
                        if abs(fx - round(fx)) > Fraction(1, 10 ** 6) or abs(fy - round(fy)) > Fraction(1, 10 ** 6):
                            continue
                        kx = int(round(fx)) + np.arange(gc.tw, dtype=np.int64)
                        ky = int(round(fy)) - 1 - np.arange(gc.th, dtype=np.int64)
                        want = cell_colours(kx, ky)
                        inside = ((kx >= 0) & (kx < int(round((gc.bbox[2] - gc.bbox[0]) / r))))[None, :] & \
                                 ((ky >= 0) & (ky < int(round((gc.bbox[3] - gc.bbox[1]) / r))))[:, None]
                        bad = inside & np.any(img != want, axis=2)
                        ctx.count('pixels:overhang' if not inside.all() else 'pixels:inside')
                        if bad.any():
                            j, i = [int(v[0]) for v in np.nonzero(bad)]
                            dsc.update(pixel=[i, j], expected_cell=[int(kx[i]), int(ky[j])], expected_rgb=[int(v) for v in want[j, i]],
                                       found_rgb=[int(v) for v in img[j, i]], wrong_pixels=int(bad.sum()))
                            ctx.fail('pixels:tile-content-is-not-its-rectangle',
                                     '%s: pixel (%d, %d) must show ground cell (%d, %d) of the rectangle %r computed for the address, '
                                     'it shows colour %r (%d wrong pixels)' % (url, i, j, kx[i], ky[j], [float(v) for v in rr],
                                                                              [int(v) for v in img[j, i]], int(bad.sum())), dsc)
                        if first is None:
                            first = img
                            # correspondence with the meta tile model (MetaGrid.v model_pixel: meta tile bbox, tile pattern with
                            # negative offsets at the grid border, TileSplitter): sampled pixels, where the code is unambiguous
                            ncx, ncy = int(round((gc.bbox[2] - gc.bbox[0]) / r)), int(round((gc.bbox[3] - gc.bbox[1]) / r))
                            if ncx < 2048 and ncy < 2048 and gc.can_scale(r):
                                edge_j = [int(v) for v in np.nonzero(inside.any(axis=1))[0][[0, -1]]] if inside.any() else []
                                edge_i = [int(v) for v in np.nonzero(inside.any(axis=0))[0][[0, -1]]] if inside.any() else []
                                pix = {(0, 0), (gc.tw - 1, 0), (0, gc.th - 1), (gc.tw - 1, gc.th - 1)}
                                for jj in edge_j:
                                    for ii in edge_i:
                                        pix |= {(ii, jj), (ii, max(jj - 1, 0)), (ii, min(jj + 1, gc.th - 1)),
                                                (max(ii - 1, 0), jj), (min(ii + 1, gc.tw - 1), jj)}
                                pix |= {(rng.randrange(gc.tw), rng.randrange(gc.th)) for _ in range(3)}
                                for ii, jj in sorted(pix):
                                    cr, cg, cb = [int(v) for v in img[jj, ii]]
                                    if cb & 0x80:
                                        obs = '(Some None)'
                                    else:
                                        obs = '(Some (Some (%d, %d)))' % (cr | (((cb >> 3) & 7) << 8), cg | ((cb & 7) << 8))
                                    pterms.append('(%s, %s, (%d, %d, %d), %d, %d, %s)' % (mgrid, zlit(gc.z(r)), x, y, l, ii, jj, obs))
                                    pdesc.append(dict(dsc, pixel=[ii, jj], rgb=[cr, cg, cb]))
                        elif not np.array_equal(first, img):
                            ctx.fail('pixels:same-ground-tile-different-image', '%s differs from the image of %s' % (url, addrs[0][1]), dsc)
        if up.off_lattice:
            ctx.notes.append('pixel stage: %d upstream requests were not on the level lattice (first: %s)' % (len(up.off_lattice), up.off_lattice[0]))
        ctx.notes.append('pixel stage: %d upstream requests' % len(up.requests))
    finally:
        http.HTTPClient.open = orig_open
    return pdefs, pterms, pdesc


def snap_res_list(res, r):
    for lr in res:
        if abs(lr - r) <= lr / 10 ** 9:
            return lr
    return None


def corpus_layers():
    out = []
    if os.path.isdir(CORPUS):
        for fn in sorted(os.listdir(CORPUS)):
            if fn.endswith('.json'):
                j = json.load(open(os.path.join(CORPUS, fn)))
                for k, l in enumerate(j['layers']):
                    out.append((j.get('tms_origin'), LayerSpec('c%s%d' % (re.sub(r'\W', '', fn[:-5])[:10], k), l['epsg'], l['grid'],
                                                               l.get('kind', 'exact'), l.get('coverage'), l.get('sqrt2', False))))
    return out


def run(ctx):
    R = Run(ctx)
    rng = ctx.rng
    R.full_limit = ctx.n(6, 49)
    R.k = ctx.n(2, 16)
    R.obs = Observer()
    import logging
    logging.disable(logging.CRITICAL)
    try:
        R.obs.install()
    except Exception as e:  # noqa
        ctx.problem('harness', 'cannot install the tile manager observer: %r' % (e,))
        return
    try:
        batches = []
        cl = corpus_layers()
        by_origin = {}
        for o, spec in cl:
            by_origin.setdefault(o, []).append(spec)
        for o, specs in sorted(by_origin.items(), key=lambda kv: str(kv[0])):
            batches.append((specs, o))
        n_exact = ctx.n(8, 100)
        exact = [gen_exact_layer(rng, i) for i in range(n_exact)]
        per = 6
        for k in range(0, len(exact), per):
            batches.append((exact[k:k + per], rng.choice([None, None, 'nw', 'sw'])))
        real = real_layers()
        batches.append((real[:8], None))
        batches.append((real[8:15], 'nw'))
        batches.append((real[15:22], 'sw'))
        batches.append((real[22:], None))
        idx = 0
        for specs, origin in batches:
            run_app(R, specs, origin, idx)
            idx += len(specs)
    finally:
        R.obs.remove()
    pix = None
    try:
        pix = do_pixels(ctx)
    finally:
        logging.disable(logging.NOTSET)
    hist = {}
    for f in ctx.failures:
        hist[f['signature']] = hist.get(f['signature'], 0) + 1
    ctx.notes.append('oracle failures by signature: %s' % json.dumps(hist, sort_keys=True))
    if os.environ.get('VERIF_C02_DEBUG'):
        print(json.dumps(hist, indent=1, sort_keys=True))
        seen = set()
        for f in ctx.failures:
            if f['signature'] not in seen:
                seen.add(f['signature'])
                print(f['signature'], '::', f['what'][:600])
    defs = '\n'.join(R.defs)
    imports = 'Grid TileSvc'
    import time as _t
    ctx.notes.append('implementation phase: %.1f s' % (_t.time() - ctx.t0))
    if os.environ.get('VERIF_C02_DEBUG'):
        print('implementation phase done at %.1f s' % (_t.time() - ctx.t0))
    ctx.corr_check('served', imports, 'tlayer * origin_req * address * option coord', R.served[0],
                   "fun c => let '(s, srv, a, obs) := c in ocoord_eqb (served s srv a) obs", lambda i: R.served[1][i], defs=defs, shard=1200)
    ctx.corr_check('client_rect', imports, 'tlayer * origin_req * address * Z * option bbox', R.crect[0],
                   "fun c => let '(s, srv, a, tol, obs) := c in obbox_close tol (client_rect s srv a) obs", lambda i: R.crect[1][i], defs=defs, shard=1200)
    ctx.corr_check('tms_tilemap', imports, 'tlayer * tms_doc', R.tmsdoc[0],
                   "fun c => let '(s, d) := c in tms_doc_eqb (tms_tilemap s) d", lambda i: R.tmsdoc[1][i], defs=defs)
    ctx.corr_check('wmts_matrix_set', imports, 'tlayer * Z * option (list tile_matrix)', R.wmtsdoc[0],
                   "fun c => let '(s, tol, d) := c in omatrices_close tol (wmts_matrix_set s) d", lambda i: R.wmtsdoc[1][i], defs=defs)
    ctx.corr_check('schedule', imports, 'layer_table * origin_req * treq * treq * option coord * option coord', R.sched[0],
                   "fun c => let '(t, srv, ra, rb, oa, ob) := c in "
                   "let reqs := fun i : nat => match i with O => ra | _ => rb end in "
                   "let st := run_schedule t srv reqs [RParse 0; RParse 1; RHandle 0; RHandle 1]%nat in "
                   "opt_eqb ocoord_eqb (answer_of st 0%nat) (Some oa) && opt_eqb ocoord_eqb (answer_of st 1%nat) (Some ob)",
                   lambda i: R.sched[1][i], defs=defs)
    ctx.corr_check('svc_grid', imports, 'tlayer * list Z * option bbox', R.svcgrid[0],
                   "fun c => let '(s, ils, b) := c in list_eqb Z.eqb (map (internal_level s) [0; 1; 2; 3]) ils && opt_eqb bbox_eqb (svc_bbox s) b",
                   lambda i: R.svcgrid[1][i], defs=defs)
    ctx.corr_check('wmsc_tileset', imports, 'tlayer * bbox * list Z * Z * Z', R.wmscdoc[0],
                   "fun c => let '(s, b, rs, w, h) := c in bbox_eqb (s_extent s) b && list_eqb Z.eqb (map snd (tile_sets s)) rs "
                   "&& (tw (sg s) =? w) && (th (sg s) =? h)", lambda i: R.wmscdoc[1][i], defs=defs)
    ctx.corr_check('wmsc_get_map', imports, 'grid * bbox * Z * Z * wmsc_result', R.wmsc[0],
                   "fun c => let '(g, b, w, h, obs) := c in wmsc_eqb (wmsc_get_map g b w h) obs", lambda i: R.wmsc[1][i], defs=defs)
    if pix:
        ctx.corr_check('stored_pixel', 'Grid MetaGrid', 'mgrid * Z * (Z * Z * Z) * Z * Z * option (option (Z * Z))', pix[1],
                       # the colour carries the low 11 bits of the cell index, the model the index mod 4093: cells just outside the
                       # grid bbox (meta_buffer 0 does not limit the meta tile to the grid bbox) have negative indices
                       "fun c => let '(m, q, t, j, k, obs) := c in "
                       "let n := fun v => (if 2048 <=? v then v - 4093 else v) mod 2048 in "
                       "opt_eqb (opt_eqb (pair_eqb Z.eqb Z.eqb)) "
                       "(option_map (option_map (fun p : Z * Z => (n (fst p), n (snd p)))) (model_pixel m q HowMeta t j k)) obs",
                       lambda i: pix[2][i], defs='\n'.join(pix[0]))
    ctx.corr_check('kml_latlonbox', imports, 'bbox * bool * Z * Z * bbox * bbox', R.kmlwgs[0],
                   "fun c => let '(t, merc, world, tenth, src, obs) := c in "
                   "bbox_close 2 (kml_bbox_to_wgs (fun _ => t) merc world tenth 90000000 src) obs",
                   lambda i: R.kmlwgs[1][i])
    ctx.corr_check('kml_document', imports, 'tlayer * Z * Z * Z * Z * kml_doc', R.kml[0],
                   "fun c => let '(s, tol, x, y, z, obs) := c in kml_doc_close tol (kml_document s x y z) obs", lambda i: R.kml[1][i], defs=defs)
