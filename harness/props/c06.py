"""C06  A crash while storing never leaves a corrupt or foreign tile visible.

Model: coq/theories/Crash.v (+ Bytes.v), lemmas Crash_proofs.v, theorems coq/props/P_C06.v.

What this module does for every generated history (file cache without / with symlinks / with hard links,
legend cache, seed progress file, compact bundles v1 and v2; histories may continue from a crash state):

  * the real store runs under `fstrace` (raw write(2)/rename/unlink/symlink/link below the Python buffer layer);
  * ORACLE (independent of the model): every prefix of the recorded raw operations, plus tears of the next
    write as the tier allows, is applied to a copy of the pre-state directory and every address of the scenario
    is read back through a fresh real cache object; the property statement is evaluated on the results
    (old / complete new / missing-if-allowed, never anything else, other addresses unchanged);
  * CORRESPONDENCE (in Coq, vm_compute): the recorded operation sequence equals the model's `*_store_ops`
    (file caches: exactly; bundles: the record/index subsequence exactly and the final state), the recorded
    raw sequence satisfies the hypothesis `v?_raw_ok` of the crash theorems (data before index, checked on
    the real bytes), and the model's readers agree with the real readers on every crash state visited.
"""
import io
import json
import os
import pickle
import shutil
import struct

from common import bytes_lit, zlit

ID = 'C06'
TECHNIQUE = ('Coq proof over all prior states, batches and crash points of an executable model of the storing code + '
             'correspondence check of the recorded raw file-system operations of the real code against the model')
LEVEL_TEXT = ('Theorems over Crash.v (51 in P_C06.v; also: CompactCacheBase.store_tiles with its routing decision (one bundle call / one call per tile) for every batch, v1 and v2; also: seed progress file and legend cache as instances of write_atomic, batches spanning several bundle files, and complete store calls on a cache directory = initialisation + in-place phase in one theorem): for every directory state, request and crash state (every prefix of the '
              'operation list and every byte-granular tear of a temp-file write) of write_atomic / FileCache._store / '
              '_store_single_color_tile (repaired) the stored address reads old, complete new, or missing only if it was missing or a symlink replaced by _store, and '
              'addresses the operations do not name are unchanged; for v1/v2 bundles: every raw write sequence that satisfies the '
              'checked discipline raw_ok (append, header rewrite, aligned index entries that publish complete records only) is '
              'crash safe for every prior state with the index invariant, the invariant holds initially and is preserved, and the '
              'program-order models of BundleV1/V2.store_tiles satisfy raw_ok for every batch.  Tie: real stores traced at the '
              'raw I/O layer and compared with the model inside Coq; every raw prefix replayed against the real readers.')
LEVEL_NOTE = ('Trusted: Coq kernel, hand-written Crash.v, fstrace interposition and canonicalisation (mkdir/chmod dropped, '
              'contiguous raw writes merged, symlink targets resolved), A1 (process death leaves a prefix of the raw writes; '
              'temp files, appends and header rewrites tear at any byte, in-place index writes are atomic; proved: v2 entries '
              'cannot be torn for any B divisible by 8; proved limits: byte tear of a v2 entry and page tear of v1 slot 1635 '
              'expose a bad read).  CPython buffered I/O flush order is observed, not modelled: the bundle theorems quantify over '
              'every raw sequence with raw_ok, and raw_ok is evaluated in Coq on each recorded sequence.  Batches that span '
              'several bundle files: theorems over the interleaved sequence (per-file projections checked against the trace; the '
              'routing decision of CompactCacheBase.store_tiles is compared with c_single_bundle on every batch); their '
              'interleaved crash states are read by the oracle.  Repaired finding (regression in corpus/C06): regular tile replaced by a single colour link.')
DESIGN_REF = 'DESIGN.md section 5, C06'
RULE = ('case = one store (pre-state directory, request/batch, recorded raw ops, reads in every crash state); '
        'non-trivial = pre-state has content for some address or the store replaces a link / a record; distinct by '
        '(writer kind, canonical ops shape, pre-state kind of the target)')
TRUSTED = ['model Crash.v hand-written from util/fs.py, cache/file.py, cache/compact.py, cache/legend.py, seed/util.py',
           'fstrace: FileIO subclass below io.Buffered*, os proxy in the five storing modules; random.randint of util.fs '
           'replaced by a recording/forcing stub',
           'bundle/index initial content compared at sampled offsets plus full header/footer, not byte for byte']
ASSUMPTIONS = ['A1: after process death the file system holds the effect of a prefix of the raw operations plus a prefix of the '
               'next raw write; tears at any byte for temp files, appends and bundle-header rewrites; in-place index writes '
               'atomic (B = infinity); for v2 any B divisible by 8 is proved equivalent (entries never straddle)',
               'rename, unlink, symlink, link, O_EXCL create are atomic',
               'symlink chains do not occur (single colour files are regular files)',
               'tile locations are not temp names (checked on every generated location by is_tmp_name)',
               'write_atomic never creates a world-writable file (mode 0o664 whatever the umask): checked on every traced store, '
               'also with umask 000; creation modes are part of the replayed crash states']
EXPLANATION = ('crash safety proved for every crash point of the modelled writers; the order of the real raw writes is pinned by '
               'the correspondence; every raw prefix of every generated history is replayed against the real readers')


TMP_TAG = '.tmp-'


# ------------------------------------------------------------------------------------------- literals

def plit(path):
    return bytes_lit(path.encode('utf-8'))


def rlit(r):
    if r[0] == 'data':
        return '(RData %s)' % bytes_lit(r[1])
    if r[0] == 'missing':
        return 'RMissing'
    return 'RError'


def natlit(n):
    return '%d%%nat' % n


def cutlit(c):
    return 'None' if c is None else '(Some %d%%nat)' % c


def fsop_lit(op):
    k = op[0]
    if k == 'create':
        return '(OCreate %s)' % plit(op[1])
    if k == 'write':
        return '(OWrite %s %s %s)' % (plit(op[1]), zlit(op[2]), bytes_lit(op[3]))
    if k == 'rename':
        return '(ORename %s %s)' % (plit(op[1]), plit(op[2]))
    if k == 'unlink':
        return '(OUnlink %s)' % plit(op[1])
    if k == 'symlink':
        return '(OSymlink %s %s)' % (plit(op[1]), plit(op[2]))
    if k == 'link':
        return '(OLink %s %s)' % (plit(op[1]), plit(op[2]))
    raise ValueError(op)


# ------------------------------------------------------------------------------------------- tracing helpers

class FixedRandom(object):
    """stands in for `random` and for os.getpid inside the storing modules: records / forces the temp suffix,
    whichever of the two the code derives it from."""

    def __init__(self, rng):
        self.rng = rng
        self.force = None
        self.used = []
        self.pid = rng.randint(2, 4194304)

    def new_process(self):
        """the process was killed and restarted: new pid"""
        self.pid = self.rng.randint(2, 4194304)

    def randint(self, a, b):
        v = self.force if self.force is not None else self.rng.randint(a, b)
        self.force = None
        self.used.append(v)
        return v

    def getpid(self):
        v = self.force if self.force is not None else self.pid
        self.used.append(v)
        return v


class ShutilProxy(object):
    """stands in for `shutil` inside the storing modules: copyfile/copy/copy2 go through the traced open (truncate
    or create the destination, then raw writes of 16 KB), everything else is forwarded."""

    def __init__(self, tracer):
        self._t = tracer

    def __getattr__(self, name):
        return getattr(shutil, name)

    def copyfile(self, src, dst, **kw):
        with open(src, 'rb') as fi:
            with self._t.traced_open(dst, 'wb') as fo:
                while True:
                    buf = fi.read(16384)
                    if not buf:
                        break
                    fo.write(buf)
                    fo.flush()
        return dst

    def copy(self, src, dst, **kw):
        if os.path.isdir(dst):
            dst = os.path.join(dst, os.path.basename(src))
        self.copyfile(src, dst)
        shutil.copymode(src, dst)
        return dst

    def copy2(self, src, dst, **kw):
        dst = self.copy(src, dst)
        shutil.copystat(src, dst)
        return dst


class Env(object):
    """tracer + patched modules for one scenario directory."""

    def __init__(self, ctx, root):
        import fstrace
        import mapproxy.util.fs as ufs
        self.fstrace = fstrace
        self.ctx = ctx
        self.root = root
        self.tr = fstrace.Tracer(root)
        self.tr.patch(*fstrace.store_modules())
        self.rnd = FixedRandom(ctx.rng)
        import mapproxy.cache.file as cfile
        # whatever the temp names are derived from (random.randint today) is under the control of the harness
        self.saved = []
        for mod in (ufs, cfile):
            if 'random' in mod.__dict__:
                self.saved.append((mod, mod.random))
                mod.random = self.rnd
        self.tr.proxy.getpid = self.rnd.getpid
        # configuration: the cache directory is a file system of its own (rename from outside fails with EXDEV);
        # the storing code of today only renames inside one directory
        tr, proxy_cls = self.tr, type(self.tr.proxy)

        def rename(src, dst, **kw):
            inside = lambda q: tr.canon(q).startswith(tr.root + os.sep)      # noqa: E731
            if inside(src) != inside(dst):
                import errno
                raise OSError(errno.EXDEV, 'Invalid cross-device link', src)
            return proxy_cls.rename(tr.proxy, src, dst, **kw)
        self.tr.proxy.rename = rename
        self.tr.proxy.replace = rename
        # the permission bits a file is created with (open mode and the umask of the process) belong to the crash
        # state: ProgressStore.load ignores a world-writable progress file
        self.modes = {}

        def os_open(path, flags, mode=0o777, **kw):
            fd = proxy_cls.open(tr.proxy, path, flags, mode, **kw)
            if flags & os.O_CREAT:
                try:
                    self.modes[tr.rel(path)] = os.fstat(fd).st_mode & 0o7777
                except OSError:
                    pass
            return fd
        self.tr.proxy.open = os_open
        # file copies by shutil are made of raw writes too
        self.saved_shutil = []
        for mod in fstrace.store_modules():
            if 'shutil' in mod.__dict__:
                self.saved_shutil.append((mod, mod.shutil))
                mod.shutil = ShutilProxy(self.tr)

    def close(self):
        self.tr.unpatch()
        for mod, val in self.saved:
            mod.random = val
        for mod, val in self.saved_shutil:
            mod.shutil = val

    def apply_op(self, root, op, cut=None):
        self.fstrace.apply_op(root, op, cut=cut)
        if op[0] == 'create' and op[1] in self.modes and not os.path.isabs(op[1]):
            os.chmod(os.path.join(root, op[1]), self.modes[op[1]])

    def replay(self, ops, root):
        for op in ops:
            self.apply_op(root, op)

    def traced(self, fn):
        """run fn() with tracing; returns (ops, exception type name or None)."""
        self.tr.take()
        self.tr.enabled = True
        exc = None
        try:
            fn()
        except Exception as e:      # an unexpected exception is an observation
            exc = type(e).__name__
        ops = self.tr.take()
        self.tr.enabled = False
        return ops, exc


def snapshot(root):
    """{relative path: ('file', bytes, nlink) | ('link', resolved relative target)} for everything below root."""
    out = {}
    for d, dirs, files in os.walk(root):
        for fn in files + [x for x in dirs if os.path.islink(os.path.join(d, x))]:
            p = os.path.join(d, fn)
            rel = os.path.relpath(p, root)
            if os.path.islink(p):
                out[rel] = ('link', resolve_link(root, rel, os.readlink(p)))
            else:
                with open(p, 'rb') as f:
                    out[rel] = ('file', f.read(), os.lstat(p).st_nlink)
    return out


def resolve_link(root, rel, target):
    return os.path.normpath(os.path.join(os.path.dirname(rel), target))


def canon_ops(raw):
    """Canonical operation list of a raw trace: mkdir/chmod dropped, contiguous raw writes to one file merged,
    symlink targets resolved.  Returns (canon, coords, base): coords[i] = (k, cut) are the crash-state coordinates,
    in terms of the canonical list, of the state after raw op i (k complete canonical ops, then `cut` bytes of
    the next canonical write, or None); base[i] = (index of the canonical op containing raw op i, byte offset of
    raw op i inside it)."""
    canon, base = [], []
    prev_write = False
    for op in raw:
        if op[0] in ('mkdir', 'chmod', 'write-unlinked'):
            base.append(None)
            continue
        if op[0] == 'write' and prev_write and canon[-1][1] == op[1] and canon[-1][2] + len(canon[-1][3]) == op[2]:
            prev = canon[-1]
            base.append((len(canon) - 1, len(prev[3])))
            canon[-1] = ('write', prev[1], prev[2], prev[3] + op[3])
            continue
        if op[0] == 'symlink':
            op = ('symlink', resolve_link(None, op[2], op[1]), op[2])
        base.append((len(canon), 0))
        canon.append(op)
        prev_write = op[0] == 'write'
    coords = []
    for i, op in enumerate(raw):
        if base[i] is None:
            coords.append(coords[-1] if coords else (0, None))
        elif op[0] == 'write':
            ci, off = base[i]
            if off + len(op[3]) == len(canon[ci][3]):
                coords.append((ci + 1, None))
            else:
                coords.append((ci, off + len(op[3])))
        else:
            coords.append((base[i][0] + 1, None))
    return canon, coords, base


def cut_points(ctx, n, claimed):
    """tear positions (number of bytes written, 0 < c < n ... plus 0) for a raw write of n bytes."""
    if n <= 1 or not claimed:
        return []
    if ctx.quick:
        return sorted(set([1, n // 2, n - 1]))
    if n < 64:
        return list(range(1, n))
    step = max(1, n // 16)
    return sorted(set([1, n - 1] + list(range(step, n, step))))


class CrashWalk(object):
    """Enumerates the crash states of a raw op list on copies of a pre-state directory."""

    def __init__(self, env, pre_dir, work_dir):
        self.env, self.pre_dir, self.work = env, pre_dir, work_dir
        self.n = 0

    def states(self, raw, cuts_for):
        """yields (i, c, directory): state after raw ops [0, i) and c bytes of raw op i (c None: no tear)."""
        fstrace = self.env.fstrace
        cur = os.path.join(self.work, 'cur')
        fstrace.copy_tree(self.pre_dir, cur)
        torn = os.path.join(self.work, 'torn')
        for i in range(len(raw) + 1):
            self.n += 1
            yield i, None, cur
            if i == len(raw):
                break
            op = raw[i]
            if op[0] == 'write':
                for c in cuts_for(i, op):
                    fstrace.copy_tree(cur, torn)
                    self.env.apply_op(torn, op, cut=c)
                    self.n += 1
                    yield i, c, torn
            self.env.apply_op(cur, op)
        for d in (cur, torn, cur + '.outside', torn + '.outside'):
            shutil.rmtree(d, ignore_errors=True)


def classify_bad(r, allowed, others):
    """name of the failure class for a read result that is not allowed."""
    if r[0] == 'error':
        return 'reader-error'
    if r[0] == 'missing':
        return 'missing'
    for a in allowed:
        if a[0] == 'data' and len(r[1]) < len(a[1]) and a[1].startswith(r[1]):
            return 'truncated'
    for o in others:
        if o[0] == 'data' and o[1] == r[1]:
            return 'foreign'
    return 'corrupt'


# ------------------------------------------------------------------------------------------- file cache

def png_bytes(rng, color=None):
    from PIL import Image
    if color is not None:
        img = Image.new('RGB', (2, 2), color)
    else:
        img = Image.new('RGB', (2, 2))
        px = [(rng.randrange(256), rng.randrange(256), rng.randrange(256)) for _ in range(4)]
        px[0] = (1, 2, 3)
        px[1] = (3, 2, 1)
        img.putdata(px)
    b = io.BytesIO()
    img.save(b, 'png')
    return b.getvalue()


def read_file_cache(cdir, mode, coords):
    from mapproxy.cache.file import FileCache
    from mapproxy.cache.tile import Tile
    cache = FileCache(cdir, 'png', link_single_color_images=mode)
    out = []
    for c in coords:
        try:
            t = Tile(c)
            if cache.load_tile(t):
                out.append(('data', t.source.as_buffer().read()))
            else:
                out.append(('missing',))
        except Exception as e:
            out.append(('error', type(e).__name__))
    return out


def node_lit(n):
    if n[0] == 'file':
        return '(NFile %s)' % bytes_lit(n[1])
    return '(NLink %s)' % plit(n[1])


FILE_CASE_TYPE = ('list (path * node) * file_req * list fsop * list path * '
                  'list (nat * option nat * list rres)')
FILE_CHECKER = (
    "fun c => let '(pre, rq, ops, addrs, obs) := c in let s := fs_of pre in "
    "let m := drop_empty (file_store_ops s rq) in "
    "list_eqb fsop_eqb m ops && "
    "forallb (fun a => negb (is_tmp_name a)) addrs && "
    "match rq_color rq with Some sc => negb (is_tmp_name sc) | None => true end && "
    "is_tmp_name (tmp_of (rq_loc rq) (rq_sfx2 rq)) && "
    "forallb (fun o => let '(k, cut, rs) := o in "
    "  list_eqb rres_eqb (map (read_path (crash_state_at s ops k cut)) addrs) rs) obs")


def scen_file(ctx, mode, nsteps, out, perms=False, script=()):
    from mapproxy.cache.file import FileCache
    from mapproxy.cache.tile import Tile
    from mapproxy.image import ImageSource, is_single_color_image
    rng = ctx.rng
    root = ctx.tmpdir('fc')
    cdir = os.path.join(root, 'cache')
    os.makedirs(cdir)
    env = Env(ctx, cdir)
    env.tr.enabled = False
    coords = [(0, 0, 0), (1, 0, 1), (0, 1, 1), (3, 2, 2)]
    colors = [(255, 0, 0), (0, 0, 255)]
    modename = {False: 'none', True: 'symlink', 'hardlink': 'hardlink'}[mode]
    try:
        pk = dict(directory_permissions='755', file_permissions='644') if perms else {}
        cache = FileCache(cdir, 'png', link_single_color_images=mode, **pk)
        locs = [os.path.relpath(cache.tile_location(Tile(c)), cdir) for c in coords]
        stale_tmp = None
        ctx.count('file:permissions-configured=%s' % bool(perms))
        for step in range(nsteps):
            ti = rng.randrange(len(coords))
            kind = rng.choice(['rand', 'rand', 'c0', 'c0', 'c1'])
            sc_step = script[step] if step < len(script) else None
            if sc_step is not None:         # directed prefix of the history: (address index, kind, crash point, force)
                ti, kind = sc_step[0], sc_step[1]
            coord = coords[ti]
            data = png_bytes(rng, None if kind == 'rand' else colors[int(kind[1])])
            if mode is False and rng.random() < 0.3:
                data = bytes(rng.randrange(256) for _ in range(rng.choice([1, 2, 7, 30])))
            sc = None
            if mode:
                color = is_single_color_image(ImageSource(io.BytesIO(data)).as_image())
                if color:
                    sc = os.path.relpath(cache._single_color_tile_location(color), cdir)
            pre = snapshot(cdir)
            pre_dir = os.path.join(root, 'pre')
            env.fstrace.copy_tree(cdir, pre_dir)
            old = read_file_cache(cdir, mode, coords)
            # what os.path.exists / os.path.samefile of the real code will see (inode identity is not in the model)
            sc_exists = sc is not None and os.path.exists(os.path.join(cdir, sc))
            samefile = False
            if sc is not None:
                tl = os.path.join(cdir, locs[ti])
                if locs[ti] in pre and pre[locs[ti]] == ('link', sc):
                    samefile = True
                elif sc_exists and os.path.exists(tl):
                    samefile = os.path.samefile(os.path.join(cdir, sc), tl)
            # force a collision with a stale temp file left by an earlier crash
            want = sc if (sc is not None and not sc_exists) else locs[ti]
            stale = [q for q in sorted(pre) if TMP_TAG in q and q[:q.rindex(TMP_TAG)] == want]
            if stale and (rng.random() < 0.7 or sc_step is not None):
                tp = stale[0]
                env.rnd.force = int(tp[tp.rindex(TMP_TAG) + len(TMP_TAG):])   # the same temp name again (number / pid)
                ctx.count('file:temp-name-collision-forced(stale %s)' % pre[tp][0])
            env.rnd.used = []
            tile = Tile(coord, ImageSource(io.BytesIO(data)))
            # fault: one raw write(2) of this store is a short write (the caller must write the rest)
            env.tr.short_write = rng.random() < 0.3
            if env.tr.short_write:
                ctx.count('file:short-write-fault-armed')
            raw, exc = env.traced(lambda: cache.store_tile(tile))
            env.tr.short_write = False
            env.rnd.force = None
            new = read_file_cache(cdir, mode, coords)
            linked = bool(mode) and sc is not None
            used = [str(u) for u in env.rnd.used]
            # first suffix: write_atomic (tile or colour file); second: the link temp name
            if linked and sc_exists:
                sfx, sfx2 = '0', (used[0] if used else '0')
            elif linked:
                sfx, sfx2 = (used[0] if used else '0'), (used[1] if len(used) > 1 else '0')
            else:
                sfx, sfx2 = (used[0] if used else '0'), '0'
            canon, ccoords, base = canon_ops(raw)
            tkind = 'absent' if locs[ti] not in pre else ('link' if pre[locs[ti]][0] == 'link' else 'regular')
            if tkind == 'regular' and any(p.startswith('single_color_tiles/') and n[0] == 'file' and n[1] == pre[locs[ti]][1]
                                          for p, n in pre.items()):
                tkind = 'hardlinked'      # same bytes as a single colour file (link counts do not survive the copies)
            ctx.count('file:mode=' + modename)
            ctx.count('file:target-before=' + tkind)
            ctx.count('file:store=' + ('link' if linked else 'plain') + (',raised' if exc else ''))
            rep = {'writer': 'FileCache.store_tile', 'link_single_color_images': mode, 'coord': coord,
                   'pre_state': {p: (n[0], n[1].hex() if n[0] == 'file' else n[1]) for p, n in pre.items()},
                   'data': data.hex(), 'tmp_suffix': sfx, 'link_tmp_suffix': sfx2, 'samefile': samefile,
                   'raw_ops': [describe_op(o) for o in raw], 'raised': exc}
            # tracing completeness: replaying everything reproduces the directory
            chk = os.path.join(root, 'chk')
            env.fstrace.copy_tree(pre_dir, chk)
            try:
                env.replay(raw, chk)
                same = strip_nlink(snapshot(chk)) == strip_nlink(snapshot(cdir))
            except Exception as e:
                same = False
            if not same:
                ctx.problem('correspondence', 'file cache: replay of the recorded raw ops does not reproduce the directory', rep)
            # functional part of the property: the completed store returns the new content
            if exc is None:
                want = data
                if linked and sc in pre and pre[sc][0] == 'file':
                    want = pre[sc][1]
                if new[ti] != ('data', want):
                    ctx.fail('file:completed-store-wrong-content', 'after a completed store the address does not return the new content', rep)
            # ... and every other address (the other links of a colour included) returns what it returned before
            for j in range(len(coords)):
                if j != ti and new[j] != old[j]:
                    ctx.fail('file:other-address-affected-by-completed-store:' + classify_bad(new[j], [old[j]], old + new),
                             'a store (completed or raised) changed what another address returns',
                             dict(rep, address=coords[j], before=describe_r(old[j]), after=describe_r(new[j])))
            # ---- oracle over every raw prefix (+ tears)
            walk = CrashWalk(env, pre_dir, root)
            obs = []
            seen_coords = set()
            for i, c, d in walk.states(raw, lambda i, op: cut_points(ctx, len(op[3]), True)):
                rs = read_file_cache(d, mode, coords)
                for j, r in enumerate(rs):
                    allowed = [old[j]] + ([new[j]] if j == ti and exc is None else [])
                    if r in allowed:
                        continue
                    where = dict(rep, crash_after_raw_ops=i, torn_bytes=c, address=coords[j], read=describe_r(r))
                    if j != ti:
                        ctx.fail('file:other-address-affected:' + classify_bad(r, [old[j]], old + new),
                                 'an address that is not being stored changed in a crash state', where)
                    elif r[0] == 'missing' and tkind == 'link' and not linked:
                        pass                      # FileCache._store replaces a symlink by a regular tile (unlink first)
                    else:
                        ctx.fail('file:' + modename + ':' + classify_bad(r, allowed, old + new),
                                 'crash state exposes a result that is neither the old nor the complete new content', where)
                # coordinates for the model
                if i == 0 and c is None:
                    cc = (0, None)
                elif c is None:
                    cc = ccoords[i - 1]
                else:
                    ci, off = base[i]
                    cc = (ci, off + c)
                if cc not in seen_coords and (ctx.quick is False or len(obs) < 14):
                    seen_coords.add(cc)
                    obs.append((cc[0], cc[1], rs))
            nontrivial = tkind != 'absent' or linked
            ctx.case(('file', modename, tuple(o[0] for o in canon), tkind, linked, exc), nontrivial,
                     {'writer': 'FileCache.store_tile', 'mode': modename, 'coord': coord, 'target_before': tkind,
                      'ops': [describe_op(o) for o in canon], 'crash_states_read': walk.n})
            ctx.count('file:crash-states', walk.n)
            # ---- correspondence case
            req = '(mkReq %s %s %s %s %s %s %s)' % (
                plit(locs[ti]), bytes_lit(data), {False: 'LNone', True: 'LSym', 'hardlink': 'LHard'}[mode],
                'None' if sc is None else '(Some %s)' % plit(sc), bytes_lit(sfx.encode()), bytes_lit(sfx2.encode()),
                'true' if samefile else 'false')
            term = '(%s, %s, %s, %s, %s)' % (
                '[' + '; '.join('(%s, %s)' % (plit(p), node_lit(n)) for p, n in sorted(pre.items())) + ']',
                req, '[' + '; '.join(fsop_lit(o) for o in canon) + ']',
                '[' + '; '.join(plit(l) for l in locs) + ']',
                '[' + '; '.join('(%s, %s, [%s])' % (natlit(k), cutlit(cut), '; '.join(rlit(r) for r in rs))
                                for k, cut, rs in obs) + ']')
            out['file_terms'].append(term)
            out['file_descr'].append(dict(rep, canonical_ops=[describe_op(o) for o in canon]))
            # ---- continue the history, sometimes from a crash state (leaves stale temp files around)
            stale_tmp = None
            crash_at = sc_step[2] if sc_step is not None else None
            if (crash_at is None and sc_step is None and rng.random() < 0.35 and raw) or crash_at is not None:
                k = rng.randrange(len(raw) + 1)
                cut = None
                if crash_at == 'after-link-tmp':
                    # the process is killed between creating the link under its temp name and the rename
                    ks = [i + 1 for i, o in enumerate(raw) if o[0] in ('symlink', 'link') and TMP_TAG in o[2]]
                    k = ks[0] if ks else len(raw)
                elif k < len(raw) and raw[k][0] == 'write' and len(raw[k][3]) > 1:
                    cut = rng.randrange(len(raw[k][3]))
                env.rnd.new_process()
                env.fstrace.copy_tree(pre_dir, cdir)
                env.replay(raw[:k], cdir)
                if cut is not None:
                    env.apply_op(cdir, raw[k], cut=cut)
                ctx.count('file:history-continues-from-crash-state')
                for p in snapshot(cdir):
                    if TMP_TAG in p:
                        stale_tmp = (p, int(p[p.rindex(TMP_TAG) + len(TMP_TAG):]))
            shutil.rmtree(chk, ignore_errors=True)
    finally:
        env.close()


def strip_nlink(snap):
    return {p: (n[0], n[1]) for p, n in snap.items()}


def describe_op(o):
    if o[0] == 'write':
        d = o[3]
        return ['write', o[1], o[2], len(d), d.hex() if len(d) <= 200 else d[:40].hex() + '...']
    return list(o)


def describe_r(r):
    if r[0] == 'data':
        return ['data', len(r[1]), r[1][:64].hex()]
    return list(r)


# ------------------------------------------------------------------------------------------- write_atomic users

ATOMIC_CASE_TYPE = 'Z * list (path * node) * path * list Z * list Z * list fsop * list (nat * option nat * rres)'
ATOMIC_CHECKER = (
    "fun c => let '(kind, pre, p, sfx, d, ops, obs) := c in let s := fs_of pre in "
    "list_eqb fsop_eqb (drop_empty (if kind =? 0 then legend_store_ops s p sfx d else progress_write_ops s p sfx d)) ops && "
    "negb (is_tmp_name p) && "
    "is_tmp_name (tmp_of p sfx) && "
    "forallb (fun o => let '(k, cut, r) := o in rres_eqb (read_path (crash_state_at s ops k cut) p) r) obs")


def scen_atomic(ctx, kind, nsteps, out, perms=False, umask0=False):
    """LegendCache.store / ProgressStore.write: plain write_atomic of one file."""
    rng = ctx.rng
    root = ctx.tmpdir('wa')
    cdir = os.path.join(root, 'd')
    os.makedirs(cdir)
    env = Env(ctx, cdir)
    env.tr.enabled = False
    # configuration: the process runs with umask 000 (whatever mode the code asks for is what the file gets)
    old_umask = os.umask(0) if umask0 else None
    ctx.count('atomic:%s:umask=%s' % (kind, '000' if umask0 else 'inherited'))
    try:
        if kind == 'legend':
            from mapproxy.cache.legend import LegendCache, Legend, legend_hash
            from mapproxy.image import ImageSource
            pk = dict(directory_permissions='755', file_permissions='644') if perms else {}
            lc = LegendCache(cdir, 'png', **pk)
            ctx.count('atomic:legend:permissions-configured=%s' % bool(perms))
            rel = legend_hash('http://x/?lyr', 1000) + '.png'

            def reader(d):
                try:
                    leg = Legend(id='http://x/?lyr', scale=1000)
                    if LegendCache(d, 'png', **pk).load(leg):
                        return ('data', leg.source.as_buffer().read())
                    return ('missing',)
                except Exception as e:
                    return ('error', type(e).__name__)
        else:
            from mapproxy.seed.util import ProgressStore
            rel = 'progress.pickle'

            def reader(d):
                try:
                    st = ProgressStore(os.path.join(d, rel), continue_seed=True).status
                    if st == {} and not os.path.exists(os.path.join(d, rel)):
                        return ('missing',)
                    return ('data', pickle.dumps(st))
                except Exception as e:
                    return ('error', type(e).__name__)
        stale_tmp = None
        for step in range(nsteps):
            if kind == 'legend':
                data = png_bytes(rng, rng.choice([None, (9, 9, 9)]))
                leg = Legend(source=ImageSource(io.BytesIO(data)), id='http://x/?lyr', scale=1000)
                fn = lambda: lc.store(leg)      # noqa: E731
            else:
                ps = ProgressStore(os.path.join(cdir, rel), continue_seed=False)
                for t in range(rng.randrange(0, 4)):
                    ps.add('task%d' % rng.randrange(5), tuple(rng.randrange(9) for _ in range(rng.randrange(1, 5))))
                data = pickle.dumps(ps.status)
                fn = ps.write
            pre = snapshot(cdir)
            pre_dir = os.path.join(root, 'pre')
            env.fstrace.copy_tree(cdir, pre_dir)
            old = reader(cdir)
            stale = [q for q in sorted(pre) if q.startswith(rel + TMP_TAG)]
            if stale and rng.random() < 0.7:
                env.rnd.force = int(stale[0][len(rel + TMP_TAG):])
            env.rnd.used = []
            env.modes.clear()
            env.tr.short_write = rng.random() < 0.3
            if env.tr.short_write:
                ctx.count('atomic:short-write-fault-armed')
            raw, exc = env.traced(fn)
            env.tr.short_write = False
            env.rnd.force = None
            new = reader(cdir)
            ww = sorted(q for q, m in env.modes.items() if m & 0o002)
            if ww:
                # the model has no permission bits: it relies on write_atomic never creating a world-writable file
                # (mode 0o664), which keeps the S_IWOTH branch of ProgressStore.load dead for files the store wrote
                ctx.problem('correspondence', 'atomic:%s: a world-writable file is created (%s): the permission-free '
                            'model of the readers does not cover it' % (kind, ww[0]), None)
            sfx = str(env.rnd.used[0]) if env.rnd.used else '0'
            canon, ccoords, base = canon_ops(raw)
            rep = {'writer': kind, 'pre_state': {p: (n[0], n[1].hex() if n[0] == 'file' else n[1]) for p, n in pre.items()},
                   'data': data.hex(), 'tmp_suffix': sfx, 'raw_ops': [describe_op(o) for o in raw], 'raised': exc}
            collided = (rel + TMP_TAG + sfx) in pre
            if exc is not None and not (kind == 'legend' and collided):
                ctx.fail('atomic:%s:unexpected-exception' % kind, 'store raised %s' % exc, rep)
            if not collided and new != ('data', data):
                ctx.fail('atomic:%s:completed-store-wrong-content' % kind, 'completed store does not read back', rep)
            ctx.count('atomic:%s' % kind + (',tmp-collision' if collided else ''))
            walk = CrashWalk(env, pre_dir, root)
            obs, seen = [], set()
            for i, c, d in walk.states(raw, lambda i, op: cut_points(ctx, len(op[3]), True)):
                r = reader(d)
                if r != old and not (r == new and not collided):
                    ctx.fail('atomic:%s:%s' % (kind, classify_bad(r, [old, new], [])),
                             'crash state exposes a result that is neither the old nor the complete new content',
                             dict(rep, crash_after_raw_ops=i, torn_bytes=c, read=describe_r(r)))
                if i == 0 and c is None:
                    cc = (0, None)
                elif c is None:
                    cc = ccoords[i - 1]
                else:
                    cc = (base[i][0], base[i][1] + c)
                if cc not in seen:
                    seen.add(cc)
                    ro = r
                    if kind == 'progress' and r[0] == 'data':
                        # the model reads the file bytes; the real reader unpickles: compare on the bytes of the file
                        fp = os.path.join(d, rel)
                        ro = ('data', open(fp, 'rb').read()) if os.path.exists(fp) else ('missing',)
                    obs.append((cc[0], cc[1], ro))
            ctx.case(('atomic', kind, tuple(o[0] for o in canon), old[0], collided), old[0] != 'missing',
                     {'writer': kind, 'ops': [describe_op(o) for o in canon], 'crash_states_read': walk.n})
            ctx.count('atomic:crash-states', walk.n)
            term = '(%d, %s, %s, %s, %s, %s, %s)' % (
                0 if kind == 'legend' else 1,
                '[' + '; '.join('(%s, %s)' % (plit(p), node_lit(n)) for p, n in sorted(pre.items())) + ']',
                plit(rel), bytes_lit(sfx.encode()), bytes_lit(data),
                '[' + '; '.join(fsop_lit(o) for o in canon) + ']',
                '[' + '; '.join('(%s, %s, %s)' % (natlit(k), cutlit(cut), rlit(r)) for k, cut, r in obs) + ']')
            out['atomic_terms'].append(term)
            out['atomic_descr'].append(rep)
            stale_tmp = None
            if rng.random() < 0.4 and raw:
                k = rng.randrange(len(raw) + 1)
                env.rnd.new_process()
                env.fstrace.copy_tree(pre_dir, cdir)
                env.replay(raw[:k], cdir)
                if k < len(raw) and raw[k][0] == 'write' and len(raw[k][3]) > 1:
                    env.apply_op(cdir, raw[k], cut=rng.randrange(len(raw[k][3])))
                for p in snapshot(cdir):
                    if TMP_TAG in p:
                        stale_tmp = (p, int(p[p.rindex(TMP_TAG) + len(TMP_TAG):]))
    finally:
        if old_umask is not None:
            os.umask(old_umask)
        env.close()


# ------------------------------------------------------------------------------------------- compact bundles

def read_compact(version, cdir, coords):
    from mapproxy.cache.compact import CompactCacheV1, CompactCacheV2
    from mapproxy.cache.tile import Tile
    cache = (CompactCacheV1 if version == 1 else CompactCacheV2)(cdir)
    out = []
    for c in coords:
        try:
            t = Tile(c)
            if cache.load_tile(t):
                out.append(('data', t.source.as_buffer().read()))
            else:
                out.append(('missing',))
        except Exception as e:
            out.append(('error', type(e).__name__))
    return out


def slot_of(version, coord):
    x, y = coord[0] % 128, coord[1] % 128
    return x * 128 + y if version == 1 else x + 128 * y


def inv_check_v2(data):
    """independent struct-level check of the part of C19's invariant that C06 relies on; returns bad slots."""
    bad = []
    if len(data) < 131136:
        return ['short']
    for s in range(16384):
        v = struct.unpack_from('<Q', data, 64 + 8 * s)[0]
        size, off = v >> 40, v & ((1 << 40) - 1)
        if size and not (off >= 131136 and off + size <= len(data)):
            bad.append(s)
    return bad


def inv_check_v1(dat, idx):
    bad = []
    if len(dat) < 65596 or len(idx) < 81952:
        return ['short']
    for s in range(16384):
        e = int.from_bytes(idx[16 + 5 * s:21 + 5 * s], 'little')
        if e == 0:
            continue
        if not (e >= 60 and e + 4 <= len(dat)):
            bad.append(s)
            continue
        size = struct.unpack_from('<L', dat, e)[0]
        if e + 4 + size > len(dat):
            bad.append(s)
    return bad


def bw_lit(w):
    return '(%s, %s)' % (zlit(w[0]), bytes_lit(w[1]))


def v1op_lit(o):
    return '(%s %s %s)' % ('WD' if o[0] == 'D' else 'WI', zlit(o[1]), bytes_lit(o[2]))


V2_CASE_TYPE = 'list bwrite * batch * list bwrite * list Z * list (nat * option nat * list rres)'
V2_DEFS = '''
Fixpoint bw_merge (l : list bwrite) : list bwrite :=
  match l with
  | [] => []
  | w :: r => match bw_merge r with
              | w2 :: r2 => if fst w2 =? fst w + zlen (snd w) then (fst w, (snd w ++ snd w2)%list) :: r2 else w :: w2 :: r2
              | [] => [w]
              end
  end.
Definition bw_eqb (a b : bwrite) : bool := (fst a =? fst b) && zlist_eqb (snd a) (snd b).
Definition no_hdr (l : list bwrite) : list bwrite := filter (fun w => 64 <=? fst w) l.
Fixpoint fread_from (f : file) (off : Z) (n : nat) : list Z :=
  match n with O => [] | S m => fbyte f off :: fread_from f (off + 1) m end.
Definition v2_state_at (f : file) (ops : list bwrite) (k : nat) (cut : option nat) : file :=
  let f1 := bw_apply_all f (firstn k ops) in
  match cut, nth_error ops k with
  | Some c, Some w => fwrite f1 (fst w) (firstn c (snd w))
  | _, _ => f1
  end.
Definition v2_check (c : ''' + V2_CASE_TYPE + ''') : bool :=
  let '(hist, b, ops, slots, obs) := c in
  let f0 := bw_apply_all v2_init hist in
  let L0 := flen f0 in
  let m := v2_store_ops f0 b in
  let fm := bw_apply_all f0 m in
  let fr := bw_apply_all f0 ops in
  (* raw_ok of the model's own writes is a theorem (bundle_v2_writer_obeys_discipline): not re-evaluated here *)
  v2_raw_ok b L0 f0 ops &&
  forallb (fun w => forallb (fun x => 0 <=? x) (snd w)) ops &&
  forallb (v2_slot_ok f0) slots &&
  list_eqb bw_eqb (no_hdr (bw_merge m)) (no_hdr (bw_merge ops)) &&
  (flen fm =? flen fr) && zlist_eqb (fread_from fm 0 64) (fread_from fr 0 64) &&
  forallb (fun s => rres_eqb (v2_read fm s) (v2_read fr s)) slots &&
  forallb (fun o => let '(k, cut, rs) := o in
     list_eqb rres_eqb (map (v2_read (v2_state_at f0 ops k cut)) slots) rs) obs.
'''

V1_CASE_TYPE = 'Z * Z * list v1op * batch * list v1op * list Z * list (nat * option nat * list rres)'
V1_DEFS = '''
Fixpoint fread_from (f : file) (off : Z) (n : nat) : list Z :=
  match n with O => [] | S m => fbyte f off :: fread_from f (off + 1) m end.
Definition dat_writes (l : list v1op) : list bwrite :=
  flat_map (fun o => match o with WD off d => if 60 <=? off then [(off, d)] else [] | WI _ _ => [] end) l.
Fixpoint bw_merge (l : list bwrite) : list bwrite :=
  match l with
  | [] => []
  | w :: r => match bw_merge r with
              | w2 :: r2 => if fst w2 =? fst w + zlen (snd w) then (fst w, (snd w ++ snd w2)%list) :: r2 else w :: w2 :: r2
              | [] => [w]
              end
  end.
Definition bw_eqb (a b : bwrite) : bool := (fst a =? fst b) && zlist_eqb (snd a) (snd b).
Definition v1_state_at (s : v1st) (ops : list v1op) (k : nat) (cut : option nat) : v1st :=
  let s1 := v1_apply_all s (firstn k ops) in
  match cut, nth_error ops k with
  | Some c, Some (WD off d) => v1_apply s1 (WD off (firstn c d))
  | Some c, Some (WI off d) => v1_apply s1 (WI off (firstn c d))
  | _, _ => s1
  end.
Definition v1_check (c : ''' + V1_CASE_TYPE + ''') : bool :=
  let '(bc, br, hist, b, ops, slots, obs) := c in
  let s0 := v1_apply_all (mkV1 (v1_dat_init bc br) v1_idx_init) hist in
  let L0 := flen (v1dat s0) in
  let m := v1_store_ops s0 b in
  let sm := v1_apply_all s0 m in
  let sr := v1_apply_all s0 ops in
  (* raw_ok of the model's own writes is a theorem (bundle_v1_writer_obeys_discipline): not re-evaluated here *)
  v1_raw_ok b L0 s0 ops &&
  forallb (fun o => match o with WD _ d => forallb (fun x => 0 <=? x) d | WI _ d => forallb (fun x => 0 <=? x) d end) ops &&
  forallb (v1_slot_ok s0) slots &&
  list_eqb bw_eqb (bw_merge (dat_writes m)) (bw_merge (dat_writes ops)) &&
  (flen (v1dat sm) =? flen (v1dat sr)) && (flen (v1idx sm) =? flen (v1idx sr)) &&
  zlist_eqb (fread_from (v1dat sm) 0 60) (fread_from (v1dat sr) 0 60) &&
  forallb (fun s => opt_eqb Z.eqb (v1_entry sm s) (v1_entry sr s) && rres_eqb (v1_read sm s) (v1_read sr s)) slots &&
  forallb (fun o => let '(k, cut, rs) := o in
     list_eqb rres_eqb (map (v1_read (v1_state_at s0 ops k cut)) slots) rs) obs.
'''

DIR_CASE_TYPE = 'Z * bool * bool * path * path * list Z * list Z * Z * Z * list (Z * path * path)'
DIR_DEFS = '''
Definition bop_shape (o : bop) : Z * path * path :=
  match o with
  | BCreate t => (0, t, [])
  | BPut t _ => (1, t, [])
  | BRename t p => (2, t, p)
  | BUnlink t => (3, t, [])
  | BW p _ => (4, p, [])
  | BWD p _ _ => (4, p, [])
  | BWI p _ _ => (5, p, [])
  end.
Definition shape_eqb (a b : Z * path * path) : bool :=
  let '(k, p, q) := a in let '(k2, p2, q2) := b in (k =? k2) && path_eqb p p2 && path_eqb q q2.
(* the operation list of a complete store call with an empty batch = its initialisation part *)
Definition dir_check (c : ''' + DIR_CASE_TYPE + ''') : bool :=
  let '(version, de, ie, pd, pi, sfx1, sfx2, bc, br, shapes) := c in
  let s : bdir := fun q => if path_eqb q pd then (if de then Some fempty else None)
                           else if path_eqb q pi then (if ie then Some fempty else None) else None in
  let ops := if version =? 2 then v2_dir_store_ops s pd sfx1 [] else v1_dir_store_ops s pd pi sfx1 sfx2 bc br [] in
  list_eqb shape_eqb (map bop_shape ops) shapes.
'''

ROUTE_CASE_TYPE = 'list Z * list Z'
ROUTE_CHECKER = (
    "fun c => let '(bs, calls) := c in let tiles : list mtile := map (fun b => (b, 0, [])) bs in "
    "list_eqb Z.eqb (if c_single_bundle tiles then [c_last_bundle tiles] else map c_bundle_of tiles) calls")

INIT_CASE_TYPE = 'Z * Z * Z * Z * list (Z * Z)'
INIT_CHECKER = (
    "fun c => let '(which, bc, br, len, samples) := c in "
    "let f := if which =? 2 then v2_init else if which =? 1 then v1_dat_init bc br else v1_idx_init in "
    "(flen f =? len) && forallb (fun s => fbyte f (fst s) =? snd s) samples")


def scen_compact(ctx, version, nsteps, out, big=False, perms=False):
    from mapproxy.cache.compact import CompactCacheV1, CompactCacheV2
    from mapproxy.cache.tile import Tile
    from mapproxy.image import ImageSource
    rng = ctx.rng
    root = ctx.tmpdir('cc%d' % version)
    cdir = os.path.join(root, 'cache')
    os.makedirs(cdir)
    env = Env(ctx, cdir)
    env.tr.enabled = False
    bx, by = rng.choice([(0, 0), (128, 256)])
    # addresses: slot 1635 of v1 straddles a page boundary of the index; corners; neighbours
    pool = [(0, 0), (1, 0), (0, 1), (127, 127), (12, 99), (99, 12), (5, 3), (64, 64)]
    coords = [(bx + x, by + y, 3) for x, y in rng.sample(pool, 5)]
    bigc = (bx + 77, by + 78, 3)         # receives the tile that is larger than the Python buffer (oracle only: reading
    coords.append(bigc)                  # 8 KB through the write-log model costs seconds per state)
    foreign = (bx + 128, by, 3)          # an address of another bundle file
    coords.append(foreign)
    ncoq = len(coords) - 2               # addresses whose reads are also compared with the model
    bname = os.path.join('L03', 'R%04xC%04x' % (by, bx))
    dat_rel = bname + '.bundle'
    idx_rel = bname + '.bundlx'
    cls = CompactCacheV1 if version == 1 else CompactCacheV2
    hist = []          # raw in-place writes on the bundle since its initialisation
    f_bname = os.path.join('L03', 'R%04xC%04x' % (by, bx + 128))
    f_dat_rel, f_idx_rel = f_bname + '.bundle', f_bname + '.bundlx'
    hist_f = []        # the same for the second bundle file (batches that span two bundle files)
    tag = 'v%d' % version
    try:
        pk = dict(directory_permissions='755', file_permissions='644') if perms else {}
        cache = cls(cdir, **pk)
        maxlen = 0
        tainted = False
        ctx.count('%s:permissions-configured=%s' % (tag, bool(perms)))
        for step in range(nsteps):
            nb = rng.choice([1, 1, 2, 3])
            batch = []
            for _ in range(nb):
                c = rng.choice(coords[:ncoq] if rng.random() < 0.9 else coords[:ncoq] + [foreign])
                n = rng.choice([1, 3, 8, 17, 40])
                if big and step == 1 and not batch:
                    c, n = bigc, 8200 + rng.randrange(100)
                batch.append((c, bytes(rng.randrange(256) for _ in range(n))))
            if len(batch) > 1 and any(c == foreign for c, _ in batch) is False and rng.random() < 0.2:
                batch[0] = (batch[-1][0], batch[0][1])       # the same address twice in one batch
            directed_crash = False
            if not big and step == 1:
                # directed: a batch that spans two bundle files (the second one not yet initialised)
                batch = [(coords[2], bytes(rng.randrange(256) for _ in range(6))),
                         (foreign, bytes(rng.randrange(256) for _ in range(4))),
                         (coords[3], bytes(rng.randrange(256) for _ in range(2)))]
            if not big and step == nsteps - 3:
                # directed: two addresses get content ...
                batch = [(coords[0], bytes(rng.randrange(256) for _ in range(3))),
                         (coords[1], bytes(rng.randrange(256) for _ in range(4)))]
            elif not big and step == nsteps - 2:
                # ... the first is stored again and the process is killed right after the index entry reached the file
                # (the entry is the commit point; the header is written after it): a legitimate prior state ...
                batch = [(coords[0], bytes(rng.randrange(256) for _ in range(5)))]
                directed_crash = True
            elif not big and step == nsteps - 1:
                # ... in which the second address is replaced by the largest tile of the bundle so far (the header's max
                # record size is updated after the index entry)
                batch = [(coords[1], bytes(rng.randrange(256) for _ in range(maxlen + 1 + rng.randrange(4))))]
                ctx.count('%s:directed-largest-tile-over-existing-after-crash' % tag)
            maxlen = max([maxlen] + [len(d) for _, d in batch])
            pre_dir = os.path.join(root, 'pre')
            env.fstrace.copy_tree(cdir, pre_dir)
            old = read_compact(version, cdir, coords)
            tiles = [Tile(c, ImageSource(io.BytesIO(d))) for c, d in batch]
            env.rnd.used = []
            # routing of CompactCacheBase.store_tiles, observed independently of the file contents: every bundle-level
            # store_tiles call takes the lock of its bundle once (one call for a batch inside one bundle file, one call per
            # tile otherwise); compared in Coq with the model's decision c_single_bundle
            import mapproxy.cache.compact as _cc
            lock_calls = []
            _orig_lock = _cc.FileLock

            class CountingLock(_orig_lock):
                def __init__(self, lock_file, *a, **kw):
                    lock_calls.append(lock_file)
                    _orig_lock.__init__(self, lock_file, *a, **kw)
            _cc.FileLock = CountingLock
            try:
                if len(tiles) == 1 and rng.random() < 0.5:
                    raw, exc = env.traced(lambda: cache.store_tile(tiles[0]))
                else:
                    raw, exc = env.traced(lambda: cache.store_tiles(tiles))
            finally:
                _cc.FileLock = _orig_lock
            if exc is None:
                bid = lambda fn: 1 if f_bname in fn else (0 if bname in fn else 2)      # noqa: E731
                out['route_terms'].append('([%s], [%s])' % ('; '.join('1' if c == foreign else '0' for c, _ in batch),
                                                            '; '.join(str(bid(fn)) for fn in lock_calls)))
                out['route_descr'].append({'writer': 'CompactCacheV%d.store_tiles' % version,
                                           'batch_coords': [list(c) for c, _ in batch],
                                           'bundle_level_calls(lock files)': [os.path.relpath(fn, cdir) for fn in lock_calls]})
                ctx.count('%s:route=%s' % (tag, 'one-bundle-call' if len(lock_calls) == 1 and len(batch) > 1 else 'per-tile'))
            raw = [o for o in raw if not (o[0] in ('create', 'write', 'unlink') and o[1].endswith('.lck'))]
            new = read_compact(version, cdir, coords)
            rep = {'writer': 'CompactCacheV%d' % version, 'bundle': bname,
                   'history_raw_writes': [[w[0], w[1], w[2].hex() if len(w[2]) < 100 else len(w[2])] for w in hist] if version == 1
                   else [[w[0], w[1].hex() if len(w[1]) < 100 else len(w[1])] for w in hist],
                   'batch': [[list(c), d.hex() if len(d) < 100 else len(d)] for c, d in batch],
                   'raw_ops': [describe_op(o) for o in raw], 'raised': exc}
            if exc is not None:
                ctx.fail('%s:unexpected-exception' % tag, 'store raised %s' % exc, rep)
            # completed store: the last data stored for each address is returned
            for j, c in enumerate(coords):
                mine = [d for cc, d in batch if cc == c]
                want = ('data', mine[-1]) if mine else old[j]
                if exc is None and new[j] != want:
                    ctx.fail('%s:completed-store-wrong-content' % tag, 'after a completed store an address does not return what was stored', rep)
            # tracing completeness
            chk = os.path.join(root, 'chk')
            env.fstrace.copy_tree(pre_dir, chk)
            try:
                env.replay(raw, chk)
                a, b2 = strip_nlink(snapshot(chk)), strip_nlink(snapshot(cdir))
                a = {p: n for p, n in a.items() if not p.endswith('.lck')}
                b2 = {p: n for p, n in b2.items() if not p.endswith('.lck')}
                same = a == b2
            except Exception:
                same = False
            if not same:
                ctx.problem('correspondence', '%s: replay of the recorded raw ops does not reproduce the directory' % tag, rep)
            # invariant of the state before the store on the real bytes (struct-level reader)
            pre_snap = snapshot(pre_dir)
            if dat_rel in pre_snap and (version == 2 or idx_rel in pre_snap):
                badslots = inv_check_v2(pre_snap[dat_rel][1]) if version == 2 else \
                    inv_check_v1(pre_snap[dat_rel][1], pre_snap[idx_rel][1])
                if badslots:
                    ctx.fail('%s:invariant-broken-before-store' % tag,
                             'an index entry of the real bundle does not name a complete record: slots %r' % (badslots[:5],), rep)
            # ---- oracle over every raw prefix
            inplace = [i for i, o in enumerate(raw) if o[0] == 'write' and o[1] in (dat_rel, idx_rel)]
            first_inplace = inplace[0] if inplace else len(raw)

            def is_index_write(op):
                if version == 1:
                    return op[1].endswith('.bundlx')
                return op[1].endswith('.bundle') and 64 <= op[2] < 131136

            index_tear = {'states': 0, 'bad': 0}

            def cuts_for(i, op):
                if op[1].endswith(tuple('0123456789')) and TMP_TAG in op[1]:
                    return cut_points(ctx, len(op[3]), True)
                if is_index_write(op):
                    # not claimed (A1: B = infinity for in-place index writes); measured in the thorough tier
                    return [] if ctx.quick else cut_points(ctx, len(op[3]), True)
                return cut_points(ctx, len(op[3]), True)

            walk = CrashWalk(env, pre_dir, root)
            obs, seen = [], set()
            bundle_ops = [(('D' if o[1] == dat_rel else 'I'), o[2], o[3]) for o in raw[first_inplace:]
                          if o[0] == 'write' and o[1] in (dat_rel, idx_rel)]
            other_after = [o for o in raw[first_inplace:] if not (o[0] == 'write' and o[1] in (dat_rel, idx_rel))
                           and o[0] not in ('mkdir', 'chmod')]
            single_bundle = not other_after and all(c != foreign for c, _ in batch)
            f_ops = [(('D' if o[1] == f_dat_rel else 'I'), o[2], o[3]) for o in raw
                     if o[0] == 'write' and o[1] in (f_dat_rel, f_idx_rel)]
            for i, c, d in walk.states(raw, cuts_for):
                rs = read_compact(version, d, coords)
                measuring = c is not None and is_index_write(raw[i])
                if measuring:
                    index_tear['states'] += 1
                for j, r in enumerate(rs):
                    mine = [('data', dd) for cc, dd in batch if cc == coords[j]]
                    if r == old[j] or r in mine:
                        continue
                    if measuring:
                        index_tear['bad'] += 1
                        break
                    where = dict(rep, crash_after_raw_ops=i, torn_bytes=c, address=coords[j], read=describe_r(r))
                    if not mine:
                        ctx.fail('%s:other-address-affected:%s' % (tag, classify_bad(r, [old[j]], old + new)),
                                 'an address that is not being stored changed in a crash state', where)
                    else:
                        ctx.fail('%s:%s' % (tag, classify_bad(r, [old[j]] + mine, old + new + [('data', dd) for _, dd in batch])),
                                 'crash state exposes a result that is neither the old nor the complete new content', where)
                if single_bundle and i >= first_inplace and not (measuring and big) and (not ctx.quick or len(obs) < 12):
                    k = len([x for x in inplace if x < i])
                    cc = (k, c)
                    if cc not in seen:
                        seen.add(cc)
                        obs.append((k, c, rs[:ncoq]))
            ctx.count('%s:crash-states' % tag, walk.n)
            if index_tear['states']:
                ctx.count('%s:index-tear-states-measured' % tag, index_tear['states'])
                ctx.count('%s:index-tear-states-exposing-bad-read(limit of A1, not a violation)' % tag, index_tear['bad'])
            had = any(o[0] == 'data' for o in old)
            ctx.case((tag, len(batch), had, first_inplace > 0, tuple(len(d) for _, d in batch),
                      tuple(slot_of(version, c) for c, _ in batch)), had or len(batch) > 1,
                     {'writer': rep['writer'], 'batch_slots': [slot_of(version, c) for c, _ in batch],
                      'raw_ops': [describe_op(o)[:4] for o in raw], 'crash_states_read': walk.n})
            ctx.count('%s:batch=%d' % (tag, len(batch)))
            ctx.count('%s:%s' % (tag, 'with-initialisation' if first_inplace > 0 and inplace else 'in-place-only'))
            # ---- initialisation ops (write_atomic of the bundle / index): shape + sampled content
            for o in raw[:first_inplace]:
                if o[0] == 'write' and TMP_TAG in o[1] and o[1].startswith(bname):
                    which = 2 if version == 2 else (1 if '.bundle.' in o[1] else 0)
                    pos = list(range(0, 64)) + [rng.randrange(len(o[3])) for _ in range(300)] + \
                        list(range(len(o[3]) - 20, len(o[3])))
                    out['init_terms'].append('(%d, %d, %d, %d, [%s])' % (
                        which, bx, by, len(o[3]), '; '.join('(%d, %d)' % (p, o[3][p]) for p in pos)))
                    out['init_descr'].append({'writer': rep['writer'], 'file': o[1], 'length': len(o[3])})
            init_shape = [o[0] for o in raw[:first_inplace] if o[0] not in ('mkdir', 'chmod')]
            if single_bundle and exc is None:
                # the initialisation part of the complete store call against v?_dir_store_ops (order: exclusive temp
                # name, content, rename; v1: data file first, then index file)
                cinit, _, _ = canon_ops(raw[:first_inplace])
                kinds = {'create': 0, 'write': 1, 'rename': 2, 'unlink': 3}
                shapes = ['(%d, %s, %s)' % (kinds.get(o[0], 9), plit(o[1]), plit(o[2]) if o[0] == 'rename' else '[]')
                          for o in cinit]
                used = [str(u) for u in env.rnd.used] + ['0', '0']
                de, ie = dat_rel in pre_snap, idx_rel in pre_snap
                sfx1, sfx2 = (used[0], used[1]) if not de else ('0', used[0])
                out['dir_terms'].append('(%d, %s, %s, %s, %s, %s, %s, %d, %d, [%s])' % (
                    version, 'true' if de else 'false', 'true' if ie else 'false', plit(dat_rel), plit(idx_rel),
                    bytes_lit(sfx1.encode()), bytes_lit(sfx2.encode()), bx, by, '; '.join(shapes)))
                out['dir_descr'].append(dict(rep, init_ops=[describe_op(o) for o in cinit]))
            if single_bundle and init_shape not in ([], ['create', 'write', 'rename'], ['create', 'write', 'rename'] * 2):
                ctx.problem('correspondence', '%s: initialisation is not write_atomic shaped: %r' % (tag, init_shape), rep)
            # ---- correspondence case for the in-place part
            # shape of the raw in-place writes (cheap pre-check of what raw_ok accepts; anything else is reported here
            # and not handed to Coq, whose readers may be walked through arbitrary garbage by such a trace)
            def shape_bad(ops, dat):
                L = len(pre_snap[dat][1]) if dat in pre_snap else (131136 if version == 2 else 65596)
                for kind, off, dd in ops:
                    n = len(dd)
                    if kind == 'D' and off == L:
                        L += n
                    elif kind == 'D' and off + n <= (64 if version == 2 else 60):
                        pass
                    elif version == 2 and kind == 'D' and 64 <= off and off + n <= 131136 and (off - 64) % 8 == 0 and n == 8:
                        pass
                    elif version == 1 and kind == 'I' and 16 <= off and off + n <= 81936 and (off - 16) % 5 == 0 and n % 5 == 0:
                        pass
                    else:
                        return (kind, off, n, L)
                return None

            def coq_term(h, cbatch, ops, slots, obs_list, ox, oy):
                mb = '[' + '; '.join('(%d, %s)' % (slot_of(version, c), bytes_lit(d)) for c, d in cbatch) + ']'
                obs_l = '[' + '; '.join('(%s, %s, [%s])' % (natlit(k), cutlit(cut), '; '.join(rlit(r) for r in rs))
                                        for k, cut, rs in obs_list) + ']'
                if version == 2:
                    return '(%s, %s, %s, %s, %s)' % (
                        '[' + '; '.join(bw_lit(w) for w in h) + ']', mb,
                        '[' + '; '.join(bw_lit((o[1], o[2])) for o in ops) + ']',
                        '[' + '; '.join(str(x) for x in slots) + ']', obs_l)
                return '(%d, %d, %s, %s, %s, %s, %s)' % (
                    ox, oy, '[' + '; '.join(v1op_lit(w) for w in h) + ']', mb,
                    '[' + '; '.join(v1op_lit(o) for o in ops) + ']',
                    '[' + '; '.join(str(x) for x in slots) + ']', obs_l)

            bad_shape = shape_bad(bundle_ops, dat_rel) or shape_bad(f_ops, f_dat_rel)
            volume = sum(len(o[2]) for o in bundle_ops + f_ops) + sum(len(w[-1]) for w in hist + hist_f)
            if bad_shape is not None:
                ctx.problem('correspondence', '%s: raw write %r (file, offset, length, file length) is neither an append nor a '
                            'header rewrite nor whole index entries' % (tag, bad_shape), rep)
                tainted = True
            elif tainted:
                ctx.count('%s:store-after-ill-shaped-trace(oracle only)' % tag)
            elif (bundle_ops or f_ops) and volume > 40000:
                # not the shape of any modelled in-place write (records of this stream are below 9 KB): say so instead
                # of handing Coq a literal of that size
                ctx.problem('correspondence', '%s: in-place raw writes of %d bytes (this store and its history) on existing '
                            'bundle files' % (tag, volume), rep)
            elif big and ctx.quick:
                # the model's readers are quadratic in the record length: the history with the tile that is larger than the
                # Python buffer is compared with the model in the thorough tier; the oracle above covers it in both tiers
                ctx.count('%s:large-tile-history(oracle only in the quick tier)' % tag)
            elif single_bundle and exc is None and bundle_ops:
                out[tag + '_terms'].append(coq_term(hist, batch, bundle_ops, [slot_of(version, c) for c in coords[:ncoq]],
                                                    obs, bx, by))
                out[tag + '_descr'].append(rep)
            elif exc is None and (bundle_ops or f_ops):
                # a batch that spans two bundle files (one store_tile per tile): each file's own subsequence of the raw
                # writes must satisfy raw_ok for the tiles of that file and equal the model's store of those tiles
                # (the hypotheses of the multi-bundle theorems); the interleaved crash states are read by the oracle
                ctx.count('%s:multi-bundle-batch(per-file correspondence)' % tag)
                if bundle_ops:
                    out[tag + '_terms'].append(coq_term(hist, [(c, d) for c, d in batch if c != foreign], bundle_ops,
                                                        [slot_of(version, c) for c in coords[:ncoq]], [], bx, by))
                    out[tag + '_descr'].append(dict(rep, projection=bname))
                if f_ops:
                    out[tag + '_terms'].append(coq_term(hist_f, [(c, d) for c, d in batch if c == foreign], f_ops,
                                                        [slot_of(version, foreign)], [], bx + 128, by))
                    out[tag + '_descr'].append(dict(rep, projection=f_bname))
            hist_f.extend((o[1], o[2]) if version == 2 else o for o in f_ops)
            # history of the bundle under observation; sometimes the history continues from a crash state of this
            # store (a legitimate prior cache content for the next store), preferably right after an index write
            applied = list(bundle_ops)
            if raw and not f_ops and (directed_crash or (rng.random() < 0.35 and not (not big and step >= nsteps - 3))):
                k = rng.randrange(len(raw) + 1)
                idxs = [i + 1 for i, o in enumerate(raw) if o[0] == 'write' and o[1] in (dat_rel, idx_rel) and is_index_write(o)]
                if idxs and (directed_crash or rng.random() < 0.5):
                    k = idxs[-1] if directed_crash else rng.choice(idxs)
                cut = None
                if not directed_crash and k < len(raw) and raw[k][0] == 'write' and len(raw[k][3]) > 1 \
                        and not is_index_write(raw[k]):
                    cut = rng.randrange(1, len(raw[k][3]))
                env.fstrace.copy_tree(pre_dir, cdir)
                env.replay(raw[:k], cdir)
                if cut is not None:
                    env.apply_op(cdir, raw[k], cut=cut)
                applied = [bundle_ops[n] for n, i in enumerate(inplace) if i < k]
                if cut is not None and k in inplace:
                    o = bundle_ops[inplace.index(k)]
                    applied.append((o[0], o[1], o[2][:cut]))
                ctx.count('%s:history-continues-from-crash-state' % tag)
            for o in applied:
                hist.append((o[1], o[2]) if version == 2 else o)
            shutil.rmtree(chk, ignore_errors=True)
    finally:
        env.close()


# ------------------------------------------------------------------------------------------- corpus

def replay_corpus(ctx, out):
    """corpus/C06/*.json: minimised histories that must keep their classification."""
    d = os.path.join(os.path.dirname(os.path.dirname(os.path.dirname(os.path.abspath(__file__)))), 'corpus', 'C06')
    if not os.path.isdir(d):
        return
    for fn in sorted(os.listdir(d)):
        if not fn.endswith('.json'):
            continue
        w = json.load(open(os.path.join(d, fn)))
        if w.get('kind') == 'file-regular-then-single-colour':
            try:
                corpus_regular_then_link(ctx, w)
            except Exception as e:
                ctx.problem('harness', 'corpus witness %s stopped by %r' % (fn, e))
        ctx.count('corpus:' + fn)


def corpus_regular_then_link(ctx, w):
    """store a multi-colour tile, then a single colour tile at the same address, link mode: formerly the crash
    state after the unlink reported the address missing (finding repaired: link under a temp name + rename);
    the witness is kept as a regression."""
    from mapproxy.cache.file import FileCache
    from mapproxy.cache.tile import Tile
    from mapproxy.image import ImageSource
    import random as _r
    mode = True if w['mode'] == 'symlink' else 'hardlink'
    root = ctx.tmpdir('corpus')
    cdir = os.path.join(root, 'cache')
    os.makedirs(cdir)
    env = Env(ctx, cdir)
    env.tr.enabled = False
    try:
        cache = FileCache(cdir, 'png', link_single_color_images=mode)
        coord = tuple(w['coord'])
        cache.store_tile(Tile(coord, ImageSource(io.BytesIO(png_bytes(_r.Random(5))))))
        pre_dir = os.path.join(root, 'pre')
        env.fstrace.copy_tree(cdir, pre_dir)
        old = read_file_cache(cdir, mode, [coord])[0]
        raw, exc = env.traced(lambda: cache.store_tile(Tile(coord, ImageSource(io.BytesIO(png_bytes(None, tuple(w['color'])))))))
        new = read_file_cache(cdir, mode, [coord])[0]
        walk = CrashWalk(env, pre_dir, root)
        for i, c, d in walk.states(raw, lambda i, op: cut_points(ctx, len(op[3]), True)):
            r = read_file_cache(d, mode, [coord])[0]
            if r not in (old, new):
                ctx.fail('file:%s:%s' % (w['mode'], classify_bad(r, [old, new], [])),
                         'a regular tile replaced by a single colour link is not old-or-new in a crash state',
                         {'corpus': w, 'raw_ops': [describe_op(o) for o in raw], 'crash_after_raw_ops': i, 'torn_bytes': c,
                          'read': describe_r(r)})
        ctx.case(('corpus', w['mode']), True, {'corpus': w, 'crash_states_read': walk.n})
    finally:
        env.close()


# ------------------------------------------------------------------------------------------- run

def run(ctx):
    out = {k: [] for k in ('file_terms', 'file_descr', 'atomic_terms', 'atomic_descr', 'v1_terms', 'v1_descr',
                           'v2_terms', 'v2_descr', 'init_terms', 'init_descr', 'dir_terms', 'dir_descr',
                           'route_terms', 'route_descr')}
    import time
    t0 = time.time()
    marks = []

    def mark(name):
        marks.append('%s=%.1fs' % (name, time.time() - t0))
    import traceback

    def guarded(what, fn, *a, **kw):
        """a harness error in one history must not mask the oracle results of the others"""
        try:
            fn(*a, **kw)
        except Exception as e:
            ctx.problem('harness', 'history %s stopped by %r (the other histories continue)' % (what, e),
                        traceback.format_exc()[-3000:])
    guarded('corpus', replay_corpus, ctx, out)
    q = ctx.quick
    for mode in (False, True, 'hardlink'):
        for rep in range(ctx.n(2, 8)):
            script = ()
            if mode and rep == 0:
                # directed: colour tile at A; same colour at B, killed between link-under-temp-name and rename;
                # restart, regular tile at B with the same temp name (same random number / same pid)
                # ... and finally a regular tile over an address that is a link while another address links to the same
                # colour file (the shared file must not be written through)
                script = ((0, 'c0', None), (2, 'c0', None), (1, 'c0', 'after-link-tmp'), (1, 'rand', None),
                          (0, 'rand', None))
            guarded('file/%s/%d' % (mode, rep), scen_file, ctx, mode, ctx.n(9, 14), out, perms=(rep % 2 == 1), script=script)
    mark('file-scenarios')
    for kind in ('legend', 'progress'):
        for rep in range(ctx.n(2, 4)):
            guarded('%s/%d' % (kind, rep), scen_atomic, ctx, kind, ctx.n(5, 10), out, perms=(rep % 2 == 1),
                    umask0=(rep % 2 == (0 if kind == 'progress' else 1)))
    mark('atomic-scenarios')
    for version in (2, 1):
        for rep in range(ctx.n(3, 12)):
            guarded('compact-v%d/%d' % (version, rep), scen_compact, ctx, version,
                    3 if (q and rep == 0 and version == 2) else ctx.n(5, 7), out,
                    big=(rep == 0 and (version == 2 or not q)), perms=(rep % 2 == 1))
        mark('compact-v%d-scenarios' % version)
    ctx.corr_check('file_store', 'Bytes Crash', FILE_CASE_TYPE, out['file_terms'], FILE_CHECKER,
                   lambda i: out['file_descr'][i], shard=12 if q else 20)
    ctx.corr_check('write_atomic', 'Bytes Crash', ATOMIC_CASE_TYPE, out['atomic_terms'], ATOMIC_CHECKER,
                   lambda i: out['atomic_descr'][i], shard=10)
    ctx.corr_check('bundle_init', 'Bytes Crash', INIT_CASE_TYPE, out['init_terms'], INIT_CHECKER,
                   lambda i: out['init_descr'][i], shard=8)
    ctx.corr_check('bundle_dir_init', 'Bytes Crash', DIR_CASE_TYPE, out['dir_terms'], 'dir_check',
                   lambda i: out['dir_descr'][i], shard=40, defs=DIR_DEFS)
    ctx.corr_check('compact_routing', 'Bytes Crash', ROUTE_CASE_TYPE, out['route_terms'], ROUTE_CHECKER,
                   lambda i: out['route_descr'][i], shard=400)
    mark('coq-file-atomic-init')
    ctx.corr_check('bundle_v2', 'Bytes Crash', V2_CASE_TYPE, out['v2_terms'], 'v2_check',
                   lambda i: out['v2_descr'][i], shard=2, defs=V2_DEFS)
    mark('coq-v2')
    ctx.corr_check('bundle_v1', 'Bytes Crash', V1_CASE_TYPE, out['v1_terms'], 'v1_check',
                   lambda i: out['v1_descr'][i], shard=2, defs=V1_DEFS)
    mark('coq-v1')
    ctx.notes.append('cumulative wall time after each phase: ' + ', '.join(marks))
    if os.environ.get('VERIF_VERBOSE'):
        print('C06 phases:', ', '.join(marks))
