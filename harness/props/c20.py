"""C20  Conditional requests are honoured soundly.

Model: coq/theories/Cond.v, lemmas: Cond_proofs.v, theorems: coq/props/P_C20.v.
Tie (correspondence, three streams, all compared inside Coq by vm_compute):
  resp      real mapproxy.response.Response objects: cache_headers(...) then make_conditional(...) on generated
            timestamps (None, 0, 0.0, -1, ints, floats), etag data, max_age, no_cache, If-None-Match / If-Modified-Since
            values (matching, stale, malformed, out of range)  vs  Cond.cache_headers / Cond.make_conditional.
  httpdate  mapproxy.util.times.parse_httpdate on date texts (three HTTP date formats, two-digit years, years below
            1970, years above 9999, garbage) vs Cond.parse_httpdate on the tuple email.utils.parsedate returned;
            format_httpdate vs floor division.
  app       the real WSGI application (webtest) with TMS, WMTS (REST and KVP), KML and WMS-C (tiled GetMap) over a
            file cache and a sqlite cache, meta tiles 1x1 and 2x2, an upstream that answers / fails with 500 (mapped to
            an uncached fill image) / fails with 404 (no handler) on demand, a controlled clock inside the cache
            modules, and histories of requests, rewrites (new bytes, new size, controlled mtime), removals and
            conditional requests (current / stale / foreign validators, malformed and out-of-range dates);
            every step is compared with Cond.step on the store observed before the step.
Finding F18 (year > 9999 in If-Modified-Since answered 500) is repaired in /repo; model and oracle describe the repaired
code: such dates are ignored like any other malformed value (signature ims-date-out-of-range-500 if it regresses).
Oracle (independent of the model): the property statement on status and headers of every app response.
"""
import calendar
import hashlib
import io
import json
import os
import re
import sqlite3
import struct
import time as real_time
import zlib
from fractions import Fraction

from common import blit, bytes_lit, llit, olit, zlit, VERIF

ID = 'C20'
TECHNIQUE = ('Coq proof over all histories of requests / rewrites / conditional headers on the Gallina model of '
             'Response.cache_headers / make_conditional / parse_httpdate and the TMS/WMTS/KML/WMS-C glue + correspondence '
             'check against real Response objects and the real WSGI application; the 304 decision of make_conditional is regenerated from the source by the ast translator (Gen_cond.v) and proved equal to the model')
LEVEL_TEXT = ('Theorems (validators_stable over arbitrary histories, etag_match_304_empty, sound_304, stale_validators_get_200, '
              'malformed_date_ignored, uncacheable_no_store for all four services) about the model Cond.v for every hash '
              'function, tick rate, max age, store content and header value; the model is tied to mapproxy/response.py, '
              'util/times.py, service/{tile,wmts,kml,wms}.py and the tile manager by running the real code on generated '
              'inputs and histories and evaluating the model on the same inputs inside Coq.')
LEVEL_NOTE = ('Trusted: Coq kernel, the hand-written model, the harness (md5 table that maps observed ETags back to the hashed '
              'text, parsing of Last-modified by calendar.timegm/strptime, the clock shim in mapproxy.cache.base/mbtiles). '
              'email.utils.parsedate (stdlib) is external: the model starts from its tuple.  Not modelled: refresh_before / '
              'expiry rules (C13), coverage-clipped and empty (outside coverage) tiles, the KML document endpoint, float '
              'repr (supplied with each timestamp), backends without timestamps (mbtiles, geopackage: timestamp -1).  '
              'Validators are (mtime, size): a rewrite that keeps both is invisible to them (stated as hypothesis of '
              'stale_validators_get_200); md5(str(ts)+str(size)) is not injective in (ts, size) (etag_not_injective_refuted).')
DESIGN_REF = 'DESIGN.md section 5, C20'
RULE = ('case = one Response call sequence / one date text / one step (store before, event) of an application history; '
        'non-trivial = conditional header present or store changed or uncacheable answer; distinct by full tuple')
TRUSTED = ['model Cond.v hand-written from mapproxy/response.py, util/times.py, service/tile.py, wmts.py, kml.py, wms.py, cache/tile.py',
           'tie = differential run of real Response objects and the real WSGI app (webtest) vs the model evaluated in Coq',
           'email.utils.parsedate, wsgiref format_date_time, md5, float repr: external (inputs of the model)']
ASSUMPTIONS = ['md5 is a function (nothing more)',
               'backends report (timestamp, size, bytes) of the last write of a tile until the next write (C05)',
               'no refresh rule (refresh_before) is configured on the cache',
               'parsedate returns month in 1..12 and a non-negative year (checked on every generated date)']
EXPLANATION = ('conditional-request decision procedure proved sound/stable for all histories; implementation driven through '
               'generated histories over file and sqlite caches and compared step by step with the model; fixed histories '
               '(corpus) also cover a storage-less cache on a storing cache (step_passthrough: validators of the lower tile) and '
               'cascaded caches whose error fill colour equals the merged background, with a partial upstream outage')

TPS = 1 << 22          # ticks per second used for the model's timestamps (doubles in [2^30, 2^31) are multiples of 2^-22)
T0 = 1700000000
DAYS = ['Mon', 'Tue', 'Wed', 'Thu', 'Fri', 'Sat', 'Sun']
LONGDAYS = ['Monday', 'Tuesday', 'Wednesday', 'Thursday', 'Friday', 'Saturday', 'Sunday']
MONTHS = ['Jan', 'Feb', 'Mar', 'Apr', 'May', 'Jun', 'Jul', 'Aug', 'Sep', 'Oct', 'Nov', 'Dec']
NONE_ETAG = hashlib.md5(b'NoneNone').hexdigest()


# --------------------------------------------------------------------------------------------- literals

def md5hex(s):
    return hashlib.md5(s.encode('ascii')).hexdigest()


def codes(s):
    return bytes_lit([ord(c) for c in s])


def ticks_of(ts):
    fr = Fraction(ts) * TPS
    if fr.denominator != 1:
        raise ValueError('timestamp %r not on the 2^-22 grid' % (ts,))
    return fr.numerator


def stamp_lit(ts):
    return '{| st_ticks := %s; st_repr := %s |}' % (zlit(ticks_of(ts)), codes(str(ts)))


def ostamp_lit(ts):
    return 'None' if ts is None else '(Some %s)' % stamp_lit(ts)


def fmt_date(t, style='rfc1123'):
    tm = real_time.gmtime(t)
    if style == 'rfc1123':
        return '%s, %02d %s %04d %02d:%02d:%02d GMT' % (DAYS[tm.tm_wday], tm.tm_mday, MONTHS[tm.tm_mon - 1], tm.tm_year,
                                                         tm.tm_hour, tm.tm_min, tm.tm_sec)
    if style == 'rfc850':
        return '%s, %02d-%s-%02d %02d:%02d:%02d GMT' % (LONGDAYS[tm.tm_wday], tm.tm_mday, MONTHS[tm.tm_mon - 1],
                                                         tm.tm_year % 100, tm.tm_hour, tm.tm_min, tm.tm_sec)
    return '%s %s %2d %02d:%02d:%02d %04d' % (DAYS[tm.tm_wday], MONTHS[tm.tm_mon - 1], tm.tm_mday, tm.tm_hour,
                                              tm.tm_min, tm.tm_sec, tm.tm_year)


def ims_lit(text):
    """model view of an If-Modified-Since header: what email.utils.parsedate (stdlib) makes of it"""
    from email.utils import parsedate
    if text is None:
        return 'ImsAbsent'
    try:
        pd = parsedate(text)
    except Exception:
        pd = None
    if pd is None:
        return 'ImsBad'
    return '(ImsDate %s)' % ' '.join(zlit(v) for v in pd[:6])


def lastmod_secs(text):
    if text is None:
        return None
    m = re.match(r'^(\w{3}), (\d\d) (\w{3}) (\d+) (\d\d):(\d\d):(\d\d) GMT$', text)
    if not m or m.group(3) not in MONTHS or m.group(1) not in DAYS:
        return -999999
    try:
        secs = calendar.timegm((int(m.group(4)), MONTHS.index(m.group(3)) + 1, int(m.group(2)), int(m.group(5)),
                                int(m.group(6)), int(m.group(7))))
    except (ValueError, OverflowError):
        return -999997
    if DAYS[real_time.gmtime(secs).tm_wday] != m.group(1):
        return -999998
    return secs


def cache_control_obs(headerlist):
    """(public max-age or None, no-store flag, weird flag) from the raw header list"""
    public, weird = None, False
    cc = [v for k, v in headerlist if k.lower() == 'cache-control']
    pragma = [v for k, v in headerlist if k.lower() == 'pragma']
    expires = [v for k, v in headerlist if k.lower() == 'expires']
    nostore_parts = 0
    for v in cc:
        m = re.match(r'^public, max-age=(-?\d+), s-maxage=(-?\d+)$', v)
        if m and m.group(1) == m.group(2) and public is None:
            public = int(m.group(1))
        elif v == 'no-cache, no-store':
            nostore_parts += 1
        else:
            weird = True
    if pragma == ['no-cache']:
        nostore_parts += 1
    elif pragma:
        weird = True
    if expires == ['-1']:
        nostore_parts += 1
    elif expires:
        weird = True
    if nostore_parts not in (0, 3):
        weird = True
    return public, nostore_parts == 3, weird


def resp_lit(status, body, ctype, etag_src, lastmod, public, nostore):
    return ('(Resp {| r_status := %s; r_body := %s; r_ctype := %s; r_etag := %s; r_lastmod := %s; r_public := %s; '
            'r_nostore := %s; r_ts := None |})' % (
                zlit(status), olit(body), blit(ctype), 'None' if etag_src is None else '(Some %s)' % codes(etag_src),
                olit(lastmod), olit(public), blit(nostore)))


class EtagTable:
    """maps an observed ETag (md5 hex) back to the text that was hashed; the model is run with h = identity"""

    def __init__(self):
        self.tab = {}

    def add(self, src):
        self.tab[md5hex(src)] = src
        return md5hex(src)

    def src(self, etag):
        if etag is None:
            return None
        return self.tab.get(etag, '?' + etag)


# --------------------------------------------------------------------------------------------- stream 1: Response objects

class FakeReq:
    def __init__(self, environ):
        self.environ = environ


def gen_ts(rng):
    c = rng.randrange(12)
    if c == 0:
        return None
    if c == 1:
        return rng.choice([0, 0.0, -1, 1, -0.5, 0.25])
    if c == 2:
        return rng.choice([1.5, 1.75, 2, 1073741824, 1073741824.25, 253402300799])
    base = T0 + rng.randrange(-5, 6)
    if c < 6:
        return base
    return base + rng.randrange(0, 8) / 8.0


def run_resp_stream(ctx):
    from mapproxy.response import Response
    rng = ctx.rng
    terms, descr = [], []
    n = ctx.n(500, 4000)
    for i in range(n):
        ts = gen_ts(rng)
        size = rng.choice([None, 0, 7, 123, 758, 100000])
        ed_kind = rng.choice(['pair', 'pair', 'pair', 'none', 'empty', 'one', 'other'])
        if ed_kind == 'pair':
            ed = (ts, size)
        elif ed_kind == 'none':
            ed = None
        elif ed_kind == 'empty':
            ed = ()
        elif ed_kind == 'one':
            ed = (ts,)
        else:
            ed = ('abc', 12, None)
        max_age = rng.choice([None, None, 0, 60, 259200])
        no_cache = rng.random() < 0.2
        if no_cache and rng.random() < 0.7:
            ts, max_age = rng.choice([None, 0, 0.0]), rng.choice([None, 0])
            if ed_kind in ('pair', 'one'):
                ed = None
        tab = EtagTable()
        own = tab.add(''.join(str(x) for x in ed)) if ed else None
        other = tab.add('1700000000.5123')
        # conditional headers
        inm = rng.choice([None, None, own or 'None', own or '', other, 'garbage', NONE_ETAG, '-1', ''])
        tnum = ts if isinstance(ts, (int, float)) else T0
        import math
        fl = int(math.floor(tnum))
        ims_kind = rng.choice(['absent', 'absent', 'same', 'plus', 'minus', 'style', 'bad', 'oor', 'old', 'far'])
        if ims_kind == 'absent':
            ims = None
        elif ims_kind == 'same':
            ims = fmt_date(max(fl, 0))
        elif ims_kind == 'plus':
            ims = fmt_date(max(fl + rng.choice([1, 2, 3600]), 0))
        elif ims_kind == 'minus':
            ims = fmt_date(max(fl - rng.choice([1, 2, 86400]), 0))
        elif ims_kind == 'style':
            ims = fmt_date(max(fl + rng.choice([-1, 0, 1]), 0), rng.choice(['rfc850', 'asctime']))
        elif ims_kind == 'bad':
            ims = rng.choice(['garbage', '', '0', 'Thu, 01 Oct 2026', '2026-10-01T00:00:00Z', 'Thu, 32 Foo 2026 00:00:00 GMT',
                              'Thu, 01 Oct 2026 20:51:25.5 GMT', '1 1 1', 'None'])
        elif ims_kind == 'oor':
            ims = rng.choice(['Thu, 01 Oct 10000 00:00:00 GMT', 'Fri, 01 Jan 12345678901234567890 00:00:00 GMT',
                              'Thu, 01 Oct 9999 00:00:00 GMT', 'Thu, 45 Oct 2026 99:99:99 GMT'])
        elif ims_kind == 'old':
            ims = rng.choice(['Thu, 01 Jan 1960 00:00:00 GMT', 'Wed, 31 Dec 1969 23:59:59 GMT', 'Thu, 01 Oct 69 00:00:00 GMT',
                              'Thu, 01 Oct 0000 00:00:00 GMT', 'Thu, 01 Jan 1970 00:00:00 GMT'])
        else:
            ims = rng.choice([fmt_date(4102444800), fmt_date(1), fmt_date(T0 + 5)])
        environ = {}
        if inm is not None:
            environ['HTTP_IF_NONE_MATCH'] = inm
        if ims is not None:
            environ['HTTP_IF_MODIFIED_SINCE'] = ims
        body = b'tile-bytes'
        obs = None
        try:
            r = Response(body, content_type='image/png')
            try:
                r.cache_headers(ts, etag_data=ed, max_age=max_age, no_cache=no_cache)
            except AssertionError:
                obs = 'assert'
            if obs is None:
                try:
                    r.make_conditional(FakeReq(environ))
                except Exception as e:  # noqa
                    obs = 'raise:' + type(e).__name__
            if obs is None:
                hl = list(r.headers.items())
                public, nostore, weird = cache_control_obs(hl)
                st = int(r.status.split()[0])
                obs = {'status': st, 'body': 1 if r.response == body else (None if r.response == [] else 2),
                       'ctype': 'Content-type' in r.headers, 'etag': r.headers.get('ETag'),
                       'lastmod': r.headers.get('Last-modified'), 'public': public, 'nostore': nostore, 'weird': weird}
        except Exception as e:  # noqa
            obs = 'harness:' + type(e).__name__
        d = {'timestamp': repr(ts), 'etag_data': repr(ed), 'max_age': max_age, 'no_cache': no_cache, 'if_none_match': inm,
             'if_modified_since': ims, 'observed': obs}
        ctx.case(('resp', repr(ts), repr(ed), max_age, no_cache, inm, ims), inm is not None or ims is not None or no_cache, d)
        ctx.count('resp:ims=' + ims_kind)
        if isinstance(obs, dict):
            ctx.count('resp:status=%d' % obs['status'])
            if obs['weird']:
                olit_ = 'Err500'   # cannot be matched by a cache_headers success
                kind = 0
            else:
                olit_ = resp_lit(obs['status'], obs['body'], obs['ctype'], tab.src(obs['etag']), lastmod_secs(obs['lastmod']),
                                 obs['public'], obs['nostore'])
                kind = 0
        elif obs == 'assert':
            olit_, kind = 'Err500', 1
            ctx.count('resp:assert')
        else:
            olit_, kind = 'Err500', 0
            ctx.count('resp:' + obs)
        try:
            ts_l = ostamp_lit(ts)
        except ValueError:
            continue
        ed_l = 'None' if ed is None else '(Some %s)' % llit([str(x) for x in ed], codes)
        inm_l = 'None' if inm is None else '(Some %s)' % codes(tab.src(inm))
        terms.append('(%s, %s, %s, %s, %s, %s, %d, %s)' % (ts_l, ed_l, olit(max_age), blit(no_cache), inm_l, ims_lit(ims),
                                                           kind, olit_))
        descr.append(d)
    ctx.corr_check(
        'resp', 'Cond',
        'option stamp * option (list str) * option Z * bool * option str * imsval * Z * outcome', terms,
        "fun c => let '(ts, ed, ma, nc, inm, ims, kind, obs) := c in "
        "match cache_headers (fun s => s) %d (new_resp 1) ts ed ma nc with "
        "| None => Z.eqb kind 1 "
        "| Some r => Z.eqb kind 0 && outcome_eqb (make_conditional %d r inm ims) obs end" % (TPS, TPS),
        lambda i: descr[i])


# --------------------------------------------------------------------------------------------- stream 2: HTTP dates

def run_date_stream(ctx):
    from mapproxy.util.times import parse_httpdate, format_httpdate
    from email.utils import parsedate
    rng = ctx.rng
    texts = [None, '', 'garbage', 'Thu, 01 Oct 10000 00:00:00 GMT', 'Thu, 01 Oct 9999 00:00:00 GMT', 'Thu, 45 Oct 2026 99:99:99 GMT',
             'Thu, 01 Oct 0000 00:00:00 GMT', 'Thu, 01 Oct 69 00:00:00 GMT', 'Thu, 01 Oct 68 00:00:00 GMT',
             'Thu, 01 Oct 1969 00:00:00 GMT', 'Thu, 00 Oct 2026 00:00:00 GMT', 'Thu, 01 Oct 2026 20:51:25 +0200',
             '01 Oct 2026', 'Oct 01 2026 10:00:00', '1 Jan 123456789012345678901234567890 00:00:00',
             'Sat, 29 Feb 2024 12:00:00 GMT', 'Thu, 29 Feb 2100 12:00:00 GMT', 'Tue, 29 Feb 2000 00:00:00 GMT',
             'Fri, 31 Dec 9999 23:59:59 GMT', 'Thu, 01 Jan 1970 00:00:00 GMT', 'Thu, 01 Mar 1900 00:00:00 GMT',
             'Thu, 01 Oct 100 00:00:00 GMT', 'Thu, 01 Oct 7999 00:00:00 GMT', 'Thu, 01 Oct 8000 00:00:00 GMT']
    for _ in range(ctx.n(300, 3000)):
        c = rng.randrange(6)
        if c == 0:
            t = rng.randrange(0, 253402300800)
        elif c == 1:
            t = rng.randrange(T0 - 10 ** 8, T0 + 10 ** 8)
        else:
            y = rng.choice([1970, 1971, 1972, 1999, 2000, 2001, 2023, 2024, 2026, 2038, 2100, 2400, 9999])
            mo = rng.randrange(1, 13)
            dd = rng.choice([1, 28, 29, 30, 31, rng.randrange(1, 29)])
            try:
                t = calendar.timegm((y, mo, dd, rng.randrange(24), rng.randrange(60), rng.randrange(60)))
            except Exception:
                t = T0
            t = max(0, min(t, 253402300799))
        style = rng.choice(['rfc1123', 'rfc1123', 'rfc850', 'asctime'])
        s = fmt_date(t, style)
        if rng.random() < 0.15:
            # mutate: drop / change a character
            k = rng.randrange(len(s))
            s = s[:k] + rng.choice(['', 'x', '9', ' ', ':']) + s[k + 1:]
        texts.append(s)
    terms, descr = [], []
    for s in texts:
        try:
            r = parse_httpdate(s)
            obs = '(Some PNone)' if r is None else '(Some (PSome %s))' % zlit(r)
            if r is not None and not isinstance(r, int):
                obs = None
        except Exception as e:  # noqa
            r = 'raised ' + type(e).__name__
            obs = None            # parse_httpdate must not raise (repair of F18); no model value matches
        try:
            pd = parsedate(s)
        except Exception:
            pd = None
        if pd is not None and not (1 <= pd[1] <= 12 and pd[0] >= 0):
            ctx.problem('harness', 'parsedate returned month/year outside the range assumed by the model', {'text': s, 'tuple': list(pd)})
        d = {'text': s, 'parse_httpdate': r, 'parsedate': None if pd is None else list(pd[:6])}
        ctx.case(('date', s), pd is not None, d)
        ctx.count('date:' + ('none' if r is None else 'raise' if isinstance(r, str) else 'value'))
        terms.append('(%s, %s)' % (ims_lit(s), obs or 'None'))
        descr.append(d)
    ctx.corr_check('httpdate', 'Cond', 'imsval * option parsed', terms,
                   "fun c => match snd c with Some p => parsed_eqb (parse_httpdate (fst c)) p | None => false end",
                   lambda i: descr[i])
    # format_httpdate prints floor(ts)
    terms, descr = [], []
    for _ in range(ctx.n(150, 1500)):
        ts = gen_ts(rng)
        if ts is None:
            continue
        try:
            txt = format_httpdate(ts)
        except Exception as e:  # noqa
            txt = None
        secs = lastmod_secs(txt)
        try:
            terms.append('(%s, %s)' % (zlit(ticks_of(ts)), olit(secs)))
        except ValueError:
            continue
        descr.append({'timestamp': repr(ts), 'format_httpdate': txt})
        ctx.case(('fmt', repr(ts)), True, None)
    ctx.corr_check('format_httpdate', 'Cond', 'Z * option Z', terms,
                   "fun c => opt_eqb Z.eqb (Some (fst c / %d)) (snd c)" % TPS, lambda i: descr[i])


# --------------------------------------------------------------------------------------------- stream 3: the application

def make_png(color, pad=0):
    from PIL import Image
    b = io.BytesIO()
    Image.new('RGB', (256, 256), color).save(b, 'PNG')
    data = b.getvalue()
    if pad:
        payload = b'Comment\x00' + b'x' * pad
        chunk = struct.pack('>I', len(payload)) + b'tEXt' + payload + struct.pack('>I', zlib.crc32(b'tEXt' + payload) & 0xffffffff)
        data = data[:-12] + chunk + data[-12:]
    return data


class Clock:
    """stands in for the `time` module inside mapproxy.cache.base / mapproxy.cache.mbtiles"""

    def __init__(self):
        self.now = float(T0)

    def time(self):
        return self.now

    def __getattr__(self, name):
        return getattr(real_time, name)


class Upstream:
    def __init__(self):
        self.mode = 'ok'
        self.color = (0, 200, 0)
        self.calls = 0
        self.two = False      # cache with two sources (base + overlay): 'fail' makes only the overlay fail
        self.partial = False  # 'fail' makes every second upstream call fail (a partial outage below a merged tile)
        self.failed = 0

    def open(self, client, url, data=None, method=None):
        from mapproxy.client.http import HTTPClientError
        from urllib.parse import urlparse, parse_qs
        from PIL import Image
        self.calls += 1
        overlay = '/overlay' in url
        if self.mode == 'fail' and (overlay or not self.two) and not (self.partial and self.calls % 2 == 1):
            self.failed += 1
            raise HTTPClientError('upstream says 500', response_code=500)
        if self.mode == 'err':
            raise HTTPClientError('upstream says 404', response_code=404)
        q = {k.lower(): v[0] for k, v in parse_qs(urlparse(url).query).items()}
        q.setdefault('width', '256')      # tile source URL (no query string): one 256x256 tile
        q.setdefault('height', '256')
        if '/b?' in url:
            # top layer of the merged WMS-C stream: opaque on the right half only, the layer below shows through
            w, h = int(q['width']), int(q['height'])
            img = Image.new('RGBA', (w, h), (0, 0, 0, 0))
            img.paste(tuple(self.color) + (255,), (w // 2, 0, w, h))
        elif overlay:
            img = Image.new('RGBA', (int(q['width']), int(q['height'])), (0, 0, 0, 0))
        else:
            img = Image.new('RGB', (int(q['width']), int(q['height'])), self.color)
        b = io.BytesIO()
        img.save(b, 'PNG')
        b.seek(0)
        b.headers = {'Content-type': 'image/png'}
        b.code = 200
        return b


LEVEL = 2
NK = 4          # tiles per axis at LEVEL
SERVICES = ['tms', 'wmts', 'wmtskvp', 'kml', 'wmsc']
SVC_MODEL = {'tms': 'TMS', 'wmts': 'WMTS', 'wmtskvp': 'WMTS', 'kml': 'KML', 'wmsc': 'WMSC'}


class App:
    def __init__(self, ctx, cache_type, meta, hours, link=None, refresh=False, two=False, auth=False, opts=None):
        import yaml
        from mapproxy.wsgiapp import make_wsgi_app
        from webtest import TestApp
        self.cache_type, self.meta, self.max_age, self.link = cache_type, meta, hours * 3600, link
        cache_conf = {'type': cache_type}
        base = ctx.tmpdir('app')
        self.base = base
        conf = {'globals': {'cache': {'base_dir': base + '/c', 'lock_dir': base + '/l', 'tile_lock_dir': base + '/t',
                                      'meta_size': [meta, meta], 'meta_buffer': 0},
                            'tiles': {'expires_hours': hours}},
                'services': {'wms': {}, 'tms': {}, 'wmts': {'restful': True, 'kvp': True}, 'kml': {}},
                'layers': [{'name': 'lyr', 'title': 'l', 'sources': ['c1']}],
                'caches': {'c1': {'grids': ['GLOBAL_MERCATOR'], 'sources': ['up'], 'cache': cache_conf}},
                'sources': {'up': {'type': 'wms', 'req': {'url': 'http://up.invalid/s', 'layers': 'a'},
                                   'on_error': {500: {'response': '#ff0000', 'cache': False}}}}}
        if (opts or {}).get('fill'):
            # fill colour of the error handler, e.g. '#ffffff' = the background colour of an opaque merged image
            conf['sources']['up']['on_error'][500]['response'] = opts['fill']
        if link:
            conf['caches']['c1']['link_single_color_images'] = True if link == 'symlink' else link
        opts = opts or {}
        self.authorize_stale = bool(opts.get('authorize_stale'))
        if self.authorize_stale:
            # the documented way to keep serving old tiles during an outage
            conf['sources']['up']['on_error'][500]['authorize_stale'] = True
        if opts.get('watermark'):
            # a pre-store filter: the stored (and answered) image is a new image object
            conf['caches']['c1']['watermark'] = {'text': 'wm', 'opacity': 40}
        self.tcolor = bool(opts.get('tcolor'))
        if self.tcolor:
            # the source post-processes its images (white becomes transparent)
            conf['sources']['up']['image'] = {'transparent_color': '#ffffff', 'transparent_color_tolerance': 5}
        self.cascade = opts.get('cascade')
        if self.cascade:
            # the cache of the layer is built on another cache whose regional grid covers the outer tiles of LEVEL only
            # partly; the lower cache has the WMS source (with on_error) and creates single tiles or 2x2 meta tiles
            half = 15028131.257091932
            m = 2 if self.cascade == 'meta2' else 1
            conf['grids'] = {'lowgrid': {'srs': 'EPSG:900913', 'bbox': [-half, -half, half, half], 'origin': 'll'}}
            # cascade == 'srs': the lower cache is in another SRS (images pass the reprojecting mesh transformation)
            conf['caches']['low'] = {'grids': ['GLOBAL_GEODETIC' if self.cascade == 'srs' else 'lowgrid'], 'sources': ['up'],
                                     'meta_size': [m, m], 'meta_buffer': 0, 'cache': {'type': 'file'}}
            conf['caches']['c1']['sources'] = ['low']
        self.passthrough = opts.get('passthrough')
        if self.passthrough:
            # the cache of the layer stores nothing (disable_storage) and is built on a storing cache with the same grid and
            # format (tiled_only access, tile by tile): the validators are those of the tile stored in the LOWER cache
            # (CacheInfo travels with the image); 'watermark': the upper cache draws on the image (other bytes than stored)
            conf['caches']['low'] = {'grids': ['GLOBAL_MERCATOR'], 'sources': ['up'], 'meta_size': [meta, meta],
                                     'meta_buffer': 0, 'cache': cache_conf}
            conf['caches']['c1'] = {'grids': ['GLOBAL_MERCATOR'], 'sources': ['low'], 'disable_storage': True,
                                    'meta_size': [1, 1], 'meta_buffer': 0}
            if self.passthrough == 'watermark':
                conf['caches']['c1']['watermark'] = {'text': 'wm', 'opacity': 40}
        self.bulk = bool(opts.get('bulk'))
        if self.bulk:
            # bulk_meta_tiles (only for tile sources): the tiles of a meta tile are fetched one by one
            conf['sources']['up'] = {'type': 'tile', 'url': 'http://up.invalid/tiles/%(z)s/%(x)s/%(y)s.png', 'grid': 'GLOBAL_MERCATOR',
                                     'on_error': {500: {'response': '#ff0000', 'cache': False}}}
            conf['caches']['c1']['bulk_meta_tiles'] = True
            conf['caches']['c1']['meta_size'] = [meta, meta]
        self.ref = None
        if refresh:
            self.ref = base + '/refresh_reference'
            open(self.ref, 'w').close()
            os.utime(self.ref, (1, 1))
            conf['caches']['c1']['refresh_before'] = {'mtime': self.ref}
        self.auth = auth
        # authorization callback: 'partial' with a limited_to box from the middle of the first to the middle of the last
        # tile column / row of LEVEL: tiles in the outer columns and rows are cut partly, the others lie inside
        half = 15028131.257091932
        self.cut_keys = set(k for k in range(NK * NK) if (k % NK in (0, NK - 1) or k // NK in (0, NK - 1))) if auth else set()

        def authorize(service, layers, environ=None, query_extent=None, **kw):
            return {'authorized': 'partial',
                    'layers': {'lyr': {'tile': True, 'map': True,
                                       'limited_to': {'geometry': [-half, -half, half, half], 'srs': 'EPSG:900913'}}}}
        self.environ = {'mapproxy.authorize': authorize} if auth else {}
        self.two = two
        if two:
            conf['sources']['ov'] = {'type': 'wms', 'req': {'url': 'http://up.invalid/overlay', 'layers': 'o', 'transparent': True},
                                     'on_error': {500: {'response': 'transparent', 'cache': False}}}
            conf['caches']['c1']['sources'] = ['up', 'ov']
        with open(base + '/m.yaml', 'w') as f:
            yaml.safe_dump(conf, f)
        self.wsgi = make_wsgi_app(base + '/m.yaml')
        self.app = TestApp(self.wsgi)
        layers = self.wsgi.handlers['tms'].layers
        self.tm = list(layers.values())[0].tile_manager
        if self.passthrough:
            # "the tile as currently stored" lives in the lower cache: observe / rewrite / remove act on that one
            self.tm = self.tm.sources[0].tile_manager
        self.grid = self.tm.grid

    def url(self, svc, key):
        x, y = key % NK, key // NK
        z = LEVEL
        if svc == 'tms':
            return '/tms/1.0.0/lyr/EPSG900913/%d/%d/%d.png' % (z - 1, x, y)
        if svc == 'kml':
            return '/kml/lyr/EPSG900913/%d/%d/%d.png' % (z, x, y)
        if svc == 'wmts':
            return '/wmts/lyr/GLOBAL_MERCATOR/%d/%d/%d.png' % (z, x, NK - 1 - y)
        if svc == 'wmtskvp':
            return ('/service?service=WMTS&request=GetTile&version=1.0.0&layer=lyr&style=&tilematrixset=GLOBAL_MERCATOR'
                    '&tilematrix=%d&tilerow=%d&tilecol=%d&format=image/png' % (z, NK - 1 - y, x))
        bb = self.grid.tile_bbox((x, y, z))
        return ('/service?service=WMS&request=GetMap&version=1.1.1&layers=lyr&styles=&srs=EPSG:900913&format=image/png'
                '&width=256&height=256&tiled=true&bbox=%r,%r,%r,%r' % bb
                + ('&transparent=true' if (self.two or self.tcolor) else ''))     # the two-source cache stores transparent tiles

    def ref_mtime(self):
        return None if self.ref is None else os.stat(self.ref).st_mtime

    def is_stale(self, ent):
        """TileManager.is_cached: stale = int(tile.timestamp) <= mtime of the refresh_before reference file"""
        return self.ref is not None and ent is not None and int(ent[0]) <= self.ref_mtime()

    def color_file(self, color):
        return self.tm.cache._single_color_tile_location(tuple(color))

    def store_via_cache(self, key, color):
        """store a uniform tile through the real FileCache.store_tile (what seeding / a refresh does)"""
        from PIL import Image
        from mapproxy.cache.tile import Tile
        from mapproxy.image import ImageSource
        img = Image.new('RGB', (256, 256), tuple(color))
        tile = Tile((key % NK, key // NK, LEVEL), ImageSource(img, image_opts=self.tm.image_opts))
        self.tm.cache.store_tile(tile)

    # ---- direct access to the backend (what another process / seeding would do)
    def _file(self, key):
        from mapproxy.cache.tile import Tile
        return self.tm.cache.tile_location(Tile((key % NK, key // NK, LEVEL)))

    def _db(self):
        path = os.path.join(self.tm.cache.cache_dir, '%d.mbtile' % LEVEL)
        if not os.path.exists(path):
            return None
        return sqlite3.connect(path)

    def observe(self, key):
        """(timestamp, size, bytes) as the backend will report it, or None"""
        if self.cache_type == 'file':
            p = self._file(key)
            try:
                st = os.lstat(p)
            except OSError:
                return None
            with open(p, 'rb') as f:
                data = f.read()
            return (st.st_mtime, st.st_size, data)
        db = self._db()
        if db is None:
            return None
        try:
            row = db.execute('SELECT tile_data, last_modified FROM tiles WHERE tile_column=? AND tile_row=? AND zoom_level=?',
                             (key % NK, key // NK, LEVEL)).fetchone()
        finally:
            db.close()
        if row is None:
            return None
        ts = real_time.mktime(real_time.strptime(row[1], '%Y-%m-%d %H:%M:%S'))
        return (ts, len(row[0]), bytes(row[0]))

    def rewrite(self, key, data, mtime):
        if self.cache_type == 'file':
            p = self._file(key)
            os.makedirs(os.path.dirname(p), exist_ok=True)
            tmp = p + '.harness'
            with open(tmp, 'wb') as f:
                f.write(data)
            os.rename(tmp, p)
            ns = int(Fraction(mtime) * 10 ** 9)
            os.utime(p, ns=(ns, ns))
            return
        self.tm.cache._get_level(LEVEL)      # creates the level database if needed
        self.tm.cache.cleanup()
        db = self._db()
        try:
            db.execute("INSERT OR REPLACE INTO tiles (zoom_level, tile_column, tile_row, tile_data, last_modified) "
                       "VALUES (?,?,?,?, datetime(?, 'unixepoch', 'localtime'))",
                       (LEVEL, key % NK, key // NK, sqlite3.Binary(data), int(mtime)))
            db.commit()
        finally:
            db.close()

    def remove(self, key):
        if self.cache_type == 'file':
            try:
                os.unlink(self._file(key))
            except OSError:
                pass
            return
        db = self._db()
        if db is None:
            return
        try:
            db.execute('DELETE FROM tiles WHERE tile_column=? AND tile_row=? AND zoom_level=?', (key % NK, key // NK, LEVEL))
            db.commit()
        finally:
            db.close()


def meta_siblings(key, meta):
    x, y = key % NK, key // NK
    x0, y0 = x - x % meta, y - y % meta
    return [xx + NK * yy for yy in range(y0, y0 + meta) for xx in range(x0, x0 + meta)]


class History:
    """runs one generated history against one application and collects model cases + oracle verdicts"""

    def __init__(self, ctx, app, up, clock, label):
        self.ctx, self.app, self.up, self.clock, self.label = ctx, app, up, clock, label
        self.tab = EtagTable()
        self.tab.add('NoneNone')
        self.bodies = {}
        self.keys = list(range(NK * NK))
        self.store = {k: None for k in self.keys}      # observed (ts, size, bytes)
        self.seen = {}                                   # key -> (etag, lastmod, body) of the current stored version
        self.validators = {k: [] for k in self.keys}     # validators handed out for k (any version)
        self.masked = {}                                 # (key, stored bytes) -> masked body (authorization limited_to)
        self.issued = {}                                 # (key, etag) -> (mtime, size) of the version it was issued for
        self.copies = {k: [] for k in self.keys}         # (Last-modified text, body) of 200 answers a client may hold
        self.by_cache = {}                               # key -> True when the current version was written by mapproxy itself
        self.terms, self.descr = [], []
        self.log = []

    def body_id(self, data):
        if data not in self.bodies:
            self.bodies[data] = len(self.bodies) + 10
        return self.bodies[data]

    def entry_lit(self, ent):
        ts, size, data = ent
        self.tab.add(str(ts) + str(size))
        return '{| e_ts := %s; e_size := %s; e_body := %s |}' % (stamp_lit(ts), zlit(size), zlit(self.body_id(data)))

    def store_lit(self, store):
        return llit([k for k in self.keys if store[k] is not None],
                    lambda k: '(%d, %s)' % (k, self.entry_lit(store[k])))

    def observe_all(self):
        return {k: self.app.observe(k) for k in self.keys}

    def fail(self, sig, what, step):
        self.ctx.fail(sig, what, {'config': self.label, 'failing_step': step, 'history': self.log[-40:]})

    # ---- events
    def do_rewrite(self, key, data, mtime):
        before = dict(self.store)
        self.app.rewrite(key, data, mtime)
        after = self.observe_all()
        self.store = after
        self.seen.pop(key, None)
        self.by_cache[key] = False
        step = {'event': 'rewrite', 'key': key, 'size': len(data), 'mtime': repr(mtime),
                'stored': None if after[key] is None else [repr(after[key][0]), after[key][1]]}
        self.log.append(step)
        if after[key] is None:
            self.ctx.problem('harness', 'rewrite did not store the tile', step)
            return
        self.emit(before, 'Rewrite %d %s' % (key, self.entry_lit(after[key])), [], 'None', after, step)

    def do_store(self, key, color):
        """the tile is written again by the cache backend itself (FileCache.store_tile)"""
        before = dict(self.store)
        try:
            self.app.store_via_cache(key, color)
        except Exception as e:  # noqa
            self.ctx.problem('harness', 'store_tile raised %r' % (e,), {'key': key, 'color': list(color)})
            return
        after = self.observe_all()
        self.store = after
        self.seen.pop(key, None)
        self.by_cache[key] = True
        step = {'event': 'store_tile', 'key': key, 'color': list(color), 'link': self.app.link,
                'stored': None if after[key] is None else [repr(after[key][0]), after[key][1]]}
        self.log.append(step)
        if after[key] is None:
            self.ctx.problem('harness', 'store_tile did not store the tile', step)
            return
        self.emit(before, 'Rewrite %d %s' % (key, self.entry_lit(after[key])), [], 'None', after, step)

    def do_remove(self, key):
        before = dict(self.store)
        self.app.remove(key)
        after = self.observe_all()
        self.store = after
        self.seen.pop(key, None)
        step = {'event': 'remove', 'key': key}
        self.log.append(step)
        self.emit(before, 'Remove %d' % key, [], 'None', after, step)

    def emit(self, before, ev_lit, extras, obs_lit, after, step):
        try:
            t = '(%s, %s, %s, %s, %s)' % (self.store_lit(before), ev_lit,
                                            llit(extras, lambda ke: '(%d, %s)' % (ke[0], self.entry_lit(ke[1]))),
                                            obs_lit, self.store_lit(after))
        except ValueError as e:
            self.ctx.problem('harness', 'timestamp outside the tick grid: %s' % e, step)
            return
        self.terms.append(t)
        self.descr.append({'config': self.label, 'step': step})

    def do_request(self, svc, key, mode, inm, ims, ims_class, ims_t, now, overlap=None):
        """overlap = (service, colour): while this request waits for the tile lock, another request for the same tile
        runs to completion (it gets the lock first): schedule `this loads | other loads, locks, refreshes, answers |
        this locks, re-checks, answers`"""
        ctx = self.ctx
        before = dict(self.store)
        pre = before[key]
        cut = key in self.app.cut_keys          # authorization limits the answer to a part of this tile (masked image)
        cut = cut or self.app.passthrough == 'watermark'     # (or the storage-less upper cache draws a watermark on it)
        self.up.mode = mode
        self.clock.now = float(now)
        headers = {}
        if inm is not None:
            headers['If-None-Match'] = inm
        if ims is not None:
            headers['If-Modified-Since'] = ims
        calls0 = self.up.calls
        failed0 = self.up.failed
        linked_existing = bool(self.app.link and mode == 'ok' and pre is None
                               and os.path.exists(self.app.color_file(self.up.color)))
        stale = self.app.is_stale(pre)
        refreshing = stale and (mode == 'ok' or (mode == 'fail' and not self.app.authorize_stale))
        ran_other = []
        tm = self.app.tm
        where_gate = (overlap[2] if overlap is not None and len(overlap) > 2 else 'lock')
        if overlap is not None:
            import threading
            orig_lock = tm.lock
            orig_load_tiles = tm.cache.load_tiles

            def run_other():
                ran_other.append(True)

                def other():
                    self.up.color = overlap[1]
                    self.do_request(overlap[0], key, 'ok', None, None, 'absent', None, now)
                t = threading.Thread(target=other)
                t.start()
                t.join(60)
                ran_other.append(self.up.calls)
                self.up.mode = mode

            def gated_lock(tile):
                if not ran_other:
                    tm.lock = orig_lock
                    run_other()
                return orig_lock(tile)

            def gated_load_tiles(tiles, *a, **kw):
                # this request looks for the tile first; then the other request runs to completion
                res = orig_load_tiles(tiles, *a, **kw)
                if not ran_other:
                    tm.cache.load_tiles = orig_load_tiles
                    run_other()
                return res
            if where_gate == 'load':
                tm.cache.load_tiles = gated_load_tiles
            else:
                tm.lock = gated_lock
        try:
            r = self.app.app.get(self.app.url(svc, key), headers=headers, expect_errors=True, extra_environ=dict(self.app.environ))
            status, hl, body = r.status_int, [(k, v) for k, v in r.headerlist], r.body
        except Exception as e:  # noqa
            status, hl, body = 599, [], repr(e).encode()[:200]
        finally:
            if overlap is not None:
                tm.lock = orig_lock
                tm.cache.load_tiles = orig_load_tiles
        if ran_other:
            # the other request has been processed (oracle + model case) on its own; this one is judged against what
            # was stored when it got the lock
            before = dict(self.store)
            pre = before[key]
            stale = self.app.is_stale(pre)
            if self.app.meta > 1 and self.app.ref is not None:
                # this request is already inside the tile creator: under the meta tile lock it re-checks ALL tiles of
                # the meta tile (`all(is_cached(t) ...)`), so a missing or stale sibling makes it fetch the meta tile again
                stale = stale or any(before[k_] is None or self.app.is_stale(before[k_]) for k_ in meta_siblings(key, self.app.meta))
            refreshing = stale and (mode == 'ok' or (mode == 'fail' and not self.app.authorize_stale))
            calls0 = ran_other[-1]
        asked = self.up.calls - calls0
        if self.app.cascade and mode in ('fail', 'err') and asked == 0:
            # cascaded caches: the lower cache had all its tiles, the failing upstream was not needed: an ordinary creation
            mode = 'ok'
        if self.up.partial and mode == 'fail' and self.up.failed == failed0:
            # partial outage: none of the upstream calls of this request was among the failing ones
            mode = 'ok'
        after = self.observe_all()
        self.store = after
        for k_ in self.keys:
            if after[k_] != before[k_]:
                self.seen.pop(k_, None)      # rewritten (e.g. as a sibling in a meta tile): a new version
        hd = {}
        for k_, v_ in hl:
            hd.setdefault(k_.lower(), v_)
        etag, lastmod = hd.get('etag'), hd.get('last-modified')
        public, nostore, weird = cache_control_obs(hl)
        step = {'event': 'request', 'service': svc, 'key': key, 'upstream': mode, 'if_none_match': inm, 'if_modified_since': ims,
                'clock': repr(float(now)), 'stored_before': None if pre is None else [repr(pre[0]), pre[1]],
                'status': status, 'etag': etag, 'last_modified': lastmod, 'cache_control': [v for k_, v in hl if k_.lower() == 'cache-control'],
                'body_len': len(body), 'upstream_calls': asked, 'stale_by_refresh_rule': stale,
                'schedule': (('this request looked for the tile in the cache (load_tiles), then the previous request of this log (same '
                              'tile) ran to completion' if where_gate == 'load' else
                              'this request loaded / looked for the tile, then waited for the tile lock while the previous request of '
                              'this log (same tile) ran to completion')) if ran_other else None,
                'limited_to_cuts_tile': cut,
                'stored_after': None if after[key] is None else [repr(after[key][0]), after[key][1]]}
        self.log.append(step)
        ctx.count('app:svc=' + svc)
        ctx.count('app:status=%d' % status)
        ctx.count('app:' + ('stored' if pre is not None else 'uncached-' + mode))
        ctx.count('app:ims=' + ims_class)
        ctx.case((self.label, len(self.log), svc, key, mode, inm, ims, status, etag), True,
                 step if (inm or ims or mode != 'ok') else None)

        # ------------------------------------------------------------------ oracle (property statement, no model)
        where = 'service=%s,' % ('wmts' if svc == 'wmtskvp' else svc)
        if status == 304 and body:
            self.fail(where + '304-with-body', '304 answer carries %d body bytes' % len(body), step)
        if pre is not None and not refreshing:
            ts, size, data = pre
            cur_etag = md5hex(str(ts) + str(size))
            cur_lm = fmt_date(int(ts // 1))
            if status >= 400:
                if ims_class == 'oor' and ims is not None and inm != cur_etag:
                    self.fail('ims-date-out-of-range-500',
                              'If-Modified-Since %r is answered %d instead of being ignored' % (ims, status), step)
                else:
                    self.fail(where + 'stored-tile-error', 'request for a stored tile answered %d' % status, step)
            else:
                if cut and status == 200:
                    # the body is the stored image masked by the limited_to area: the first one seen for this stored
                    # version is the reference for all later ones
                    ref = self.masked.setdefault((key, data), body)
                    body_ok = body == ref
                else:
                    body_ok = body == data
                if nostore or etag != cur_etag or lastmod != cur_lm or (status == 200 and not body_ok):
                    self.fail('lock-wait-answer-without-metadata' if (ran_other and where_gate == 'lock' and etag == NONE_ETAG
                                                                      and lastmod is None and not nostore) else
                              where + 'validators-unstable',
                              'stored tile (mtime %r, size %d) answered with ETag %r / Last-modified %r / no-store=%r / %s body; '
                              'expected ETag %r, Last-modified %r and the stored bytes'
                              % (ts, size, etag, lastmod, nostore, 'same' if body_ok else 'different', cur_etag, cur_lm), step)
                prev = self.seen.get(key)
                cur = (etag, lastmod, data if (status == 304 or cut) else body)
                if prev is not None and prev != cur:
                    self.fail(where + 'validators-unstable', 'two answers for the same stored tile differ: %r vs %r'
                              % (prev[:2], cur[:2]), step)
                self.seen[key] = cur
                if inm == cur_etag and status != 304:
                    self.fail(where + 'etag-match-not-304', 'If-None-Match equals the current ETag but the answer is %d' % status, step)
                if status == 304:
                    ok = inm == cur_etag or (ims_class == 'date' and ims_t is not None and ts <= ims_t)
                    if not ok and ims_class != 'quirk':
                        self.fail(where + 'unsound-304',
                                  '304 although If-None-Match %r is not the current ETag %r and If-Modified-Since %r does not cover mtime %r'
                                  % (inm, cur_etag, ims, ts), step)
                if status == 304 and inm is not None and inm == etag and self.issued.get((key, inm), (ts, size)) != (ts, size):
                    old = self.issued[(key, inm)]
                    self.fail('etag-collision-stale-304',
                              'the ETag %r was issued for the tile version (mtime %r, size %d); the tile is now (mtime %r, size %d) with '
                              'other bytes, yet If-None-Match with that ETag is answered 304: str(mtime)+str(size) is the same text %r'
                              % (inm, old[0], old[1], ts, size, str(ts) + str(size)), step)
                if status in (200, 304) and etag is not None:
                    self.issued.setdefault((key, etag), (ts, size))
                if (status == 200 and inm != cur_etag and ims_class == 'date' and ims_t is not None and ts and ts <= ims_t):
                    self.fail(where + 'ims-covers-not-304',
                              'If-Modified-Since %r (epoch %d) is not before the tile mtime %r, yet the answer is 200' % (ims, ims_t, ts), step)
                if status == 304 and inm != cur_etag and ims is not None and self.by_cache.get(key):
                    held = [c for c in self.copies[key] if c[0] == ims and c[1] != data]
                    if held:
                        self.fail('hardlink-store-timestamp-backwards-304' if self.app.link == 'hardlink' else 'store-timestamp-not-advanced-304',
                                  'the client holds an earlier version of this tile (Last-modified %r, other bytes); the cache backend '
                                  'itself has stored the tile again since, yet If-Modified-Since with that date is answered 304 '
                                  '(current mtime %r, link mode %r)' % (ims, ts, self.app.link), step)
                if status == 200 and lastmod is not None:
                    self.copies[key].append((lastmod, data))     # the stored version the client's copy was made from
                if ims_class in ('bad', 'oor') and status == 304 and inm != cur_etag:
                    self.fail(where + 'malformed-date-not-ignored', 'malformed If-Modified-Since %r produced 304' % (ims,), step)
                if after[key] != pre:
                    self.fail(where + 'stored-tile-changed', 'a request changed the stored tile', step)
        else:
            if mode == 'fail':
                bad = []
                if status != 200:
                    bad.append('status %d' % status)
                if not nostore:
                    bad.append('no no-store directives')
                if public is not None or etag is not None or lastmod is not None:
                    bad.append('public/validator headers %r %r %r' % (public, etag, lastmod))
                if after[key] != pre:
                    bad.append('the fill image was stored')
                if status == 304:
                    self.fail(where + 'uncacheable-304', 'uncached error fill image answered 304', step)
                elif bad:
                    self.fail('cascade-meta-split-loses-uncacheable' if self.app.cascade == 'meta2' else where + 'uncacheable-public-headers',
                              'uncached error fill image: ' + '; '.join(bad), step)
            elif mode == 'ok' and pre is None:
                if status >= 400:
                    self.fail('ims-date-out-of-range-500' if ims_class == 'oor' else where + 'fresh-tile-error',
                              'fresh tile answered %d (If-Modified-Since %r)' % (status, ims), step)
                if after[key] is not None and after[key] != pre:
                    self.by_cache[key] = True
                if status in (200, 304) and after[key] is not None:
                    # validators of the tile object of the creating request: (time.time(), encoded size); for a tile
                    # stored as a link to a single colour file: lstat of the tile location (repair of C20-L1)
                    fts, fsize = (after[key][0], after[key][1]) if self.app.link else (float(now), len(after[key][2]))
                    fresh_etag = md5hex(str(fts) + str(fsize))
                    if etag != fresh_etag or (lastmod is None and fts):
                        sig = 'linked-fresh-tile-constant-etag-304' if linked_existing else where + 'fresh-validators'
                        self.fail(sig, 'the answer that created the tile carries ETag %r / Last-modified %r; expected the validators of '
                                  '(timestamp %r, size %r): %r' % (etag, lastmod, fts, fsize, fresh_etag), step)
                    if status == 304:
                        ok = inm == fresh_etag or (ims_class == 'date' and ims_t is not None and fts <= ims_t)
                        if not ok and ims_class != 'quirk':
                            self.fail(where + 'unsound-304', '304 for a tile created by this request without matching validator', step)
                if status == 200 and after[key] is None:
                    ctx.problem('harness', 'tile requested with a working upstream was not stored (url mapping?)', step)
                if status == 200 and after[key] is not None and after[key][2] != body and not linked_existing and not cut:
                    self.fail(where + 'fresh-body-differs', 'body of the creating answer differs from the stored tile', step)
            elif mode == 'ok' and refreshing:
                # the refresh rule calls the stored tile stale and the source answers: the tile is written again
                self.by_cache[key] = True
                if status >= 400:
                    self.fail(where + 'refresh-error', 'refreshing request answered %d' % status, step)
                elif after[key] is None or asked == 0:
                    self.fail(where + 'refresh-not-stored', 'stale tile was not fetched / stored again', step)
                else:
                    changed = after[key][2] != pre[2]
                    if changed and after[key][0] <= pre[0]:
                        self.fail('rewrite-keeps-timestamp',
                                  'the tile was replaced by other bytes but the stored timestamp did not advance: %r -> %r (clock %r)'
                                  % (pre[0], after[key][0], float(now)), step)
                    new_ts, new_size = after[key][0], after[key][1]
                    # the stamp of the tile object of this request (as for a creating request)
                    fts, fsize = (new_ts, new_size) if self.app.link else (float(now), len(after[key][2]))
                    justified = inm == md5hex(str(fts) + str(fsize)) or (
                        ims_class in ('date', 'quirk') and (ims_t is None or fts <= ims_t))
                    if status == 304 and changed and not justified:
                        self.fail('refresh-answer-old-timestamp-304',
                                  'this request replaced the stored tile by other bytes and is itself answered 304 '
                                  '(If-None-Match %r, If-Modified-Since %r): its answer carries the timestamp %r of the replaced tile'
                                  % (inm, ims, pre[0]), step)
                    if etag != md5hex(str(fts) + str(fsize)) or lastmod != fmt_date(int(fts // 1)):
                        self.fail('refresh-answer-old-timestamp-304' if lastmod == fmt_date(int(pre[0] // 1)) else where + 'fresh-validators',
                                  'the refreshing answer carries ETag %r / Last-modified %r; expected the validators of the new '
                                  'content (timestamp %r, size %r); replaced tile: timestamp %r' % (etag, lastmod, fts, fsize, pre[0]), step)
                    if status == 200 and body != after[key][2] and not cut:
                        self.fail(where + 'fresh-body-differs', 'body of the refreshing answer differs from the stored tile', step)
        if status in (200, 304) and etag is not None:
            self.validators[key].append((etag, lastmod))

        # ------------------------------------------------------------------ model case
        sib = meta_siblings(key, self.app.meta)
        extras = []
        for k in self.keys:
            if k != key and after[k] != before[k]:
                if (pre is None or refreshing) and mode == 'ok' and k in sib and after[k] is not None:
                    extras.append((k, after[k]))
                # any other change stays unexplained -> the stores disagree -> correspondence problem
        if (pre is None or refreshing) and mode == 'ok' and after[key] is not None:
            ts2, size2, data2 = after[key]
            fts, fsize = (ts2, size2) if self.app.link else (float(now), len(data2))
            self.tab.add(str(fts) + str(fsize))
            try:
                up_l = '(UOk %s %s %s %s)' % (zlit(self.body_id(body if status == 200 else data2)), stamp_lit(fts), zlit(fsize),
                                              self.entry_lit(after[key]))
            except ValueError as e:
                ctx.problem('harness', 'timestamp outside the tick grid: %s' % e, step)
                return status
        elif mode == 'fail':
            up_l = '(%s %s)' % ('UFillStale' if self.app.authorize_stale else 'UFill',
                                zlit(self.body_id(body) if status == 200 and (pre is None or refreshing) else 1))
        else:
            up_l = 'UErr' if mode == 'err' or pre is None else (
                '(UOk 1 %s 1 {| e_ts := %s; e_size := 1; e_body := 1 |})' % (stamp_lit(float(now)), stamp_lit(float(now))))
        inm_l = 'None' if inm is None else '(Some %s)' % codes(self.tab.src(inm))
        ev = '%s %s %d %s %s %s' % ('Refresh' if stale else 'Req', SVC_MODEL[svc], key, inm_l, ims_lit(ims), up_l)
        if status in (200, 304) and not weird:
            ct = 'content-type' in hd
            b_id = None if (status == 304 and not body) else self.body_id(body)
            if cut and b_id is not None and pre is not None and not refreshing and self.masked.get((key, pre[2])) == body:
                b_id = self.body_id(pre[2])       # masked image of the stored tile: the model carries the stored body
            obs = '(Some %s)' % resp_lit(status, b_id, ct, self.tab.src(etag), lastmod_secs(lastmod), public, nostore)
        elif status >= 500:
            obs = '(Some Err500)'
        else:
            obs = 'None'     # cannot be produced by a Req step
        self.emit(before, ev, extras, obs, after, step)
        return status


def gen_ims(rng, pre_ts, validators):
    """(header text, class, intended epoch second)"""
    c = rng.randrange(16)
    base = int(pre_ts // 1) if pre_ts is not None else T0
    if c < 4:
        return None, 'absent', None
    if c < 10:
        t = base + rng.choice([0, 0, 1, -1, 2, -2, 3600, -86400, 10 ** 8, -7200, -18000, 7200, 19800, -19800])
        if rng.random() < 0.08:
            t = rng.choice([1, 631152000, 946684799, 946684800, 1073741824])     # 1970, 1990, end of 1999, 2000, 2004
        if c == 9 and validators:
            lm = rng.choice(validators)[1]
            if lm is not None:
                return lm, 'date', lastmod_secs(lm)
        style = rng.choice(['rfc1123', 'rfc1123', 'rfc1123', 'rfc850', 'asctime'])
        return fmt_date(t, style), 'date', t
    if c < 13:
        from email.utils import parsedate
        text = rng.choice(['garbage', '', 'Thu, 01 Oct 2026', '2026-10-01T00:00:00Z', 'Thu, 32 Foo 2026 00:00:00 GMT',
                           fmt_date(base + 5)[:-13], fmt_date(base + 5).replace(' ', '_'), '0', 'None',
                           fmt_date(base + 5).replace(':', ';'), fmt_date(base + 5)[5:11]])
        # "malformed" is what the stdlib parser rejects; anything it accepts has no oracle expectation (quirk)
        return text, ('bad' if parsedate(text) is None else 'quirk'), None
    if c == 13:
        # dates before 1970 (read as written since the repair of C20-L4: they lie before the epoch), and one with
        # out-of-range day / time fields that parsedate lets through (no expectation: quirk)
        text, t = rng.choice([('Thu, 01 Jan 1960 00:00:00 GMT', -315619200), ('Wed, 31 Dec 1969 23:59:59 GMT', -1),
                              ('Thu, 01 Oct 69 00:00:00 GMT', -7948800), ('Thu, 01 Oct 100 00:00:00 GMT', -58987872000),
                              ('Thu, 45 Oct 2026 99:99:99 GMT', None)])
        return text, ('date' if t is not None else 'quirk'), t
    if c == 14:
        return rng.choice(['Thu, 01 Oct 10000 00:00:00 GMT', 'Fri, 01 Jan 12345678901234567890 00:00:00 GMT']), 'oor', None
    return fmt_date(4102444800), 'date', 4102444800


def sized_png(color, size):
    base = make_png(color)
    if size is None or size == len(base):
        return base
    pad = size - len(base) - 20
    if pad < 0:
        raise ValueError('cannot build a PNG of %d bytes' % size)
    return make_png(color, pad)


def run_script(ctx, hist, up, script):
    """corpus replay: a fixed history.  ops: rewrite(key,color,size,mtime) / remove(key) /
    request(svc,key,mode,inm,ims); inm 'last' = the ETag of the previous answer for that key"""
    now = 1760000000
    for op in script:
        now += 1
        if op['op'] == 'rewrite':
            hist.do_rewrite(op['key'], sized_png(tuple(op.get('color', (1, 2, 3))), op.get('size')), Fraction(op['mtime']))
        elif op['op'] == 'remove':
            hist.do_remove(op['key'])
        elif op['op'] == 'store':
            hist.do_store(op['key'], tuple(op['color']))
        elif op['op'] == 'sleep':
            real_time.sleep(op['seconds'])
        elif op['op'] == 'touch_reference':
            os.utime(hist.app.ref, (op['mtime'], op['mtime']))
            now += 5
        else:
            key = op['key']
            inm = op.get('inm')
            if inm == 'last':
                inm = hist.validators[key][-1][0] if hist.validators[key] else None
            ims = op.get('ims')
            if ims == 'last':
                ims = hist.validators[key][-1][1] if hist.validators[key] else None
            from email.utils import parsedate
            cls = 'absent' if ims is None else ('bad' if parsedate(ims) is None else 'quirk')
            t = None
            if ims is not None and 'GMT' in ims and ' 1' in ims and ims.split()[3].isdigit() and int(ims.split()[3]) > 9999:
                cls = 'oor'
            elif ims is not None and lastmod_secs(ims) is not None and lastmod_secs(ims) not in (-999999, -999998, -999997):
                cls, t = 'date', lastmod_secs(ims)
            if 'color' in op:
                up.color = tuple(op['color'])
            ov = op.get('overlap')
            hist.do_request(op.get('svc', 'tms'), key, op.get('mode', 'ok'), inm, ims, cls, t, now,
                            overlap=(ov['svc'], tuple(ov['color']), ov.get('where', 'lock')) if ov else None)


def run_history(ctx, cache_type, meta, hours, nsteps, up, clock, script=None, link=None, tz=None, refresh=False, two=False,
                auth=False, opts=None):
    rng = ctx.rng
    label = '%s,meta=%d,max_age=%dh%s%s%s%s' % (cache_type, meta, hours, ',link=' + link if link else '', ',TZ=' + tz if tz else '',
                                              ',refresh_before' if refresh else '', ',two sources' if two else '')
    if auth:
        label += ',authorize partial/limited_to'
    if opts:
        label += ',' + ','.join(sorted(k for k in opts if opts[k]))
    app = App(ctx, cache_type, meta, hours, link, refresh, two, auth, opts)
    up.two = two
    up.partial = bool((opts or {}).get('partial'))
    hist = History(ctx, app, up, clock, label)
    if script is not None:
        run_script(ctx, hist, up, script)
        return hist
    hot = [0, 1, 6, 15, 5]      # 0,1 (and 5) share a 2x2 meta tile; 6 and 15 are in two other meta tiles
    now = 1760000000 + rng.randrange(0, 1000)     # the cache's clock: later than every mtime the harness gives to rewrites
    colors = [(0, 200, 0), (10, 20, 250), (250, 250, 0), (5, 5, 5), (200, 0, 200)]
    mtime_base = 1750000000 + rng.randrange(0, 10 ** 6)
    last_key = None
    for i in range(nsteps):
        now += rng.choice([0, 0.125, 0.5, 1, 1, 7, 3600])
        c = rng.random()
        key = rng.choice(hot)
        if last_key is not None and rng.random() < 0.5:
            key = last_key
        pre = hist.store[key]
        if refresh and rng.random() < 0.12:
            # the operator touches the refresh_before reference file: everything stored up to that time is stale
            stored = [hist.store[k][0] for k in hot if hist.store[k] is not None]
            r = int(max(stored)) if stored and rng.random() < 0.7 else (int(min(stored)) if stored else 5)
            os.utime(app.ref, (r, r))
            now += 2
            hist.log.append({'event': 'touch refresh_before reference', 'mtime': r})
            ctx.count('app:event=expire')
        if refresh:
            now += 1
        if cache_type == 'file' and (link or rng.random() < 0.15) and c < 0.12:
            # the backend itself writes the tile again, in one of a few colours (shared single-colour files get reused)
            hist.do_store(key, rng.choice(colors[:3]))
            ctx.count('app:event=store_tile')
            last_key = key
            continue
        if c < 0.14:
            up.color = rng.choice(colors)
            data = make_png(rng.choice(colors), rng.choice([0, 0, 1, 2, 9, 30, 300]))
            kind = rng.randrange(6)
            if cache_type == 'file':
                if pre is not None and kind == 0:
                    mtime = Fraction(pre[0]) + Fraction(rng.choice([1, 2, 7]), 8)       # a little later
                elif pre is not None and kind == 1:
                    mtime = Fraction(pre[0]) - rng.choice([1, 3600])                    # older file copied over it
                elif pre is not None and kind == 2:
                    mtime = Fraction(int(pre[0] // 1))                                  # start of the same second
                else:
                    mtime_base += rng.choice([1, 2, 60])
                    mtime = Fraction(mtime_base) + Fraction(rng.randrange(8), 8)
            else:
                if pre is not None and kind == 0:
                    mtime = Fraction(pre[0]) + 1
                elif pre is not None and kind == 1:
                    mtime = Fraction(pre[0]) - rng.choice([1, 3600])
                elif pre is not None and kind == 2:
                    mtime = Fraction(pre[0])                                            # same second, new bytes
                else:
                    mtime_base += rng.choice([1, 2, 60])
                    mtime = Fraction(mtime_base)
            # an external writer cannot stamp a file later than "now": the file system's real clock for file caches, the
            # cache's (shimmed) clock for sqlite - otherwise a later store by the cache itself would look older
            limit = Fraction(real_time.time()) - Fraction(1, 20) if cache_type == 'file' else Fraction(int(now))
            if mtime > limit:
                mtime_base += rng.choice([1, 2, 60])
                mtime = Fraction(mtime_base) + (Fraction(rng.randrange(8), 8) if cache_type == 'file' else 0)
            hist.do_rewrite(key, data, mtime)
            ctx.count('app:event=rewrite')
            last_key = key
            continue
        if c < 0.22:
            hist.do_remove(key)
            ctx.count('app:event=remove')
            continue
        svc = rng.choice(SERVICES[:4] if auth else SERVICES)      # with limited_to a GetMap is always a merged image
        mode = rng.choice(['ok', 'ok', 'ok', 'ok', 'fail', 'fail', 'err'])
        if mode == 'err' and refresh and meta > 1:
            # the meta tile path has no stale fallback for a SourceError (500 for a stale stored tile): expiry behaviour (C13)
            mode = 'fail'

        if mode == 'ok':
            up.color = rng.choice(colors[:3] if link else colors)
        vals = hist.validators[key]
        k2 = rng.randrange(10)
        if k2 < 3:
            inm = None
        elif k2 < 6 and pre is not None:
            inm = md5hex(str(pre[0]) + str(pre[1]))          # current
        elif k2 < 8 and vals:
            inm = rng.choice(vals)[0]                          # handed out earlier (maybe for an older version)
        elif k2 == 8:
            inm = rng.choice([NONE_ETAG, 'garbage', '', '-1', '"%s"' % NONE_ETAG])
        else:
            other = [v for kk in hot if kk != key for v in hist.validators[kk]]
            inm = rng.choice(other)[0] if other else None
        ims, ims_class, ims_t = gen_ims(rng, pre[0] if pre is not None else float(now), vals)
        overlap = None
        if refresh and cache_type == 'file' and pre is not None and app.is_stale(pre) and mode == 'ok' and rng.random() < 0.5:
            # two overlapping requests for the stale tile: this one waits for the lock while the other refreshes it
            overlap = (rng.choice(SERVICES), rng.choice(colors), 'lock')
            ctx.count('app:schedule=overlap')
        elif pre is None and mode == 'ok' and not auth and not link and not (opts or {}).get('cascade') and not (opts or {}).get('passthrough') and rng.random() < 0.3:
            # two overlapping requests for a missing tile: the other one creates it after this one looked for it
            # ('load') or while this one waits for the tile lock ('lock')
            overlap = (rng.choice(SERVICES), up.color, rng.choice(['lock', 'load']))
            ctx.count('app:schedule=overlap-missing-' + overlap[2])
        st = hist.do_request(svc, key, mode, inm, ims, ims_class, ims_t, now, overlap=overlap)
        if ims_class in ('bad', 'oor') and st is not None:
            # the twin request without the header: a malformed date must make no difference
            tw_before = hist.store[key]
            a = hist.log[-1]
            if tw_before is not None and pre is not None and tw_before == pre:
                hist.do_request(svc, key, mode, inm, None, 'absent', None, now)
                b = hist.log[-1]
                if (a['status'], a['etag'], a['last_modified'], a['body_len']) != (b['status'], b['etag'], b['last_modified'], b['body_len']):
                    sig = 'ims-date-out-of-range-500' if (ims_class == 'oor' and a['status'] >= 500) else 'malformed-date-not-ignored'
                    hist.fail(sig, 'If-Modified-Since %r changes the answer: %r with the header, %r without'
                              % (ims, (a['status'], a['etag']), (b['status'], b['etag'])), a)
        last_key = key
    return hist


def run_merged_wmsc(ctx, up, clock):
    """tiled GetMap (WMS-C) that is merged from the tiles of two cached layers: whatever validators the answer carries
    must not produce 304 once the tile of ANY of the layers was rewritten; model: WMSServer.map with a merged result
    (cacheable is the merger's bool): no cache headers, never conditional."""
    import yaml
    from mapproxy.wsgiapp import make_wsgi_app
    from mapproxy.cache.tile import Tile
    from webtest import TestApp
    rng = ctx.rng
    base = ctx.tmpdir('merged')
    conf = {'globals': {'cache': {'base_dir': base + '/c', 'lock_dir': base + '/l', 'tile_lock_dir': base + '/t',
                                  'meta_size': [1, 1], 'meta_buffer': 0}},
            'services': {'wms': {}, 'tms': {}},
            'layers': [{'name': 'a', 'title': 'a', 'sources': ['ca']}, {'name': 'b', 'title': 'b', 'sources': ['cb']}],
            'caches': {'ca': {'grids': ['GLOBAL_MERCATOR'], 'sources': ['ua']}, 'cb': {'grids': ['GLOBAL_MERCATOR'], 'sources': ['ub']}},
            'sources': {'ua': {'type': 'wms', 'req': {'url': 'http://up.invalid/a', 'layers': 'a', 'transparent': True}},
                        'ub': {'type': 'wms', 'req': {'url': 'http://up.invalid/b', 'layers': 'b', 'transparent': True}}}}
    with open(base + '/m.yaml', 'w') as f:
        yaml.safe_dump(conf, f)
    wsgi = make_wsgi_app(base + '/m.yaml')
    app = TestApp(wsgi)
    layers = wsgi.handlers['tms'].layers
    tms = {name.split('_')[0]: tl.tile_manager for name, tl in layers.items()}
    up.two, up.mode, up.partial = False, 'ok', False
    terms, descr = [], []
    bodies = {}
    for it in range(ctx.n(6, 40)):
        key = rng.choice([0, 5, 6, 15, 9, 3])
        x, y = key % NK, key // NK
        bb = tms['a'].grid.tile_bbox((x, y, LEVEL))
        url = ('/service?service=WMS&request=GetMap&version=1.1.1&layers=a,b&styles=&srs=EPSG:900913&format=image/png'
               '&width=256&height=256&tiled=true&transparent=true&bbox=%r,%r,%r,%r' % bb)
        log = []

        def get(headers=None):
            clock.now += 1
            r = app.get(url, headers=headers or {}, expect_errors=True)
            hd = {}
            for k_, v_ in r.headerlist:
                hd.setdefault(k_.lower(), v_)
            public, nostore, weird = cache_control_obs(r.headerlist)
            rec = {'request': 'GetMap layers=a,b tiled=true key %d' % key, 'headers': headers or {}, 'status': r.status_int,
                   'etag': hd.get('etag'), 'last_modified': hd.get('last-modified'),
                   'cache_control': [v for k_, v in r.headerlist if k_.lower() == 'cache-control'],
                   'body_md5': hashlib.md5(r.body).hexdigest()}
            log.append(rec)
            # model case: merged result, cacheable = True (bool)
            inm, ims = (headers or {}).get('If-None-Match'), (headers or {}).get('If-Modified-Since')
            if r.status_int in (200, 304) and not weird:
                b_id = None if (r.status_int == 304 and not r.body) else bodies.setdefault(r.body, len(bodies) + 10)
                obs = resp_lit(r.status_int, b_id, 'content-type' in hd, None if hd.get('etag') is None else '?' + hd['etag'],
                               lastmod_secs(hd.get('last-modified')), public, nostore)
                terms.append('(%s, %s, %s, %s)' % (zlit(b_id if b_id is not None else 0),
                                                   'None' if inm is None else '(Some %s)' % codes('?' + inm), ims_lit(ims), obs))
                descr.append(rec)
            ctx.case(('merged', it, len(log)), True, rec if headers else None)
            ctx.count('merged-wmsc:status=%d' % r.status_int)
            return r, hd
        up.color = rng.choice([(0, 200, 0), (10, 20, 250), (250, 250, 0)])
        get()
        r1, h1 = get()
        # the tile of one layer is rewritten (other bytes, later mtime)
        which = rng.choice(['a', 'a', 'b'])
        p = tms[which].cache.tile_location(Tile((x, y, LEVEL)))
        if not os.path.exists(p):
            ctx.problem('harness', 'merged WMS-C: the tile of layer %s was not stored' % which, {'path': p})
            continue
        data = make_png(rng.choice([(200, 0, 200), (5, 5, 5)]), rng.choice([0, 3, 40]))
        with open(p + '.h', 'wb') as f:
            f.write(data)
        os.rename(p + '.h', p)
        log.append({'event': 'tile of layer %s rewritten' % which, 'size': len(data)})
        r_now, _ = get()
        cond = {}
        if h1.get('etag'):
            cond['If-None-Match'] = h1['etag']
        if h1.get('last-modified'):
            cond['If-Modified-Since'] = h1['last-modified']
        if not cond:
            cond = {'If-None-Match': NONE_ETAG, 'If-Modified-Since': fmt_date(4102444800)}
        r2, _ = get(cond)
        if r2.status_int == 304 and r_now.body != r1.body:
            ctx.fail('merged-wmsc-stale-304',
                     'tiled GetMap of two cached layers: the tile of layer %r was rewritten (the merged image changed), yet the '
                     'validators handed out before (%r) are answered 304' % (which, cond), {'history': log})
        elif r2.status_int == 200 and r2.body != r_now.body:
            ctx.fail('merged-wmsc-unstable', 'two answers for the same merged tile differ', {'history': log})
    ctx.corr_check('wmsc_merged', 'Cond', 'Z * option str * imsval * outcome', terms,
                   "fun c => let '(b, inm, ims, obs) := c in outcome_eqb (serve_wms (fun s => s) %d (Some 259200) true (WBool true) b inm ims) obs" % TPS,
                   lambda i: descr[i])


class TimeZone:
    """run a block with another process time zone (os.environ['TZ'] + time.tzset()), restored afterwards"""

    def __init__(self, tz):
        self.tz = tz

    def __enter__(self):
        self.saved = os.environ.get('TZ')
        os.environ['TZ'] = self.tz
        real_time.tzset()

    def __exit__(self, *a):
        if self.saved is None:
            os.environ.pop('TZ', None)
        else:
            os.environ['TZ'] = self.saved
        real_time.tzset()


def run_tz_direct(ctx, tz):
    """parse_httpdate / make_conditional directly, in the zone that is active now: an HTTP date names one instant"""
    from mapproxy.util.times import parse_httpdate
    from mapproxy.response import Response
    rng = ctx.rng
    terms, descr = [], []
    for i in range(ctx.n(40, 400)):
        t = rng.choice([T0, 1234567890, 1750000000, 1719800000, 1711846800, 1699167600]) + rng.randrange(-90000, 90000)
        text = fmt_date(t, rng.choice(['rfc1123', 'rfc1123', 'rfc850', 'asctime']))
        try:
            got = parse_httpdate(text)
        except Exception as e:  # noqa
            got = 'raised ' + type(e).__name__
        ctx.case(('tzdate', tz, text), True, None)
        ctx.count('tz:' + tz)
        if got != t:
            ctx.fail('httpdate-not-gmt', 'TZ=%s: parse_httpdate(%r) = %r, the date names epoch second %d' % (tz, text, got, t),
                     {'TZ': tz, 'text': text, 'parse_httpdate': got, 'expected': t})
        terms.append('(%s, %s)' % (ims_lit(text), '(Some (PSome %s))' % zlit(got) if isinstance(got, int) else 'None'))
        descr.append({'TZ': tz, 'text': text, 'parse_httpdate': got})
        # a tile modified at ts, a client copy that is `delta` seconds older / newer
        ts = t + rng.choice([0.0, 0.25, 0.5])
        delta = rng.choice([-19800, -18000, -7200, -3600, -1, 0, 1, 3600, 18000, 19800])
        ims = fmt_date(int(ts // 1) + delta)
        r = Response(b'x', content_type='image/png')
        try:
            r.cache_headers(ts, etag_data=(ts, 5), max_age=60)
            r.make_conditional(FakeReq({'HTTP_IF_MODIFIED_SINCE': ims}))
            st = int(r.status.split()[0])
        except Exception as e:  # noqa
            st = 599
        want = 304 if ts <= int(ts // 1) + delta else 200
        if st != want:
            ctx.fail('unsound-304' if st == 304 else 'ims-covers-not-304',
                     'TZ=%s: content modified at %r, If-Modified-Since %r: answered %d, expected %d' % (tz, ts, ims, st, want),
                     {'TZ': tz, 'timestamp': ts, 'if_modified_since': ims, 'status': st})
    ctx.corr_check('httpdate_tz_' + tz.split('/')[1], 'Cond', 'imsval * option parsed', terms,
                   "fun c => match snd c with Some p => parsed_eqb (parse_httpdate (fst c)) p | None => false end",
                   lambda i: descr[i])


CHECKER = ("fun c => let '(st, ev, extras, obs, st2) := c in "
           "let '(st1, o) := step (fun s => s) %d (Some %%d) st ev in "
           "let st1' := fold_left (fun s ke => update s (fst ke) (snd ke)) extras st1 in "
           "opt_eqb outcome_eqb o obs && store_agree %s st1' st2" % (TPS, llit(range(NK * NK))))


# a cache without storage on a storing cache: the same case format, evaluated by step_passthrough (store = lower cache;
# the Tile object of the upper request comes from DummyCache: cacheable, no timestamp, no size)
CHECKER_PT = CHECKER.replace('step (fun s => s)',
                             'step_passthrough (fun s => s)').replace(
                                 ' st ev in', ' {| ti_cacheable := true; ti_ts := None; ti_size := None |} st ev in')


def run_app_stream(ctx):
    import mapproxy.client.http as H
    import mapproxy.cache.base as CB
    import mapproxy.cache.mbtiles as CM
    import logging
    up, clock = Upstream(), Clock()
    saved = (H.HTTPClient.open, CB.time, CM.time)
    logging.disable(logging.CRITICAL)
    H.HTTPClient.open = lambda self, url, data=None, method=None: up.open(self, url, data, method)
    CB.time = clock
    CM.time = clock
    try:
        configs = [('file', 1, 72), ('sqlite', 1, 72), ('file', 2, 1), ('sqlite', 2, 1)]
        if not ctx.quick:
            configs += [('file', 1, 1), ('sqlite', 2, 72), ('file', 2, 72), ('sqlite', 1, 1)]
        nsteps = ctx.n(70, 500)
        # corpus first
        cdir = os.path.join(VERIF, 'corpus', 'C20')
        for fn in sorted(os.listdir(cdir)) if os.path.isdir(cdir) else []:
            if not fn.endswith('.json'):
                continue
            c = json.load(open(os.path.join(cdir, fn)))
            hist = run_history(ctx, c['cache'], c.get('meta', 1), c.get('hours', 72), 0, up, clock, script=c['script'],
                               link=c.get('link'), refresh=c.get('refresh', False), two=c.get('two', False),
                               auth=c.get('auth', False), opts=c.get('opts'))
            hist.label = 'corpus/' + fn
            ctx.count('app:corpus')
            ctx.corr_check('corpus_' + fn[:-5].replace('-', '_'), 'Cond',
                           'store * event * list (Z * entry) * option outcome * store', hist.terms,
                           (CHECKER_PT if (c.get('opts') or {}).get('passthrough') else CHECKER) % (c.get('hours', 72) * 3600),
                           lambda i, h=hist: h.descr[i], shard=60)
        for cache_type, meta, hours in configs:
            hist = run_history(ctx, cache_type, meta, hours, nsteps, up, clock)
            ctx.corr_check('app_%s_meta%d_%dh' % (cache_type, meta, hours), 'Cond',
                           'store * event * list (Z * entry) * option outcome * store', hist.terms,
                           CHECKER % (hours * 3600), lambda i, h=hist: h.descr[i], shard=60)
        # file caches with link_single_color_images (every tile of the synthetic upstream is uniform)
        for link in ('symlink', 'hardlink'):
            hist = run_history(ctx, 'file', 1, 72, ctx.n(50, 400), up, clock, link=link)
            ctx.corr_check('app_file_%s' % link, 'Cond',
                           'store * event * list (Z * entry) * option outcome * store', hist.terms,
                           CHECKER % (72 * 3600), lambda i, h=hist: h.descr[i], shard=60)
        # refresh rule on the single tile path (sqlite and file), and a cache with two sources one of which fails
        for cache_type, refresh, two in (('sqlite', True, False), ('file', True, False), ('file', False, True), ('sqlite', False, True)):
            hist = run_history(ctx, cache_type, 2 if two and cache_type == 'sqlite' else 1, 72, ctx.n(45, 400), up, clock,
                               refresh=refresh, two=two)
            ctx.corr_check('app_%s_%s' % (cache_type, 'refresh' if refresh else 'two_sources'), 'Cond',
                           'store * event * list (Z * entry) * option outcome * store', hist.terms,
                           CHECKER % (72 * 3600), lambda i, h=hist: h.descr[i], shard=60)
        up.two = False
        # authorization callback that limits the layer to an area cutting some tiles partly (masked answers)
        for cache_type in ('file', 'sqlite'):
            hist = run_history(ctx, cache_type, 1, 72, ctx.n(45, 400), up, clock, auth=True)
            ctx.corr_check('app_%s_limited_to' % cache_type, 'Cond',
                           'store * event * list (Z * entry) * option outcome * store', hist.terms,
                           CHECKER % (72 * 3600), lambda i, h=hist: h.descr[i], shard=60)
        # on_error with authorize_stale under a refresh rule (stale tiles served during an outage), and a source that
        # post-processes its images (transparent_color)
        for cache_type, refresh, opts in (('file', True, {'authorize_stale': True}), ('sqlite', True, {'authorize_stale': True}),
                                          ('file', False, {'tcolor': True})):
            hist = run_history(ctx, cache_type, 1, 72, ctx.n(35, 300), up, clock, refresh=refresh, opts=opts)
            ctx.corr_check('app_%s_%s' % (cache_type, '_'.join(sorted(opts))), 'Cond',
                           'store * event * list (Z * entry) * option outcome * store', hist.terms,
                           CHECKER % (72 * 3600), lambda i, h=hist: h.descr[i], shard=60)
        # refresh rule with 2x2 meta tiles (the refreshed tile comes back as a new Tile object), cascaded caches
        for cache_type, refresh, meta, opts in (('file', True, 2, None), ('sqlite', True, 2, None),
                                                ('file', False, 1, {'cascade': 'meta1'}), ('file', False, 1, {'cascade': 'meta2'}),
                                                ('file', False, 1, {'watermark': True}), ('file', False, 1, {'cascade': 'srs'}),
                                                ('file', False, 2, {'bulk': True})):
            hist = run_history(ctx, cache_type, meta, 72, ctx.n(35, 300), up, clock, refresh=refresh, opts=opts)
            ctx.corr_check('app_%s_%s' % (cache_type, 'refresh_meta2' if refresh else '_'.join('%s_%s' % kv for kv in sorted(opts.items()))), 'Cond',
                           'store * event * list (Z * entry) * option outcome * store', hist.terms,
                           CHECKER % (72 * 3600), lambda i, h=hist: h.descr[i], shard=60)
        run_merged_wmsc(ctx, up, clock)
        # the same code in other time zones (HTTP dates are GMT whatever the zone of the process)
        for tz in ('America/New_York', 'Asia/Kolkata'):
            with TimeZone(tz):
                run_tz_direct(ctx, tz)
                hist = run_history(ctx, 'file', 1, 72, ctx.n(35, 300), up, clock, tz=tz)
                ctx.corr_check('app_tz_%s' % tz.split('/')[1], 'Cond',
                               'store * event * list (Z * entry) * option outcome * store', hist.terms,
                               CHECKER % (72 * 3600), lambda i, h=hist: h.descr[i], shard=60)
    finally:
        H.HTTPClient.open, CB.time, CM.time = saved
        logging.disable(logging.NOTSET)


def run(ctx):
    try:
        run_resp_stream(ctx)
    except Exception as e:  # noqa
        import traceback
        ctx.problem('harness', 'Response stream crashed: %r' % (e,), traceback.format_exc())
    try:
        run_date_stream(ctx)
    except Exception as e:  # noqa
        import traceback
        ctx.problem('harness', 'date stream crashed: %r' % (e,), traceback.format_exc())
    try:
        run_app_stream(ctx)
    except Exception as e:  # noqa
        import traceback
        ctx.problem('harness', 'application stream crashed: %r' % (e,), traceback.format_exc())
