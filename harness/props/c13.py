"""C13  Expiry rules decide precisely which tiles are refreshed.

Model: coq/theories/Expiry.v, lemmas: Expiry_proofs.v, theorems: coq/props/P_C13.v.

Tie (correspondence): a real TileManager (mapproxy/cache/tile.py) over a real FileCache / MBTilesCache(with_timestamps)
/ MBTilesLevelCache ("sqlite") with a synthetic upstream source is driven through generated *histories*: requests
(load_tile_coords), direct is_cached / is_stale probes, clock changes (the clock the code reads is replaced: `time`
in cache/mbtiles.py and cache/base.py, `datetime` in util/times.py), threshold changes (_refresh_before with
time / mtime / weeks..seconds, _expire_timestamp as a seed task sets it), changes of the mtime of the reference file,
and scripted upstream outcomes (image cacheable or not / authorize_stale, SourceError, BlankImage).  Tile timestamps
are set explicitly (os.utime with nanoseconds on tile files, UPDATE of last_modified rows).  Observed: result of every
request (content of every served tile or the exception class), probe answers, the upstream log (which tiles every
upstream request covered) and the final cache (content and timestamp of every tile).  Coq evaluates Expiry.run on the
same history with vm_compute and compares everything.

Oracle (independent of the model): the property statement on what the implementation did, request by request.
"""
import calendar
import datetime as _datetime
import json
import os
import sqlite3
import time as _time

from common import VERIF, blit, llit, olit, zlit

ID = 'C13'
TECHNIQUE = ('Coq proof over an executable model of is_cached/is_stale/expire_timestamp/_create_single_tile/_create_meta_tile '
             '+ correspondence check of the model against the real TileManager over file, mbtiles and sqlite caches; the decision kernels of is_cached/is_stale/expire_timestamp/before_timestamp_from_options are regenerated from the source by the ast translator (Gen_expiry.v) and proved equal to the model')
LEVEL_TEXT = ('Theorems over the Gallina model Expiry.v for every cache state, clock value, threshold kind (absolute, relative, '
              'mtime of a file), upstream script and request list (unbounded), single-tile and meta-tile creation; every '
              'reachable state of a history is such a state.  The model is tied to mapproxy/cache/tile.py, seed/config.py, '
              'util/times.py, cache/file.py, cache/mbtiles.py by running generated histories on the real TileManager with a '
              'controlled clock and comparing results, upstream log and final cache with the model evaluated by vm_compute.')
LEVEL_NOTE = ('Trusted: Coq kernel, the hand-written model Expiry.v, the correspondence harness (clock replacement, re-stamping '
              'of tile files written during a request with the simulated instant, decoding of tile colours).  Time is exact in '
              'quarter seconds; float rounding of time.time() and DST handling of mktime are not modelled (TZ=UTC).  Requests '
              'with duplicate or None coordinates, minimize_meta_requests, rescale_tiles, the mbtiles ttl option, '
              'link_single_color_images: hardlink (shared inode mtime; oracle-only scenario, known finding), cascaded caches (a cache with '
              'a limited extent as source of another cache, uncacheable upstream answer during a refresh; oracle-only scenario) and concurrent '
              'writers are outside the model.  Histories run under TZ UTC, EST-5 and WST5, with and without a pre_store_filter, '
              'over plain and symlinked single colour file caches, with response bodies that break while they are read, with one or two '
              'merged sources (the overlay answering with its uncacheable on_error placeholder), refresh_before time as string or as '
              'datetime object, requests that wait for the tile lock while another request completes (ERace), and a separate stream '
              'for bulk_meta_tiles managers (run_bulk; step-level theorems only, not part of the history theorems), and a stream '
              'that loads mapproxy.yaml files with multi-grid caches through the real configuration loader (cache_managers).  Part of '
              'the histories use a real WMSSource (transparent_color, on_error handlers for 500/502/503) around a scripted HTTP '
              'client, requests with dimensions on file caches, and a symlinked mtime reference file.')
DESIGN_REF = 'DESIGN.md section 5, C13'
RULE = ('case = one history (backend, meta mode, initial cache with timestamps, rule, clock, upstream script, 5-14 events); '
        'non-trivial = at least one request that meets a stale or missing tile and one request that meets a fresh tile, or an '
        'upstream failure; distinct by full history')
TRUSTED = ['model Expiry.v hand-written from cache/tile.py, seed/config.py, util/times.py; tie = differential run of the real '
           'TileManager over real caches vs the model on generated histories',
           'clock control: module attributes `time` (cache/mbtiles.py, cache/base.py) and `datetime` (util/times.py) are replaced '
           'by shims; files written by a request are re-stamped with the simulated instant afterwards']
ASSUMPTIONS = ['the clock does not change inside one request', 'no other process writes the cache during a request',
               'time zone without DST transitions (mktime unambiguous); UTC, UTC+5 and UTC-5 are exercised', 'requests contain no duplicate and no None coordinate',
               'timestamps are non-negative (after 1970)']
EXPLANATION = ('staleness decision, refetch, fresh-hit, stale fallback and convergence proved for all states; implementation driven '
               'through histories with boundary-biased timestamps (equal second, fractional mtimes, relative thresholds)')

Q = 4                      # ticks per second
BASE = 1000000000          # simulated epoch second around which everything happens
TS = 4                     # tile size in pixels
INIT = 1 << 20             # content ids of initial tiles
EXTENT = 32
RES = [8, 4, 2]            # 1x1, 2x2, 4x4 tiles
META = (2, 2)
REAL_PAST = 1500000000     # any mtime above this was written by the kernel clock during a request
FILTER = 1 << 19           # what the pre_store_filter adds to the content of a created tile
OLD_COLOUR_FILE = (BASE - 1000) * Q   # stamp of the shared files of linked single colour tiles (written "long ago")
WMS_STATUS = {(False, False): 500, (False, True): 503, (True, True): 502}
WMS_COLOUR = {500: (1 << 23) + 500, 503: (1 << 23) + 503, 502: (1 << 23) + 502}   # colours of the on_error images
DIMS = {'TIME': '2020-02-02', 'ELEVATION': '7'}
ZONES = ['UTC', 'EST-5', 'WST5']      # POSIX TZ strings: UTC, UTC+5, UTC-5 (no DST: mktime is unambiguous)

SIG_STALE = 'stale-tile-not-refetched'
SIG_FRESH = 'upstream-request-not-caused-by-a-missing-or-stale-requested-tile'
SIG_DESTROY = 'old-tile-destroyed-or-changed-without-successful-refresh'
SIG_FALLBACK = 'failed-refresh-did-not-serve-old-tile'
SIG_SERVED = 'served-content-wrong'
SIG_CONVERGE = 'refreshed-tile-still-stale'
SIG_PROBE = 'is_cached-is_stale-answer-wrong'
SIG_CRASH = 'unexpected-exception'
SIG_LINK = 'linked-single-colour-tile,refresh-with-same-colour-keeps-old-timestamp'
SIG_RECHECK = 'recheck-under-lock-refetches-refreshed-tile,backend='
SIG_LOADER = 'cache-refresh_before-not-in-force-for-every-grid'
SIG_HARDLINK = 'hardlink-single-colour-tile,same-colour-re-store-never-fresh'
SIG_SEED = 'seed-task-did-not-refetch-stale-tile'
SIG_SEED_WALK = 'seed-task-did-not-examine-every-meta-tile'


def enc_colour(v):
    return ((v >> 16) & 255, (v >> 8) & 255, v & 255)


def dec_image(img):
    img = img.convert('RGB')
    cols = img.getcolors(4)
    if not cols or len(cols) != 1:
        return -2
    r, g, b = cols[0][1]
    return (r << 16) | (g << 8) | b


def grid_size(z):
    n = EXTENT // (TS * RES[z])
    return n, n


def universe():
    out = []
    for z in range(len(RES)):
        gw, gh = grid_size(z)
        for y in range(gh):
            for x in range(gw):
                out.append((x, y, z))
    return out


def my_members(meta, c):
    """the harness's own arithmetic: tiles of the meta tile that contains c"""
    if not meta:
        return [c]
    x, y, z = c
    gw, gh = grid_size(z)
    mw, mh = min(META[0], gw), min(META[1], gh)
    x0, y0 = x - x % mw, y - y % mh
    return sorted((i, j, z) for i in range(x0, x0 + mw) for j in range(y0, y0 + mh) if i < gw and j < gh)


# ----------------------------------------------------------------------------- clock shims

class Clock(object):
    ticks = BASE * Q


class FakeTime(object):
    def __init__(self, clock):
        self._clock = clock

    def time(self):
        return self._clock.ticks / float(Q)

    def __getattr__(self, name):
        return getattr(_time, name)


def make_fake_datetime(clock):
    class DT(_datetime.datetime):
        @classmethod
        def now(cls, tz=None):
            t = (_datetime.datetime(1970, 1, 1, tzinfo=_datetime.timezone.utc)
                 + _datetime.timedelta(microseconds=clock.ticks * (1000000 // Q)))
            if tz is not None:
                return t.astimezone(tz)
            return t.astimezone().replace(tzinfo=None)      # naive local wall clock, as datetime.now() gives

    class Mod(object):
        datetime = DT
        timedelta = _datetime.timedelta

        def __getattr__(self, name):
            return getattr(_datetime, name)
    return Mod()


class Patched(object):
    """replace the clock the implementation reads"""

    def __init__(self, clock):
        self.clock = clock
        self.saved = []

    def __enter__(self):
        import mapproxy.cache.mbtiles as mb
        import mapproxy.cache.base as cb
        import mapproxy.util.times as tm
        ft = FakeTime(self.clock)
        for mod, name, val in ((mb, 'time', ft), (cb, 'time', ft), (tm, 'datetime', make_fake_datetime(self.clock))):
            self.saved.append((mod, name, getattr(mod, name)))
            setattr(mod, name, val)
        return self

    def __exit__(self, *a):
        for mod, name, val in self.saved:
            setattr(mod, name, val)


# ----------------------------------------------------------------------------- world

def outcome_of(script, k):
    oc = tuple(script[k]) if k < len(script) else ('ok', True, False, k)
    if oc[0] == 'ok' and len(oc) < 4:
        oc = oc + (k,)
    return oc


def broken_source(opts):
    """200 OK with image headers, wrapped unread in an ImageSource; the body breaks when it is read"""
    import http.client
    import io
    from mapproxy.image import ImageSource

    class BrokenImageSource(ImageSource):
        def as_buffer(self, *a, **kw):
            raise http.client.IncompleteRead(b'')

        def as_image(self):
            raise http.client.IncompleteRead(b'')

    return BrokenImageSource(io.BytesIO(b''), size=None, image_opts=opts, cacheable=True)


def make_filter(opts):
    """a pre_store_filter of the watermark kind: the tile gets a brand new ImageSource (cacheable defaults to True)"""
    def tile_filter(tile):
        from mapproxy.image import ImageSource
        from PIL import Image
        img = tile.source.as_image()
        tile.source = ImageSource(Image.new('RGB', img.size, enc_colour(dec_image(img) + FILTER)), image_opts=opts)
        return tile
    return tile_filter


def local_text(sec, fmt):
    return _time.strftime(fmt, _time.localtime(sec))


class Source(object):
    supports_meta_tiles = True
    coverage = None
    extent = None
    res_range = None

    def __init__(self, world):
        self.world = world
        self.calls = []         # list of sorted covered tile lists
        self.last_bbox = None

    def get_map(self, query):
        from mapproxy.image import ImageSource
        from mapproxy.layer import BlankImage
        from mapproxy.source import SourceError
        from PIL import Image
        w = self.world
        k, oc = self.record(query)
        if oc[0] == 'broken':
            return broken_source(w.opts)
        if oc[0] == 'err':
            raise SourceError('scripted upstream failure %d' % k)
        if oc[0] == 'blank':
            raise BlankImage()
        img = Image.new('RGB', tuple(query.size), enc_colour(oc[3]))
        src = ImageSource(img, image_opts=w.opts, cacheable=bool(oc[1]) or w.use_overlay)
        src.authorize_stale = bool(oc[2]) and not w.use_overlay
        return src

    def retrieve(self, query, format):
        """the HTTP client of a real WMSSource: a normal answer is an image; the on_error answers are HTTP status codes
        that the source's error handler turns into images (500: cache False; 503: cache False, authorize_stale;
        502: cache True, authorize_stale); everything else is an HTTP error without handler"""
        import io
        from mapproxy.client.http import HTTPClientError
        from PIL import Image
        k, oc = self.record(query)
        if oc[0] == 'ok' and oc[1] and not oc[2]:
            buf = io.BytesIO()
            Image.new('RGB', tuple(query.size), enc_colour(oc[3])).save(buf, 'PNG')
            buf.seek(0)
            return buf
        if oc[0] == 'ok':
            raise HTTPClientError('scripted HTTP error', response_code=WMS_STATUS[(bool(oc[1]), bool(oc[2]))])
        raise HTTPClientError('scripted HTTP error', response_code=404)

    def record(self, query):
        w = self.world
        bbox, size = query.bbox, query.size
        res = (bbox[2] - bbox[0]) / float(size[0])
        level = min(range(len(RES)), key=lambda i: abs(RES[i] - res))
        r = float(RES[level])
        gw, gh = grid_size(level)
        blocks = []
        for i in range(size[0] // TS):
            for j in range(size[1] // TS):
                cx = bbox[0] + (i + 0.5) * TS * r
                cy = bbox[1] + (j + 0.5) * TS * r
                tx, ty = int(cx // (TS * r)), int(cy // (TS * r))
                if 0 <= tx < gw and 0 <= ty < gh:
                    blocks.append((tx, ty, level))
        k = len(self.calls)
        self.last_bbox = tuple(bbox)
        self.calls.append(sorted(blocks))
        return k, outcome_of(w.script, k)


class Overlay(object):
    """second source of the cache (merged by LayerMerger on top of the main source): an overlay that is empty
    everywhere; when the scripted answer is 'not cacheable' it is the on_error placeholder of the overlay
    (BlankImageSource, transparent, cache: False) - the merged image must then not be stored"""
    supports_meta_tiles = True
    coverage = None
    extent = None
    res_range = None

    def __init__(self, world):
        import threading
        self.world = world
        self.handled = 0
        self.mutex = threading.Lock()

    def get_map(self, query):
        from mapproxy.image import BlankImageSource
        from mapproxy.image.opts import ImageOptions
        main = self.world.source
        with self.mutex:
            n = len(main.calls)
            if self.handled < n and main.last_bbox == tuple(query.bbox):
                k = n - 1             # the main source has been asked for this request already
            else:
                k = n
            self.handled = k + 1
        oc = outcome_of(self.world.script, k)
        cacheable = bool(oc[1]) if oc[0] == 'ok' else True
        return BlankImageSource(query.size, ImageOptions(bgcolor=(255, 255, 255, 0), transparent=True), cacheable=cacheable)


class World(object):
    def __init__(self, base, backend, meta, script, clock, use_filter=False, use_overlay=False, use_bulk=False,
                 use_wms=False, dims=None, ref_link=False):
        from mapproxy.cache.base import TileLocker
        from mapproxy.cache.tile import TileManager
        from mapproxy.grid import TileGrid
        from mapproxy.image.opts import ImageOptions
        self.base, self.backend, self.meta, self.script, self.clock = base, backend, meta, script, clock
        self.grid = TileGrid(srs=4326, bbox=(0, 0, EXTENT, EXTENT), tile_size=(TS, TS), res=[float(r) for r in RES],
                             origin='ll')
        self.opts = ImageOptions(format='image/png')
        self.cache_dir = os.path.join(base, 'cache')
        self.is_file = backend in ('file', 'filelink', 'filehard')
        if backend == 'file':
            from mapproxy.cache.file import FileCache
            self.cache = FileCache(self.cache_dir, 'png')
        elif backend in ('filelink', 'filehard'):
            from mapproxy.cache.file import FileCache
            self.cache = FileCache(self.cache_dir, 'png',
                                   link_single_color_images='hardlink' if backend == 'filehard' else True)
        elif backend == 'mbtiles':
            from mapproxy.cache.mbtiles import MBTilesCache
            os.makedirs(self.cache_dir)
            self.cache = MBTilesCache(os.path.join(self.cache_dir, 'c.mbtiles'), with_timestamps=True)
        else:
            from mapproxy.cache.mbtiles import MBTilesLevelCache
            self.cache = MBTilesLevelCache(self.cache_dir)
        self.locker = TileLocker(os.path.join(base, 'locks'), 10, self.cache.lock_cache_id)
        self.source = Source(self)
        self.use_bulk = use_bulk
        if use_bulk:
            self.source.supports_meta_tiles = False      # a tiled source: bulk_meta_tiles downloads tile by tile
        self.use_overlay = use_overlay
        self.dims = dims
        self.ref_link = ref_link
        sources = [self.source, Overlay(self)] if use_overlay else [self.source]
        if use_wms:
            # a real WMSSource (transparent_color configured, on_error handlers) around the scripted HTTP client
            from mapproxy.source.wms import WMSSource
            from mapproxy.source.error import HTTPSourceErrorHandler
            import logging
            logging.getLogger('mapproxy.source.wms').setLevel(logging.ERROR)    # scripted HTTP errors are expected
            eh = HTTPSourceErrorHandler()
            for (cacheable, auth), code in WMS_STATUS.items():
                eh.add_handler(code, enc_colour(WMS_COLOUR[code]), cacheable, auth)
            sources = [WMSSource(self.source, image_opts=ImageOptions(format='image/png'), transparent_color=(255, 0, 255),
                                 transparent_color_tolerance=0, error_handler=eh)]
        self.tm = TileManager(self.grid, self.cache, sources, 'png', self.locker, image_opts=self.opts,
                              meta_size=list(META) if meta else None, meta_buffer=0 if meta else None,
                              pre_store_filter=[make_filter(self.opts)] if use_filter else None,
                              bulk_meta_tiles=bool(use_bulk))
        assert (self.tm.meta_grid is not None) == bool(meta)
        self.ref_file = os.path.join(base, 'datasource.ref')
        self.univ = universe()
        self.paths = {}
        if self.is_file:
            from mapproxy.cache.tile import Tile
            for c in self.univ:
                self.paths[os.path.normpath(self.cache.tile_location(Tile(c), dimensions=self.dims))] = c

    # -- explicit state
    def db_files(self):
        if self.backend == 'mbtiles':
            return [os.path.join(self.cache_dir, 'c.mbtiles')]
        out = []
        if os.path.isdir(self.cache_dir):
            for fn in sorted(os.listdir(self.cache_dir)):
                if fn.endswith('.mbtile'):
                    out.append(os.path.join(self.cache_dir, fn))
        return out

    def put_initial(self, c, content, ts_ticks):
        from mapproxy.cache.tile import Tile
        from mapproxy.image import ImageSource
        from PIL import Image
        img = Image.new('RGB', (TS, TS), enc_colour(content))
        self.cache.store_tile(Tile(c, ImageSource(img, image_opts=self.opts)), dimensions=self.dims)
        if self.is_file:
            p = self.cache.tile_location(Tile(c), dimensions=self.dims)
            ns = ts_ticks * (1000000000 // Q)
            os.utime(p, ns=(ns, ns), follow_symlinks=False)
            self.restamp()
        else:
            assert ts_ticks % Q == 0
            txt = local_text(ts_ticks // Q, '%Y-%m-%d %H:%M:%S')
            self.tm.cleanup()
            for f in self.db_files():
                db = sqlite3.connect(f)
                db.execute('UPDATE tiles SET last_modified = ? WHERE tile_column = ? AND tile_row = ? AND zoom_level = ?',
                           (txt,) + tuple(c))
                db.commit()
                db.close()

    def restamp(self):
        """tile files (or links) written by the request carry the kernel's wall clock: give them the simulated instant;
        the shared files of linked single colour tiles get an old stamp (the tile's own time stamp is the link's)"""
        if not self.is_file:
            return
        ns = self.clock.ticks * (1000000000 // Q)
        for p in self.paths:
            try:
                st = os.lstat(p)
            except OSError:
                continue
            if st.st_mtime > REAL_PAST:
                os.utime(p, ns=(ns, ns), follow_symlinks=False)
        d = os.path.join(self.cache_dir, 'single_color_tiles')
        if os.path.isdir(d):
            old = OLD_COLOUR_FILE * (1000000000 // Q)
            for fn in os.listdir(d):
                p = os.path.join(d, fn)
                if os.lstat(p).st_mtime > REAL_PAST:
                    os.utime(p, ns=(old, old))

    def dump_keep_open(self):
        return self.dump(cleanup=False)

    def dump(self, cleanup=True):
        """{coord: (content, ts_ticks)}; ts -1 when it is not an exact tick"""
        from PIL import Image
        out = {}
        if self.is_file:
            for p, c in self.paths.items():
                try:
                    st = os.lstat(p)
                except OSError:
                    continue
                t = st.st_mtime_ns * Q
                ts = t // 1000000000 if t % 1000000000 == 0 else -1
                try:
                    out[c] = (dec_image(Image.open(p)), ts)
                except Exception:  # noqa
                    out[c] = (-4, ts)
        else:
            import io
            if cleanup:
                self.tm.cleanup()
            for f in self.db_files():
                db = sqlite3.connect(f)
                for x, y, z, data, lm in db.execute('SELECT tile_column, tile_row, zoom_level, tile_data, last_modified FROM tiles'):
                    try:
                        ts = int(_time.mktime(_time.strptime(lm, '%Y-%m-%d %H:%M:%S'))) * Q
                    except Exception:  # noqa
                        ts = -1
                    try:
                        out[(x, y, z)] = (dec_image(Image.open(io.BytesIO(data))), ts)
                    except Exception:  # noqa
                        out[(x, y, z)] = (-4, ts)
                db.close()
        return out

    def seed(self, level, refresh, skip):
        """the real seed_task / TileWalker on one level; only the worker pool (processes) is replaced by an in-process
        stand-in that does what TileSeedWorker does.  Returns (examined, handed, completed)"""
        import mapproxy.seed.seeder as sd
        from mapproxy.util.coverage import BBOXCoverage
        tm = self.tm
        state = {'in': False}
        examined, handed = [], []
        orig_ic, orig_is = tm.is_cached, tm.is_stale

        def ic(tile, dimensions=None):
            if not state['in'] and isinstance(tile, tuple) and not skip:
                examined.append(tile)
            return orig_ic(tile, dimensions=dimensions)

        def ist(tile, dimensions=None):
            if not state['in'] and isinstance(tile, tuple) and skip:
                examined.append(tile)
            return orig_is(tile, dimensions=dimensions)

        class Pool(object):
            def process(self, tiles, progress):
                handed.append([tuple(t) for t in tiles])
                state['in'] = True
                try:
                    tm.load_tile_coords(tiles)
                except Exception:  # noqa  (the real worker backs off and retries)
                    pass
                finally:
                    try:
                        tm.cleanup()
                    except Exception:  # noqa
                        pass
                    state['in'] = False

            def stop(self, force=False):
                pass

        saved_pool = sd.TileWorkerPool
        sd.TileWorkerPool = lambda task, worker_class, **kw: Pool()
        tm.is_cached, tm.is_stale = ic, ist
        task = sd.SeedTask(dict(name='s', cache_name='c', grid_name='g'), tm, [level],
                           None if refresh is None else refresh / float(Q), False,
                           BBOXCoverage(self.grid.bbox, self.grid.srs))
        try:
            sd.seed_task(task, concurrency=1, skip_uncached=skip)
            completed = True
        except Exception as e:  # noqa
            completed = classify_exc(e)
        finally:
            sd.TileWorkerPool = saved_pool
            del tm.is_cached
            del tm.is_stale
            try:
                tm.cleanup()
            except Exception:  # noqa
                pass
        mains = []
        for c in examined:
            mt = my_members(self.meta, c)[0]
            if not mains or mains[-1] != mt:
                mains.append(mt)
        return mains, [sorted(h) for h in handed], completed

    def set_ref(self, t):
        if t is None:
            try:
                os.unlink(self.ref_file)
            except OSError:
                pass
            try:
                os.unlink(self.ref_file + '.real')
            except OSError:
                pass
        elif self.ref_link:
            # the configured path is a symlink to the data file: the rule means the data file's mtime; the link itself
            # was made long ago
            real = self.ref_file + '.real'
            with open(real, 'a'):
                pass
            ns = t * (1000000000 // Q)
            os.utime(real, ns=(ns, ns))
            if not os.path.islink(self.ref_file):
                os.symlink(os.path.basename(real), self.ref_file)
            old = OLD_COLOUR_FILE * (1000000000 // Q)
            os.utime(self.ref_file, ns=(old, old), follow_symlinks=False)
        else:
            with open(self.ref_file, 'a'):
                pass
            ns = t * (1000000000 // Q)
            os.utime(self.ref_file, ns=(ns, ns))

    def set_rule(self, rule, expire):
        self.tm._refresh_before = rule_conf(rule, self.ref_file) if rule is not None else {}
        self.tm._expire_timestamp = None if expire is None else expire / float(Q)


def rule_conf(rule, ref_file):
    """the dictionary a configuration would contain"""
    d = {}
    if rule.get('time') is not None and rule.get('time_obj'):
        # an unquoted YAML timestamp arrives as a datetime object (the clock shim's class, as util/times.py sees it)
        import mapproxy.util.times as mt
        d['time'] = mt.datetime.datetime(*_time.localtime(rule['time'])[:6])
    elif rule.get('time') is not None:
        d['time'] = local_text(rule['time'], '%Y-%m-%dT%H:%M:%S')
    if rule.get('mtime'):
        d['mtime'] = ref_file
    for k in ('weeks', 'days', 'hours', 'minutes'):
        if rule.get(k) or rule.get('explicit_zero'):
            d[k] = rule.get(k, 0)
    if rule.get('seconds') or rule.get('explicit_zero') or not d:
        s = rule.get('seconds', 0)
        d['seconds'] = s // Q if s % Q == 0 else s / float(Q)
    return d


def my_threshold(rule, expire, now, ref):
    """independent computation of the threshold in ticks: None (no rule), 'err', or int"""
    if rule is not None:
        if rule.get('time') is not None:
            return rule['time'] * Q
        if rule.get('mtime'):
            return 'err' if ref is None else ref
        delta = Q * (604800 * rule.get('weeks', 0) + 86400 * rule.get('days', 0) + 3600 * rule.get('hours', 0)
                     + 60 * rule.get('minutes', 0)) + rule.get('seconds', 0)
        return ((now - delta) // Q) * Q
    return expire


def is_stale_ts(ts, thr):
    return (ts // Q) * Q <= thr


# ----------------------------------------------------------------------------- running a history

def classify_exc(e):
    from mapproxy.source import SourceError
    from mapproxy.seed.config import SeedConfigurationError
    import http.client
    if isinstance(e, SourceError):
        return 'source'
    if isinstance(e, http.client.IncompleteRead):
        return 'body'
    if isinstance(e, SeedConfigurationError):
        return 'cfg'
    return 'other:' + type(e).__name__


def run_history(ctx, h):
    """h: dict(backend, meta, init=[(coord, content, ts)], rule, expire, now, ref, script, events).  Returns observations."""
    saved_tz = os.environ.get('TZ')
    os.environ['TZ'] = h.get('tz', 'UTC')
    _time.tzset()
    try:
        return run_history_tz(ctx, h)
    finally:
        if saved_tz is None:
            os.environ.pop('TZ', None)
        else:
            os.environ['TZ'] = saved_tz
        _time.tzset()


def run_history_tz(ctx, h):
    clock = Clock()
    clock.ticks = h['now']
    base = ctx.tmpdir('w')
    steps = []
    with Patched(clock):
        w = World(base, h['backend'], h['meta'], h['script'], clock, use_filter=bool(h.get('filter')), use_overlay=bool(h.get('overlay')), use_bulk=bool(h.get('bulk')),
                  use_wms=bool(h.get('wms')), dims=DIMS if h.get('dims') else None, ref_link=bool(h.get('ref_link')))
        for c, content, ts in h['init']:
            w.put_initial(tuple(c), content, ts)
        w.set_ref(h['ref'])
        w.set_rule(h['rule'], h['expire'])
        rule, expire, ref = h['rule'], h['expire'], h['ref']
        members_real = {}
        for c in w.univ:
            if w.tm.meta_grid is not None and h.get('bulk'):
                members_real[c] = [t for t in w.tm.meta_grid.meta_tile(c).tiles if t is not None]   # download order
            elif w.tm.meta_grid is not None:
                members_real[c] = sorted(t for t in w.tm.meta_grid.meta_tile(c).tiles if t is not None)
            else:
                members_real[c] = [c]
        for ev in h['events']:
            kind = ev[0]
            if kind == 'req':
                coords = [tuple(c) for c in ev[1]]
                before = w.dump()
                ncalls = len(w.source.calls)
                try:
                    tiles = w.tm.load_tile_coords(coords, dimensions=w.dims)
                    served = []
                    for t in tiles:
                        served.append(None if t.source is None else dec_image(t.source.as_image()))
                    res = ('served', served)
                except Exception as e:  # noqa
                    res = ('raised', classify_exc(e))
                try:
                    w.tm.cleanup()
                except Exception:  # noqa
                    pass
                w.restamp()
                steps.append({'kind': 'req', 'coords': coords, 'before': before, 'after': w.dump(), 'res': res,
                              'calls': [list(c) for c in w.source.calls[ncalls:]], 'first_call': ncalls,
                              'now': clock.ticks, 'rule': rule, 'expire': expire, 'ref': ref})
            elif kind == 'race':
                # the request `coords` decides on the state it sees first; while it waits for its first tile lock the
                # request `other` completes (as another thread / process would); then it goes on under the lock
                coords, other = [tuple(c) for c in ev[1]], [tuple(c) for c in ev[2]]
                before = w.dump()
                ncalls = len(w.source.calls)
                mid = {}
                orig_lock = w.tm.lock

                def lock(tile, _w=w, _mid=mid, _other=other, _orig=orig_lock):
                    if not _mid:
                        _mid['fired'] = True
                        try:
                            _w.tm.load_tile_coords(_other, dimensions=_w.dims)
                            _mid['res'] = 'served'
                        except Exception as e:  # noqa
                            _mid['res'] = classify_exc(e)
                        _w.restamp()
                        _mid['dump'] = _w.dump_keep_open()
                        _mid['calls'] = len(_w.source.calls)
                    return _orig(tile)
                w.tm.lock = lock
                try:
                    tiles = w.tm.load_tile_coords(coords, dimensions=w.dims)
                    served = []
                    for t in tiles:
                        served.append(None if t.source is None else dec_image(t.source.as_image()))
                    res = ('served', served)
                except Exception as e:  # noqa
                    res = ('raised', classify_exc(e))
                finally:
                    del w.tm.lock
                try:
                    w.tm.cleanup()
                except Exception:  # noqa
                    pass
                w.restamp()
                allc = [list(c) for c in w.source.calls[ncalls:]]
                na = (mid.get('calls', ncalls) - ncalls)
                steps.append({'kind': 'race', 'coords': coords, 'other': other, 'before': before, 'mid': mid.get('dump'),
                              'other_res': mid.get('res'), 'after': w.dump(), 'res': res, 'calls': allc,
                              'calls_other': allc[:na], 'calls_own': allc[na:], 'first_call': ncalls,
                              'now': clock.ticks, 'rule': rule, 'expire': expire, 'ref': ref})
            elif kind == 'probe':
                c = tuple(ev[1])
                ans = []
                for f in (w.tm.is_cached, w.tm.is_stale):
                    try:
                        ans.append(bool(f(c, dimensions=w.dims)))
                    except Exception as e:  # noqa
                        ans.append(classify_exc(e))
                try:
                    w.tm.cleanup()
                except Exception:  # noqa
                    pass
                steps.append({'kind': 'probe', 'coord': c, 'ans': ans, 'before': w.dump(), 'now': clock.ticks,
                              'rule': rule, 'expire': expire, 'ref': ref})
            elif kind == 'seed':
                refresh, skip, level = ev[1], ev[2], ev[3]
                before = w.dump()
                ncalls = len(w.source.calls)
                examined, handed, completed = w.seed(level, refresh, skip)
                w.restamp()
                if refresh is not None:
                    expire = refresh
                steps.append({'kind': 'seed', 'level': level, 'refresh': refresh, 'skip': skip, 'before': before,
                              'after': w.dump(), 'examined': examined, 'handed': handed, 'completed': completed,
                              'calls': [list(c) for c in w.source.calls[ncalls:]], 'first_call': ncalls,
                              'now': clock.ticks, 'rule': rule, 'expire': expire, 'ref': ref})
            elif kind == 'clock':
                clock.ticks = ev[1]
                steps.append({'kind': 'silent'})
            elif kind == 'ref':
                ref = ev[1]
                w.set_ref(ref)
                steps.append({'kind': 'silent'})
            elif kind == 'rule':
                rule, expire = ev[1], ev[2]
                w.set_rule(rule, expire)
                steps.append({'kind': 'silent'})
        final = w.dump()
        log = [list(c) for c in w.source.calls]
        try:
            w.tm.cleanup()
        except Exception:  # noqa
            pass
    return {'steps': steps, 'final': final, 'log': log, 'members': members_real, 'univ': w.univ}


# ----------------------------------------------------------------------------- oracle

def oracle(ctx, h, ob):
    """the property statement, request by request, on what the implementation did"""
    meta = h['meta']
    script = h['script']

    def outcome(k):
        return outcome_of(script, k)

    def new_content(k):
        return outcome(k)[3] + (FILTER if h.get('filter') else 0)
    outcome.new_content = new_content

    for idx, s in enumerate(ob['steps']):
        if s['kind'] == 'silent':
            continue
        thr = my_threshold(s['rule'], s['expire'], s['now'], s['ref'])
        before = s['before']
        rep = {'history': h, 'step': idx, 'threshold_ticks': thr, 'ticks_per_second': Q,
               'observed': {k: v for k, v in s.items() if k not in ('before', 'after', 'mid')},
               'cache_before': sorted([list(c), list(v)] for c, v in before.items())}

        def state(c):
            if c not in before:
                return 'missing'
            if thr is None:
                return 'fresh'
            return 'stale' if is_stale_ts(before[c][1], thr) else 'fresh'

        if s['kind'] == 'probe':
            c = s['coord']
            if thr == 'err':
                want = ['cfg', 'cfg' if c in before else False]
            else:
                st = state(c)
                want = [st == 'fresh', st == 'stale']
            if s['ans'] != want:
                ctx.fail(SIG_PROBE, 'is_cached/is_stale of %r answered %r, the rule (threshold %r, tile %r) says %r'
                         % (c, s['ans'], thr, before.get(c), want), rep)
            continue
        if s['kind'] == 'seed':
            oracle_seed(ctx, h, s, thr, state, rep, outcome)
            continue
        if s['kind'] == 'race':
            oracle_race(ctx, h, s, thr, state, rep, outcome)
            continue
        # request
        coords, res, calls, after = s['coords'], s['res'], s['calls'], s['after']
        rep['cache_after'] = sorted([list(c), list(v)] for c, v in after.items())
        if res[0] == 'raised' and res[1].startswith('other'):
            ctx.fail(SIG_CRASH, 'request %r raised %s' % (coords, res[1]), rep)
            continue
        if thr == 'err':
            if coords and (res != ('raised', 'cfg') or calls or after != before):
                ctx.fail(SIG_CRASH, 'reference file missing: expected a configuration error and no effect, got %r' % (res,), rep)
            continue
        states = dict((c, state(c)) for c in coords)
        covered = {}
        for j, cs in enumerate(calls):
            for c in cs:
                covered.setdefault(tuple(c), []).append(s['first_call'] + j)
        # (a) a stale (or missing) requested tile is fetched again
        if res[0] == 'served':
            for c in coords:
                if states[c] != 'fresh' and c not in covered:
                    ctx.fail(SIG_STALE, 'tile %r (%s, entry %r, threshold %r) was needed but no upstream request covered it'
                             % (c, states[c], before.get(c), thr), rep)
        elif any(states[c] != 'fresh' for c in coords) and not calls:
            ctx.fail(SIG_STALE, 'request raised %s without any upstream request' % res[1], rep)
        # (b) nothing else causes an upstream request
        needed = set()
        for c in coords:
            if states[c] != 'fresh':
                needed.add(tuple(my_members(meta, c)))
        if h.get('bulk'):
            needed_tiles = set(t for mt in needed for t in mt)
            for cs in calls:
                if len(cs) != 1 or tuple(cs[0]) not in needed_tiles:
                    ctx.fail(SIG_FRESH, 'bulk download of %r although no requested tile of its meta tile is missing or stale '
                             '(requested %r, states %r, threshold %r)' % (cs, coords, states, thr), rep)
        for j, cs in enumerate(calls):
            if h.get('bulk'):
                break
            if tuple(tuple(c) for c in cs) not in needed:
                ctx.fail(SIG_FRESH, 'upstream request for %r although no requested tile of it is missing or stale '
                         '(requested %r, states %r, threshold %r)' % (cs, coords, states, thr), rep)
        if all(st == 'fresh' for st in states.values()):
            if res != ('served', [before[c][0] for c in coords]):
                ctx.fail(SIG_SERVED, 'all requested tiles fresh but the answer %r is not the cached content' % (res,), rep)
            if after != before:
                ctx.fail(SIG_DESTROY, 'all requested tiles fresh but the cache changed', rep)
        # (c) old tiles survive; they change only through a successful cacheable refresh that covered them
        for c, old in before.items():
            new = after.get(c)
            if new is None:
                ctx.fail(SIG_DESTROY, 'tile %r (entry %r) is gone after the request' % (c, old), rep)
                continue
            if new != old:
                ks = [k for k in covered.get(c, []) if outcome(k)[0] == 'ok' and outcome(k)[1]]
                if not ks or new[0] != new_content(ks[-1]):
                    ctx.fail(SIG_DESTROY, 'tile %r changed from %r to %r without a successful cacheable upstream answer for it'
                             % (c, old, new), rep)
        for c, new in after.items():
            if c not in before:
                ks = [k for k in covered.get(c, []) if outcome(k)[0] == 'ok' and outcome(k)[1]]
                if not ks or new[0] != new_content(ks[-1]):
                    ctx.fail(SIG_DESTROY, 'tile %r appeared with entry %r without a cacheable upstream answer' % (c, new), rep)
        # (d) what is served
        if res[0] == 'served':
            for c, got in zip(coords, res[1]):
                ks = covered.get(c, [])
                if not ks:
                    want = before[c][0] if c in before else None
                else:
                    oc = outcome(ks[-1])
                    if oc[0] == 'ok':
                        want = before[c][0] if (oc[2] and not meta and states[c] == 'stale') else new_content(ks[-1])
                    elif oc[0] == 'blank':
                        want = before[c][0] if c in before else None
                    elif oc[0] == 'broken':
                        want = 'raise'
                    else:
                        want = before[c][0] if states[c] == 'stale' else 'raise'
                    if oc[0] == 'err' and states[c] == 'stale' and got != before[c][0]:
                        ctx.fail(SIG_FALLBACK, 'refresh of stale tile %r failed but %r was served instead of the old content %r'
                                 % (c, got, before[c][0]), rep)
                        continue
                if got != want:
                    ctx.fail(SIG_SERVED, 'tile %r: served %r, expected %r (state %s, upstream answers %r)'
                             % (c, got, want, states[c], [outcome(k) for k in ks]), rep)
        elif res == ('raised', 'source'):
            # a SourceError may only surface when the failing request had no stale tile to fall back to (single
            # tile path) or on the meta tile path
            ks = [s['first_call'] + j for j in range(len(calls))]
            if not ks or outcome(ks[-1])[0] != 'err':
                ctx.fail(SIG_CRASH, 'SourceError surfaced although the last upstream answer was %r'
                         % (outcome(ks[-1]) if ks else None,), rep)
            elif not meta and all(states.get(tuple(c)) == 'stale' for c in calls[-1]):
                ctx.fail(SIG_FALLBACK, 'refresh of stale tile %r failed and the error was raised instead of serving the old tile'
                         % (calls[-1],), rep)
        elif res == ('raised', 'body'):
            ks = [s['first_call'] + j for j in range(len(calls))]
            if not ks or outcome(ks[-1])[0] != 'broken':
                ctx.fail(SIG_CRASH, 'a broken response body surfaced although the last upstream answer was %r'
                         % (outcome(ks[-1]) if ks else None,), rep)
        # (e) a successful refresh makes the tile fresh (when the clock is past the threshold)
        if thr is not None and (s['now'] // Q) * Q > thr:
            for c, ks in covered.items():
                oc = outcome(ks[-1])
                if h.get('bulk') and any(outcome(k)[0] in ('err', 'broken') for t in my_members(meta, c) for k in covered.get(t, [])):
                    continue        # bulk download: one failing tile of the meta tile and nothing of it is stored
                if oc[0] == 'ok' and oc[1] and c in after and not (oc[2] and not meta and states.get(c) == 'stale'):
                    if is_stale_ts(after[c][1], thr) and h['backend'] == 'filelink' and after[c] == before.get(c) \
                            and after[c][0] == new_content(ks[-1]):
                        ctx.fail(SIG_LINK, 'linked single colour tile %r (entry %r) was refreshed at %r with an image of the same '
                                 'colour: the link keeps its old time stamp, the tile is still at or before the threshold %r '
                                 'and will be fetched on every request' % (c, before[c], s['now'], thr), rep)
                    elif is_stale_ts(after[c][1], thr):
                        ctx.fail(SIG_CONVERGE, 'tile %r was refreshed at %r but its timestamp %r is still at or before the '
                                 'threshold %r' % (c, s['now'], after[c][1], thr), rep)


def oracle_race(ctx, h, s, thr, state, rep, outcome):
    """a request that waited for the tile lock while another request completed: under the lock it may fetch only what is
    still missing or stale, and old tiles survive"""
    meta, before, mid, after = h['meta'], s['before'], s['mid'], s['after']
    rep['cache_after'] = sorted([list(c), list(v)] for c, v in after.items())
    for r in (s['res'][1] if s['res'][0] == 'raised' else '', s['other_res'] or ''):
        if r.startswith('other'):
            ctx.fail(SIG_CRASH, 'request raised %s' % r, rep)
            return
    if thr == 'err':
        if s['calls'] or after != before:
            ctx.fail(SIG_CRASH, 'reference file missing but the request changed something', rep)
        return
    if mid is None:
        if s['calls']:
            ctx.fail(SIG_FRESH, 'upstream request without taking a tile lock: %r' % (s['calls'],), rep)
        return
    rep['cache_when_lock_was_taken'] = sorted([list(c), list(v)] for c, v in mid.items())

    def state_mid(c):
        if c not in mid:
            return 'missing'
        if thr is None:
            return 'fresh'
        return 'stale' if is_stale_ts(mid[c][1], thr) else 'fresh'
    needed = set(tuple(my_members(meta, c)) for c in s['coords'] if state(c) != 'fresh')
    for cs in s['calls_own']:
        cs = [tuple(c) for c in cs]
        if tuple(cs) not in needed:
            ctx.fail(SIG_FRESH, 'upstream request for %r although no requested tile of it was missing or stale' % (cs,), rep)
        elif all(state_mid(c) == 'fresh' for c in cs):
            ctx.fail(SIG_RECHECK + h['backend'], 'tiles %r were refreshed by another request while this request waited for the tile '
                     'lock (entries %r, threshold %r), but under the lock they were fetched from the upstream again'
                     % (cs, [mid.get(c) for c in cs], thr), rep)
    covered = {}
    for j, cs in enumerate(s['calls']):
        for c in cs:
            covered.setdefault(tuple(c), []).append(s['first_call'] + j)
    for c, old in before.items():
        new = after.get(c)
        if new is None:
            ctx.fail(SIG_DESTROY, 'tile %r (entry %r) is gone after the requests' % (c, old), rep)
        elif new != old:
            # two requests may have fetched the tile; an answer with authorize_stale is not stored over a stale tile
            ks = [k for k in covered.get(c, []) if outcome(k)[0] == 'ok' and outcome(k)[1]]
            if not any(new[0] == outcome.new_content(k) for k in ks):
                ctx.fail(SIG_DESTROY, 'tile %r changed from %r to %r without a successful cacheable upstream answer for it'
                         % (c, old, new), rep)


def oracle_seed(ctx, h, s, thr, state, rep, outcome):
    """a seed task with a refresh rule over one level: every stale tile of the level is fetched again, nothing is
    fetched for a meta tile without a missing / stale tile, old tiles survive"""
    meta, level, before, after, calls = h['meta'], s['level'], s['before'], s['after'], s['calls']
    rep['cache_after'] = sorted([list(c), list(v)] for c, v in after.items())
    if isinstance(s['completed'], str) and s['completed'].startswith('other'):
        ctx.fail(SIG_CRASH, 'seed task raised %s' % s['completed'], rep)
        return
    if thr == 'err':
        # the walker may only stop with the configuration error; in skip_uncached mode missing tiles are passed over
        if calls or after != before:
            ctx.fail(SIG_CRASH, 'reference file missing but the seed task changed something', rep)
        return
    gw, gh = grid_size(level)
    tiles = [(x, y, level) for y in range(gh) for x in range(gw)]
    mains = sorted(set(my_members(meta, c)[0] for c in tiles))
    if s['completed'] is True and sorted(s['examined']) != mains:
        ctx.fail(SIG_SEED_WALK, 'walker examined %r, the level has the (meta) tiles %r' % (s['examined'], mains), rep)
    covered = {}
    for j, cs in enumerate(calls):
        for c in cs:
            covered.setdefault(tuple(c), []).append(s['first_call'] + j)
    if thr is not None:
        for c in tiles:
            if state(c) == 'stale' and c not in covered:
                ctx.fail(SIG_SEED, 'seed task with refresh threshold %r did not fetch stale tile %r (entry %r; main tile of its '
                         'meta tile %r is %s)' % (thr, c, before[c], my_members(meta, c)[0], state(my_members(meta, c)[0])), rep)
    for cs in calls:
        sts = [state(tuple(c)) for c in cs]
        if all(st == 'fresh' for st in sts) or (s['skip'] and not any(st == 'stale' for st in sts)):
            ctx.fail(SIG_FRESH, 'seed task fetched %r although none of its tiles needed it (%r)' % (cs, sts), rep)
    for c, old in before.items():
        new = after.get(c)
        if new is None:
            ctx.fail(SIG_DESTROY, 'tile %r (entry %r) is gone after the seed task' % (c, old), rep)
        elif new != old:
            ks = [k for k in covered.get(c, []) if outcome(k)[0] == 'ok' and outcome(k)[1]]
            if not ks or new[0] != outcome.new_content(ks[-1]):
                ctx.fail(SIG_DESTROY, 'tile %r changed from %r to %r without a successful cacheable upstream answer for it'
                         % (c, old, new), rep)


BULK_CASE_TYPE = ('mgr * env * list outcome * list (addr * list addr) * cache * list (list addr) * '
                  '(list result * list (option (Z * Z)) * list (list addr)) * list addr')
BULK_CHECKER = ("fun c => let '(m, ev, sc, tbl, c0, reqs, (res_i, dump_i, log_i), univ) := c in "
                "let '(s', res_m) := run_bulk %d m ev (script_of sc) (members_of tbl) (mkSt c0 []) reqs in "
                "list_eqb result_eqb res_m res_i && "
                "list_eqb (opt_eqb (pair_eqb Z.eqb Z.eqb)) (dump (s_cache s') univ) dump_i && "
                "list_eqb (list_eqb addr_eqb) (rev (s_log s')) log_i" % Q)


def bulk_histories(ctx):
    """bulk_meta_tiles: a tiled source, meta tiles downloaded tile by tile (_create_bulk_meta_tile)"""
    t0 = BASE * Q
    a, b, c = (0, 0, 2), (1, 0, 2), (2, 2, 2)
    out = []
    for backend in ('file', 'sqlite'):
        out.append({'backend': backend, 'bulk': True, 'meta': True, 'init': [(a, INIT, t0), (b, INIT + 1, t0 + 8 * Q)],
                    'rule': {'time': BASE + 2}, 'expire': None, 'now': t0 + 10 * Q, 'ref': None,
                    'script': [('ok', True, False, 3), ('ok', False, False, 4), ('blank',), ('ok', True, False, 6), ('err',)],
                    'events': [('req', [b]), ('req', [a]), ('req', [a, b]), ('req', [c]), ('req', [c])]})
    for _ in range(ctx.n(24, 400)):
        h = gen_history(ctx.rng, ctx.quick)
        h['bulk'], h['meta'], h['overlay'], h['wms'] = True, True, False, False
        h['script'] = [(('err',) if oc[0] == 'broken' else oc) for oc in h['script']]
        evs = []
        for e in h['events']:
            if e[0] == 'req':
                evs.append(e)
            elif e[0] == 'race':
                evs.append(('req', e[1]))
        h['events'] = evs or [('req', [h['init'][0][0]])]
        out.append(h)
    return out


def reslit(res):
    if res[0] == 'served':
        return '(Served %s)' % llit(res[1], lambda v: olit(v))
    return {'source': '(Raised ESource)', 'cfg': '(Raised ECfg)', 'body': '(Raised EBody)'}.get(res[1], '(Served [Some (-99)])')


def bulk_stream(ctx):
    terms, descr = [], []
    for h in bulk_histories(ctx):
        try:
            ob = run_history(ctx, h)
        except Exception as e:  # noqa
            import traceback
            ctx.problem('harness', 'bulk history could not be run on the implementation: %r' % (e,),
                        {'history': jsonable(h), 'trace': traceback.format_exc()[-1500:]})
            continue
        ctx.case(('bulk', repr(sorted(jsonable(h).items()))), bool(ob['log']), None)
        ctx.count('bulk_meta_tiles')
        oracle(ctx, h, ob)
        floor_store = h['backend'] in ('mbtiles', 'sqlite')
        m = '(mkMgr %s %s true %s %s %s)' % (rlit(h['rule']), olit(h['expire']), blit(floor_store),
                                            zlit(FILTER if h.get('filter') else 0), blit(h['backend'] == 'filelink'))
        ev = '(mkEnv %s %s)' % (zlit(h['now']), olit(h['ref']))
        tbl = llit(sorted(ob['members'].items()), lambda kv: '(%s, %s)' % (alit(kv[0]), llit(kv[1], alit)))
        c0 = llit(h['init'], lambda t: '(%s, mkEntry %s %s)' % (alit(t[0]), zlit(t[1]), zlit(t[2])))
        univ = ob['univ']
        dump = llit(univ, lambda c: 'None' if c not in ob['final'] else '(Some (%s, %s))' % (zlit(ob['final'][c][0]), zlit(ob['final'][c][1])))
        log = llit(ob['log'], lambda cs: llit([tuple(c) for c in cs], alit))
        terms.append('(%s, %s, %s, %s, %s, %s, (%s, %s, %s), %s)' % (
            m, ev, llit([outcome_of(h['script'], k) for k in range(len(h['script']))], oclit), tbl, c0,
            llit([e[1] for e in h['events']], lambda cs: llit(cs, alit)),
            llit([s['res'] for s in ob['steps']], reslit), dump, log, llit(univ, alit)))
        descr.append({'history': jsonable(h), 'implementation': {
            'results': [s['res'] for s in ob['steps']], 'upstream_log': ob['log'],
            'final_cache': sorted([list(c), list(v)] for c, v in ob['final'].items())}})
    ctx.corr_check('bulk', 'Expiry', BULK_CASE_TYPE, terms, BULK_CHECKER, lambda i: descr[i], shard=60)


def loader_stream(ctx):
    """refresh_before through the real configuration loader (mapproxy.yaml -> load_configuration ->
    CacheConfiguration.caches): a cache with 1-3 grids; the rule must be in force for the TileManager of every grid"""
    import yaml
    rng = ctx.rng
    t0 = BASE * Q
    cases = [({'hours': 1}, t0 + 3600 * Q + 5, None, 2, 'file', 'UTC', False),
             ({'time': BASE + 3}, t0 + 40, None, 3, 'sqlite', 'WST5', True),
             ({'mtime': True}, t0 + 40, t0 + 6, 2, 'file', 'EST-5', True),
             (None, t0 + 40, None, 2, 'file', 'UTC', False)]
    for _ in range(ctx.n(8, 60)):
        nowh = [t0 + rng.randrange(2 * Q, 8 * Q)]
        rule, expire, ref = gen_rule(rng, t0 + rng.randrange(-3 * Q, 4 * Q), nowh)
        if rule is not None:
            rule = dict(rule, time_obj=False)
        if rule is not None and rule.get('mtime') and rng.random() < 0.2:
            ref = None
        cases.append((rule, nowh[0], ref, rng.choice([1, 2, 2, 3]), rng.choice(['file', 'sqlite']), rng.choice(ZONES),
                      rng.random() < 0.5))
    terms, descr = [], []
    for rule, now, ref, ngrids, ctype, tz, meta in cases:
        saved_tz = os.environ.get('TZ')
        os.environ['TZ'] = tz
        _time.tzset()
        clock = Clock()
        clock.ticks = now
        d = ctx.tmpdir('ld')
        obs, probes = [], []
        try:
            with Patched(clock):
                from mapproxy.config.loader import load_configuration
                from mapproxy.seed.config import SeedConfigurationError
                ref_file = os.path.join(d, 'datasource.ref')
                if ref is not None:
                    with open(ref_file, 'a'):
                        pass
                    ns = ref * (1000000000 // Q)
                    os.utime(ref_file, ns=(ns, ns))
                cache = {'grids': ['g%d' % i for i in range(ngrids)], 'sources': ['src'], 'cache': {'type': ctype}}
                if meta:
                    cache['meta_size'] = list(META)
                    cache['meta_buffer'] = 0
                if rule is not None:
                    cache['refresh_before'] = rule_conf(rule, ref_file)
                conf = {'services': {'tms': None},
                        'grids': dict(('g%d' % i, {'srs': 'EPSG:4326', 'bbox': [0, 0, EXTENT * (i + 1), EXTENT * (i + 1)],
                                                   'tile_size': [TS, TS], 'res': [r * (i + 1) for r in RES], 'origin': 'll'})
                                      for i in range(ngrids)),
                        'sources': {'src': {'type': 'wms', 'req': {'url': 'http://127.0.0.1:9/', 'layers': 'x'}}},
                        'caches': {'c': cache},
                        'layers': [{'name': 'l', 'title': 'l', 'sources': ['c']}],
                        'globals': {'cache': {'base_dir': d, 'lock_dir': os.path.join(d, 'locks')}}}
                path = os.path.join(d, 'mapproxy.yaml')
                with open(path, 'w') as f:
                    f.write(yaml.safe_dump(conf))
                import logging
                logging.disable(logging.CRITICAL)
                try:
                    pc = load_configuration(path)
                finally:
                    logging.disable(logging.NOTSET)
                mgrs = [m for (_g, _e, m) in pc.caches['c'].caches()]
                for m in mgrs:
                    try:
                        v = m.expire_timestamp()
                        if v is None:
                            obs.append(None)
                        else:
                            t = v * Q
                            obs.append(int(t) if t == int(t) else 'inexact:%r' % v)
                    except SeedConfigurationError:
                        obs.append('err')
                    try:
                        m.cleanup()
                    except Exception:  # noqa
                        pass
        except Exception as e:  # noqa
            import traceback
            ctx.problem('harness', 'configuration could not be loaded: %r' % (e,), traceback.format_exc()[-1200:])
            continue
        finally:
            if saved_tz is None:
                os.environ.pop('TZ', None)
            else:
                os.environ['TZ'] = saved_tz
            _time.tzset()
        want = my_threshold(rule, None, now, ref)
        rep = {'refresh_before': rule, 'grids': ngrids, 'cache_type': ctype, 'tz': tz, 'meta_size': list(META) if meta else None,
               'now_ticks': now, 'ref_mtime_ticks': ref, 'ticks_per_second': Q, 'threshold_per_grid_manager': obs,
               'threshold_of_the_rule': want}
        ctx.case(('loader', repr(rep)), ngrids > 1 and rule is not None, None)
        ctx.count('loader_grids=%d' % ngrids)
        if len(obs) != ngrids:
            ctx.fail(SIG_LOADER, 'cache with %d grids has %d tile managers' % (ngrids, len(obs)), rep)
        for i, o in enumerate(obs):
            if o != want:
                ctx.fail(SIG_LOADER, 'refresh_before %r of the cache: the tile manager of grid %d of %d works with threshold %r, '
                         'the rule says %r' % (rule, i, ngrids, o, want), rep)

        def tl(o):
            if o is None:
                return 'ThrNone'
            if o == 'err':
                return 'ThrErr'
            return '(ThrAt %s)' % zlit(o) if isinstance(o, int) else '(ThrAt (-1))'
        terms.append('(%s, %s, %s, %s, %s)' % (rlit(rule), '(mkEnv %s %s)' % (zlit(now), olit(ref)), blit(ctype == 'sqlite'),
                                              llit([meta] * ngrids, blit), llit(obs, tl)))
        descr.append(rep)
    ctx.corr_check('loader', 'Expiry', 'option rconf * env * bool * list bool * list thr', terms,
                   "fun c => let '(rb, ev, fs, grids, obs_i) := c in "
                   "list_eqb thr_eqb (map (fun m => expire_timestamp %d m ev) (cache_managers rb fs grids)) obs_i" % Q,
                   lambda i: descr[i], shard=100)


def hardlink_scenario(ctx):
    """link_single_color_images: hardlink is outside the model (hard links share the inode and its mtime).  Oracle only:
    a stale single colour tile that is refreshed with an image of the same colour must become fresh."""
    t0 = BASE * Q
    a = (0, 0, 2)
    for same in (True, False):
        h = {'backend': 'filehard', 'meta': False, 'init': [(a, INIT, t0)], 'rule': {'time': BASE + 2}, 'expire': None,
             'now': t0 + 10 * Q, 'ref': None, 'script': [('ok', True, False, INIT if same else 5)] * 3,
             'events': [('req', [a]), ('req', [a]), ('probe', a)]}
        try:
            ob = run_history(ctx, h)
        except Exception as e:  # noqa
            ctx.problem('harness', 'hard link scenario could not be run: %r' % (e,))
            continue
        ctx.case(('hardlink', same), True, None)
        ctx.count('hardlink_scenario')
        reqs = [s for s in ob['steps'] if s['kind'] == 'req']
        probe = [s for s in ob['steps'] if s['kind'] == 'probe'][0]
        rep = {'history': h, 'ticks_per_second': Q, 'upstream_log': ob['log'],
               'results': [s['res'] for s in reqs], 'probe': probe['ans'],
               'final_cache': sorted([list(c), list(v)] for c, v in ob['final'].items())}
        if len(reqs[0]['calls']) != 1 or reqs[0]['res'][0] != 'served':
            ctx.fail(SIG_STALE, 'hard link cache: stale tile %r was not fetched again: %r' % (a, reqs[0]['res']), rep)
        elif reqs[1]['calls'] or probe['ans'] != [True, False]:
            sig = SIG_HARDLINK if same else SIG_CONVERGE
            ctx.fail(sig, 'hard link cache: tile %r refreshed at %r with %s colour is still stale (entry %r): the second request '
                     'went upstream again' % (a, h['now'], 'the same' if same else 'another', ob['final'].get(a)), rep)


def cascade_scenario(ctx):
    """cascaded caches: cache B has cache A as its source (CacheSource) and A has an extent smaller than the grid, so the
    answer for a tile of B that crosses the border of A's extent is placed into a larger image before B gets it.  Both
    caches have the same refresh threshold.  Oracle only (A's answer to B is outside the model): while the upstream of A
    answers with an on_error placeholder (cache: False) the refresh of B fails - it must not destroy / re-stamp the old
    tile of B (nor of A), the tile stays stale, is fetched again when the upstream is back and is fresh afterwards."""
    t0 = BASE * Q
    edge, inside = (1, 0, 1), (0, 1, 1)        # level 1: 2x2 tiles of 16 units; A's extent ends at x = 24
    ok1, bad, ok2 = ('ok', True, False, 5), ('ok', False, False, 9), ('ok', True, False, 7)
    for backend in ('file', 'sqlite'):
        for meta in (False, True):
            conf = {'cache_B': backend, 'cache_B_meta_tiles': meta, 'cache_A': 'file, single tiles, extent (0, 0, 24, 32)',
                    'requested': [edge, inside], 'threshold_ticks': t0 + 2 * Q, 'ticks_per_second': Q,
                    'upstream_of_A': ['ok colour 5 at t0', 'placeholder colour 9, cache: False at t0+10s', 'ok colour 7']}
            try:
                obs = cascade_run(ctx, backend, meta, [edge, inside], t0, [ok1, bad, ok2])
            except Exception as e:  # noqa
                import traceback
                ctx.problem('harness', 'cascaded cache scenario could not be run: %r' % (e,), traceback.format_exc()[-1500:])
                continue
            ctx.case(('cascade', backend, meta), True, None)
            ctx.count('cascade_scenario')
            rep = dict(conf, observed=obs)
            created, failed, back, again = obs['phases']
            for ph in obs['phases']:
                if isinstance(ph['res'], str) and ph['res'].startswith('other'):
                    ctx.fail(SIG_CRASH, 'cascaded caches: request raised %s' % ph['res'], rep)
            if not created['calls'] or any(created['B_after'].get(str(c), (None,))[0] != 5 for c in (edge, inside)):
                ctx.fail(SIG_SERVED, 'cascaded caches: first request did not create the tiles of B from the upstream answer', rep)
                continue
            if not failed['calls']:
                ctx.fail(SIG_STALE, 'cascaded caches: stale tiles %r of B (threshold %r) were requested but the upstream was not '
                         'asked' % ([edge, inside], t0 + 2 * Q), rep)
            destroyed = False
            for name in ('B', 'A'):
                for c in (edge, inside):
                    old, new = failed[name + '_before'].get(str(c)), failed[name + '_after'].get(str(c))
                    if old is not None and new != old:
                        destroyed = True
                        ctx.fail(SIG_DESTROY, 'cascaded caches: the upstream of cache A answered with an uncacheable placeholder '
                                 'while stale tile %r of cache %s (entry %r) was refreshed; the failed refresh changed the tile to %r'
                                 % (c, name, old, new), rep)
            if destroyed:
                continue
            if not back['calls']:
                ctx.fail(SIG_STALE, 'cascaded caches: after the failed refresh the tiles of B count as fresh (no upstream request '
                         'once the upstream is back)', rep)
            elif any(back['B_after'].get(str(c)) != [7, t0 + 12 * Q] for c in (edge, inside)):
                ctx.fail(SIG_CONVERGE, 'cascaded caches: successful refresh at %r left B with %r' % (t0 + 12 * Q, back['B_after']), rep)
            elif again['calls'] or again['B_after'] != back['B_after']:
                ctx.fail(SIG_FRESH, 'cascaded caches: refreshed tiles requested again: upstream asked %r' % (again['calls'],), rep)


def cascade_run(ctx, backend, meta, coords, t0, answers):
    from mapproxy.cache.tile import Tile
    from mapproxy.layer import MapExtent
    from mapproxy.source.tile import CacheSource
    from mapproxy.srs import SRS
    clock = Clock()
    clock.ticks = t0
    base_a, base_b = ctx.tmpdir('ca'), ctx.tmpdir('cb')
    phases = []
    with Patched(clock):
        wa = World(base_a, 'file', False, [answers[0]] * 64, clock)
        wb = World(base_b, backend, meta, [], clock)
        wb.tm.sources = [CacheSource(wa.tm, extent=MapExtent((0, 0, 24, 32), SRS(4326)), image_opts=wa.opts)]

        def entries(w):
            out = {}
            for c in coords:
                t = Tile(c)
                try:
                    if not w.cache.load_tile(t, with_metadata=True) or t.source is None:
                        continue
                    px = t.source.as_image().convert('RGB').getpixel((0, 0))       # west column: inside A's extent
                    out[str(c)] = [(px[0] << 16) | (px[1] << 8) | px[2], int(round(t.timestamp * Q))]
                except Exception as e:  # noqa
                    out[str(c)] = ['unreadable:' + type(e).__name__, -1]
            try:
                w.tm.cleanup()
            except Exception:  # noqa
                pass
            return out

        def request():
            n = len(wa.source.calls)
            ph = {'now': clock.ticks, 'B_before': entries(wb), 'A_before': entries(wa)}
            try:
                wb.tm.load_tile_coords(list(coords))
                ph['res'] = 'served'
            except Exception as e:  # noqa
                ph['res'] = classify_exc(e)
            for w in (wa, wb):
                try:
                    w.tm.cleanup()
                except Exception:  # noqa
                    pass
                w.restamp()
            ph['calls'] = [list(c) for c in wa.source.calls[n:]]
            ph['B_after'], ph['A_after'] = entries(wb), entries(wa)
            phases.append(ph)

        request()                                   # created in both caches at t0
        clock.ticks = t0 + 10 * Q
        wa.tm._expire_timestamp = wb.tm._expire_timestamp = (t0 + 2 * Q) / float(Q)
        wa.script = [answers[1]] * 64
        request()                                   # refresh fails: uncacheable placeholder
        clock.ticks = t0 + 12 * Q
        wa.script = [answers[2]] * 64
        request()                                   # upstream is back
        request()                                   # fresh now
    return {'phases': phases}


# ----------------------------------------------------------------------------- generation

def gen_rule(rng, target, now_holder):
    """a rule whose threshold lands near `target` (ticks).  May move the clock (now_holder[0]) for relative rules."""
    kind = rng.choice(['time', 'time', 'mtime', 'rel', 'rel', 'rel', 'expire', 'expire', 'none', 'mix'])
    if kind == 'none':
        return None, None, None
    if kind == 'expire':
        return None, target, None
    if kind == 'time':
        return {'time': target // Q, 'time_obj': rng.random() < 0.4}, None, None
    if kind == 'mtime':
        return {'mtime': True}, None, target
    if kind == 'mix':
        r = {'time': target // Q if rng.random() < 0.5 else None, 'mtime': True, 'seconds': rng.randrange(0, 9)}
        return r, None, target + rng.choice([-Q, 0, 1, Q])
    big = rng.random() < 0.3
    r = {'weeks': rng.choice([0, 0, 1, 2]) if big else 0, 'days': rng.choice([0, 1, 3]) if big else 0,
         'hours': rng.choice([0, 1, 5]) if big else 0, 'minutes': rng.choice([0, 0, 1, 2]),
         'seconds': rng.choice([0, 0, 1, 2, 3, Q, Q, 2 * Q, 5 * Q, 7]), 'explicit_zero': rng.random() < 0.3}
    delta = Q * (604800 * r['weeks'] + 86400 * r['days'] + 3600 * r['hours'] + 60 * r['minutes']) + r['seconds']
    now_holder[0] = target + delta + rng.randrange(0, Q)
    return r, None, None


def gen_history(rng, quick):
    backend = rng.choice(['file', 'file', 'filelink', 'mbtiles', 'sqlite'])
    tz = rng.choice(ZONES)
    use_filter = rng.random() < 0.3
    use_overlay = rng.random() < 0.2
    use_wms = (not use_overlay) and rng.random() < 0.25
    use_dims = backend in ('file', 'filelink') and rng.random() < 0.3
    ref_link = rng.random() < 0.3
    meta = rng.random() < 0.5
    level = rng.choice([1, 2, 2, 2])
    gw, gh = grid_size(level)
    tiles = [(x, y, level) for y in range(gh) for x in range(gw)]
    t0 = BASE * Q
    # initial cache: timestamps within a few seconds around t0, boundary biased
    init = []
    pool = rng.sample(tiles, rng.randrange(1, min(len(tiles), 7) + 1))
    shared = t0 + rng.randrange(-2 * Q, 3 * Q)
    for i, c in enumerate(pool):
        ts = shared if rng.random() < 0.4 else t0 + rng.randrange(-3 * Q, 4 * Q)
        if backend in ('mbtiles', 'sqlite'):
            ts = (ts // Q) * Q
        init.append((c, INIT + i, ts))
    times = sorted(set(ts for _, _, ts in init))
    anchor = rng.choice(times)
    target = rng.choice([anchor, (anchor // Q) * Q, (anchor // Q) * Q + Q, (anchor // Q) * Q - Q, anchor + 1, anchor - 1,
                         (anchor // Q) * Q + Q - 1, t0 + rng.randrange(-3 * Q, 4 * Q)])
    nowh = [t0 + rng.randrange(2 * Q, 8 * Q)]
    rule, expire, ref = gen_rule(rng, target, nowh)
    now = nowh[0]
    if ref is None and rng.random() < 0.7:
        ref = t0 + rng.randrange(-2 * Q, 2 * Q)
    mode = rng.random()
    if mode < 0.12:
        script = [('err',)] * 12
    else:
        script = []
        for _ in range(12):
            x = rng.random()
            if x < 0.62:
                script.append(('ok', True, False))
            elif x < 0.76:
                script.append(('err',))
            elif x < 0.84:
                script.append(('ok', False, False))
            elif x < 0.93:
                script.append(('ok', rng.random() < 0.5, True))
            else:
                script.append(('blank',) if rng.random() < 0.5 else ('broken',))
    if use_overlay:
        # two sources merged by LayerMerger: the merged image has no authorize_stale, and a blank main layer would leave
        # the overlay alone
        script = [(oc[0], oc[1], False) if oc[0] == 'ok' else (('err',) if oc[0] == 'blank' else oc) for oc in script]
    if use_wms:
        script = [(('err',) if oc[0] in ('blank', 'broken') else oc) for oc in script]
    # explicit contents: normally the number of the answer, sometimes the colour an existing tile already has
    for k, oc in enumerate(script):
        if oc[0] == 'ok':
            same = rng.random() < 0.15
            v = rng.choice(init)[1] - (FILTER if use_filter else 0) if same else k
            script[k] = oc + (v if v >= 0 else k,)
            if use_wms and not (oc[1] and not oc[2]):
                script[k] = oc + (WMS_COLOUR[WMS_STATUS[(bool(oc[1]), bool(oc[2]))]],)     # colour of the on_error image
    events = []
    cur_now = now
    last_req = None
    for _ in range(rng.randrange(5, 15)):
        x = rng.random()
        if x < 0.47:
            if last_req is not None and rng.random() < 0.3:
                coords = last_req
            else:
                n = rng.choice([1, 1, 2, 2, 3, 4])
                src = pool if rng.random() < 0.6 else tiles
                coords = rng.sample(src, min(n, len(src)))
            last_req = coords
            events.append(('req', coords))
        elif x < 0.53:
            n = rng.choice([1, 1, 2, 3])
            coords = rng.sample(pool if rng.random() < 0.7 else tiles, min(n, len(pool)))
            other = list(coords) if rng.random() < 0.6 else rng.sample(tiles, min(rng.choice([1, 2, 4]), len(tiles)))
            events.append(('race', coords, other))
        elif x < 0.59:
            tgt = rng.choice([target, target + Q, (cur_now // Q) * Q - Q, anchor, None, None])
            events.append(('seed', tgt, rng.random() < 0.3, level))
        elif x < 0.67:
            events.append(('probe', rng.choice(pool if rng.random() < 0.8 else tiles)))
        elif x < 0.8:
            cur_now += rng.choice([0, 1, 2, 3, Q, Q, 2 * Q, 5 * Q, 61 * Q])
            events.append(('clock', cur_now))
        elif x < 0.93:
            tgt = rng.choice([target, cur_now, (cur_now // Q) * Q, (cur_now // Q) * Q - Q, cur_now - 1, target + Q, target - 1])
            nh = [cur_now]
            r2, e2, ref2 = gen_rule(rng, tgt, nh)
            if nh[0] > cur_now:
                cur_now = nh[0]
                events.append(('clock', cur_now))
            if ref2 is not None:
                events.append(('ref', ref2))
            events.append(('rule', r2, e2))
        else:
            events.append(('ref', rng.choice([None, target, cur_now, cur_now - Q, t0 + rng.randrange(-2 * Q, 3 * Q)])))
    if use_dims:
        events = [e for e in events if e[0] != 'seed']      # the seeder knows no dimensions
    return {'backend': backend, 'tz': tz, 'filter': use_filter, 'overlay': use_overlay, 'wms': use_wms, 'dims': use_dims,
            'ref_link': ref_link, 'meta': meta, 'init': init, 'rule': rule, 'expire': expire, 'now': now, 'ref': ref,
            'script': script, 'events': events}


def fixed_histories():
    """boundary cases that must always be exercised (equal second, fractional mtime, relative rule, failure)"""
    t0 = BASE * Q
    a, b, c = (0, 0, 2), (1, 0, 2), (2, 2, 2)
    out = []
    for backend in ('file', 'mbtiles', 'sqlite'):
        for meta in (False, True):
            # tile written in the same second as the threshold: stale; one second later: fresh
            out.append({'backend': backend, 'meta': meta, 'init': [(a, INIT, t0), (c, INIT + 1, t0 + Q)],
                        'rule': {'time': BASE}, 'expire': None, 'now': t0 + 5 * Q, 'ref': None,
                        'script': [('err',), ('ok', True, False)],
                        'events': [('probe', a), ('probe', c), ('req', [c]), ('req', [a]), ('req', [a]), ('req', [a]),
                                   ('probe', a)]})
            # relative rule re-evaluated per request: fresh now, stale after the clock moved
            out.append({'backend': backend, 'meta': meta, 'init': [(a, INIT, t0), (b, INIT + 1, t0)],
                        'rule': {'seconds': 2 * Q}, 'expire': None, 'now': t0 + Q, 'ref': None,
                        'script': [('ok', True, False), ('ok', False, False), ('err',)],
                        'events': [('req', [a, b]), ('clock', t0 + 2 * Q), ('req', [a]), ('req', [a, b]), ('clock', t0 + 9 * Q),
                                   ('req', [b]), ('req', [a])]})
            # mtime rule and a missing reference file
            out.append({'backend': backend, 'meta': meta, 'init': [(a, INIT, t0)],
                        'rule': {'mtime': True}, 'expire': None, 'now': t0 + 4 * Q, 'ref': t0 + 2,
                        'script': [('ok', True, True), ('ok', True, False)],
                        'events': [('req', [a]), ('ref', t0 - 1), ('req', [a]), ('ref', None), ('req', [a]), ('probe', a),
                                   ('probe', b), ('ref', t0 + 6 * Q), ('req', [a, b])]})
    # seed task over level 2 with refresh threshold t0+2s: a0 (main tile of its meta tile) fresh, b stale (former finding
    # C13-seed: the walker examined the main tile only)
    for backend in ('file', 'sqlite'):
        for meta in (False, True):
            out.append({'backend': backend, 'meta': meta, 'init': [(a, INIT, t0 + 5 * Q), (b, INIT + 1, t0), (c, INIT + 2, t0)],
                        'rule': None, 'expire': None, 'now': t0 + 10 * Q, 'ref': None, 'script': [('ok', True, False)] * 3 + [('err',)],
                        'events': [('seed', t0 + 2 * Q, False, 2), ('probe', b), ('seed', t0 + 2 * Q, True, 2), ('req', [b]),
                                   ('seed', None, False, 2)]})
    # a response body that breaks while the store reads it (file cache, single tile path), an uncacheable answer with a
    # pre_store_filter, linked single colour tiles, a relative rule away from UTC
    for meta in (False, True):
        out.append({'backend': 'file', 'meta': meta, 'init': [(a, INIT, t0), (b, INIT + 1, t0 + 8 * Q)],
                    'rule': {'time': BASE + 2}, 'expire': None, 'now': t0 + 10 * Q, 'ref': None,
                    'script': [('broken',), ('err',), ('ok', True, False, 7)],
                    'events': [('req', [a, b]), ('probe', a), ('req', [a]), ('req', [a]), ('req', [a])]})
        out.append({'backend': 'file', 'filter': True, 'meta': meta, 'init': [(a, INIT, t0), (b, INIT + 1, t0 + 8 * Q)],
                    'rule': {'time': BASE + 2}, 'expire': None, 'now': t0 + 10 * Q, 'ref': None,
                    'script': [('ok', False, False, 3), ('broken',), ('ok', True, False, 9)],
                    'events': [('req', [a]), ('probe', a), ('req', [a, b]), ('req', [a]), ('req', [a])]})
        out.append({'backend': 'filelink', 'meta': meta, 'init': [(a, INIT, t0), (b, INIT + 1, t0 + 8 * Q)],
                    'rule': {'time': BASE + 2}, 'expire': None, 'now': t0 + 10 * Q, 'ref': None,
                    'script': [('ok', True, False, 5), ('ok', True, False, 6)],
                    'events': [('probe', b), ('req', [a, b]), ('req', [a, b]), ('probe', a), ('clock', t0 + 12 * Q),
                               ('rule', {'seconds': Q}, None), ('req', [a])]})
        for tz in ('EST-5', 'WST5'):
            for backend in ('file', 'sqlite'):
                out.append({'backend': backend, 'tz': tz, 'meta': meta, 'init': [(a, INIT, t0), (b, INIT + 1, t0 + 8 * Q)],
                            'rule': {'hours': 1}, 'expire': None, 'now': t0 + 3600 * Q + 4 * Q, 'ref': None,
                            'script': [('ok', True, False, 5)],
                            'events': [('probe', a), ('probe', b), ('req', [a, b]), ('rule', {'time': BASE + 4}, None),
                                       ('probe', b), ('seed', t0 + 3600 * Q + 2 * Q, False, 2)]})
    # two sources (merged): the overlay answers with its on_error placeholder (cache: False) while a stale tile exists;
    # refresh_before time given as a datetime object (unquoted YAML timestamp)
    for backend in ('file', 'sqlite'):
        for meta in (False, True):
            out.append({'backend': backend, 'overlay': True, 'meta': meta, 'init': [(a, INIT, t0), (b, INIT + 1, t0 + 8 * Q)],
                        'rule': {'time': BASE + 2, 'time_obj': True}, 'expire': None, 'now': t0 + 10 * Q, 'ref': None,
                        'script': [('ok', False, False, 3), ('err',), ('ok', True, False, 5), ('broken',)],
                        'events': [('req', [a]), ('probe', a), ('req', [a, b]), ('req', [a]), ('probe', a), ('req', [c])]})
    # a real WMSSource with transparent_color and on_error handlers (500: cache False; 503: cache False + authorize_stale),
    # requests with dimensions on file caches, a symlinked reference file
    for meta in (False, True):
        out.append({'backend': 'file', 'wms': True, 'meta': meta, 'init': [(a, INIT, t0), (b, INIT + 1, t0 + 8 * Q)],
                    'rule': {'time': BASE + 2}, 'expire': None, 'now': t0 + 10 * Q, 'ref': None,
                    'script': [('ok', False, False, WMS_COLOUR[500]), ('ok', False, True, WMS_COLOUR[503]), ('err',),
                               ('ok', True, False, 7)],
                    'events': [('req', [a]), ('probe', a), ('req', [a]), ('req', [a, b]), ('req', [a]), ('req', [a])]})
        for backend in ('file', 'filelink'):
            out.append({'backend': backend, 'dims': True, 'meta': meta, 'init': [(a, INIT, t0), (b, INIT + 1, t0 + 8 * Q)],
                        'rule': {'time': BASE + 2}, 'expire': None, 'now': t0 + 10 * Q, 'ref': None,
                        'script': [('ok', True, False, 3), ('err',)],
                        'events': [('probe', a), ('probe', b), ('req', [b]), ('req', [a, b]), ('probe', a), ('req', [a, b]),
                                   ('race', [c], [c]), ('req', [c])]})
        out.append({'backend': 'file', 'ref_link': True, 'meta': meta, 'init': [(a, INIT, t0), (b, INIT + 1, t0 + 8 * Q)],
                    'rule': {'mtime': True}, 'expire': None, 'now': t0 + 10 * Q, 'ref': t0 + 2 * Q,
                    'script': [('ok', True, False, 3)],
                    'events': [('probe', a), ('probe', b), ('req', [a, b]), ('ref', t0 + 40 * Q), ('probe', b), ('ref', None),
                               ('probe', b), ('ref', t0)]})
    # an on_error placeholder with cache: True AND authorize_stale: True (502 of the real WMSSource): over a stale tile
    # the old tile is served and kept (time stamp unchanged, so the next request asks the upstream again); where
    # nothing is cached yet (tile c) the placeholder is stored
    for meta in (False, True):
        for backend, wms in (('file', False), ('sqlite', False), ('file', True)):
            out.append({'backend': backend, 'wms': wms, 'meta': meta, 'init': [(a, INIT, t0), (b, INIT + 1, t0 + 8 * Q)],
                        'rule': {'time': BASE + 2}, 'expire': None, 'now': t0 + 10 * Q, 'ref': None,
                        'script': [('ok', True, True, WMS_COLOUR[502]), ('ok', True, True, WMS_COLOUR[502]),
                                   ('ok', True, False, 7), ('ok', True, True, WMS_COLOUR[502])],
                        'events': [('req', [a]), ('probe', a), ('req', [a]), ('probe', a), ('req', [a]), ('probe', a),
                                   ('req', [a, b]), ('req', [c]), ('probe', c), ('req', [c])]})
    # two requests for the same stale tile: the second decides before the first has stored and re-checks under the lock
    for backend in ('file', 'filelink', 'mbtiles', 'sqlite'):
        for meta in (False, True):
            out.append({'backend': backend, 'meta': meta, 'init': [(a, INIT, t0), (b, INIT + 1, t0 + 8 * Q)],
                        'rule': {'time': BASE + 2}, 'expire': None, 'now': t0 + 10 * Q, 'ref': None,
                        'script': [('ok', True, False, 3), ('ok', True, False, 4), ('err',), ('ok', True, False, 6)],
                        'events': [('race', [a], [a]), ('probe', a), ('clock', t0 + 20 * Q), ('rule', {'seconds': 2 * Q}, None),
                                   ('race', [a, b], [b, a]), ('race', [c], [a, c]), ('req', [a, b, c])]})
    # fractional mtimes (file back-end only)
    for meta in (False, True):
        out.append({'backend': 'file', 'meta': meta, 'init': [(a, INIT, t0 + 3), (b, INIT + 1, t0 + Q + 1), (c, INIT + 2, t0 - 1)],
                    'rule': None, 'expire': t0 + 1, 'now': t0 + 3 * Q + 1, 'ref': None,
                    'script': [('err',), ('err',), ('ok', True, False)],
                    'events': [('probe', a), ('probe', b), ('probe', c), ('req', [a, b, c]), ('req', [c, b]), ('req', [a])]})
    return out


def load_corpus():
    d = os.path.join(VERIF, 'corpus', 'C13')
    out = []
    if os.path.isdir(d):
        for fn in sorted(os.listdir(d)):
            if fn.endswith('.json'):
                with open(os.path.join(d, fn)) as f:
                    j = json.load(f)
                out.append(normalise(j.get('history', j)))
    return out


def normalise(h):
    h = dict(h)
    h['init'] = [(tuple(c), v, ts) for c, v, ts in h['init']]
    h['script'] = [tuple(o) for o in h['script']]
    evs = []
    for e in h['events']:
        if e[0] == 'req':
            evs.append(('req', [tuple(c) for c in e[1]]))
        elif e[0] == 'probe':
            evs.append(('probe', tuple(e[1])))
        elif e[0] == 'race':
            evs.append(('race', [tuple(c) for c in e[1]], [tuple(c) for c in e[2]]))
        elif e[0] == 'seed':
            evs.append(('seed', e[1], bool(e[2]), e[3]))
        else:
            evs.append(tuple(e))
    h['events'] = evs
    return h


# ----------------------------------------------------------------------------- Gallina literals

def alit(c):
    return '(%s, %s, %s)' % (zlit(c[0]), zlit(c[1]), zlit(c[2]))


def rlit(rule):
    if rule is None:
        return 'None'
    return '(Some (mkRconf %s %s %s %s %s %s %s))' % (
        olit(rule.get('time')), blit(bool(rule.get('mtime'))), zlit(rule.get('weeks', 0)), zlit(rule.get('days', 0)),
        zlit(rule.get('hours', 0)), zlit(rule.get('minutes', 0)), zlit(rule.get('seconds', 0)))


def oclit(o):
    if o[0] == 'ok':
        return '(UOk %s %s %s)' % (blit(o[1]), blit(o[2]), zlit(o[3]))
    return {'err': 'UErr', 'blank': 'UBlank', 'broken': 'UBroken'}[o[0]]


def evlit(e, step=None):
    if e[0] == 'seed':
        return '(ESeed %s %s %s)' % (olit(e[1]), blit(e[2]), llit(step['examined'], alit))
    if e[0] == 'req':
        return '(EReq %s)' % llit(e[1], alit)
    if e[0] == 'race':
        return '(ERace %s %s)' % (llit(e[1], alit), llit(e[2], alit))
    if e[0] == 'probe':
        return '(EProbe %s)' % alit(e[1])
    if e[0] == 'clock':
        return '(EClock %s)' % zlit(e[1])
    if e[0] == 'ref':
        return '(ERefMtime %s)' % olit(e[1])
    return '(ERule %s %s)' % (rlit(e[1]), olit(e[2]))


def oblit(s):
    if s['kind'] == 'silent':
        return 'OSilent'
    if s['kind'] == 'seed':
        if s['completed'] not in (True, 'cfg') or any(len(t) == 0 for t in s['handed']):
            return '(OSeed [[]] false)'                 # cannot be produced by the model
        return '(OSeed %s %s)' % (llit(s['handed'], lambda t: llit(t, alit)), blit(s['completed'] is True))
    if s['kind'] == 'probe':
        def p(v):
            return 'None' if v == 'cfg' else '(Some %s)' % blit(v)
        if any(isinstance(v, str) and v != 'cfg' for v in s['ans']):
            return '(OProbe None (Some true))'     # cannot be produced by the model (stale without cached answer)
        return '(OProbe %s %s)' % (p(s['ans'][0]), p(s['ans'][1]))
    res = s['res']
    if res[0] == 'served':
        return '(OReq (Served %s))' % llit(res[1], lambda v: olit(v))
    if res[1] == 'source':
        return '(OReq (Raised ESource))'
    if res[1] == 'cfg':
        return '(OReq (Raised ECfg))'
    if res[1] == 'body':
        return '(OReq (Raised EBody))'
    return '(OReq (Served [Some (-99)]))'          # unexpected exception: cannot be produced by the model


CASE_TYPE = ('mgr * env * list outcome * list (addr * list addr) * cache * list event * '
             '(list obs * list (option (Z * Z)) * list (list addr)) * list addr')

CHECKER = ("fun c => let '(m, ev, sc, tbl, c0, es, (obs_i, dump_i, log_i), univ) := c in "
           "let '(w, obs_m) := run %d (script_of sc) (members_of tbl) (mkWorld m ev (mkSt c0 [])) es in "
           "list_eqb obs_eqb obs_m obs_i && "
           "list_eqb (opt_eqb (pair_eqb Z.eqb Z.eqb)) (dump (s_cache (w_st w)) univ) dump_i && "
           "list_eqb (list_eqb addr_eqb) (rev (s_log (w_st w))) log_i" % Q)


def case_term(h, ob):
    floor_store = h['backend'] in ('mbtiles', 'sqlite')
    m = '(mkMgr %s %s %s %s %s %s)' % (rlit(h['rule']), olit(h['expire']), blit(h['meta']), blit(floor_store),
                                       zlit(FILTER if h.get('filter') else 0), blit(h['backend'] == 'filelink'))
    ev = '(mkEnv %s %s)' % (zlit(h['now']), olit(h['ref']))
    tbl = llit(sorted(ob['members'].items()), lambda kv: '(%s, %s)' % (alit(kv[0]), llit(kv[1], alit)))
    c0 = llit(h['init'], lambda t: '(%s, mkEntry %s %s)' % (alit(t[0]), zlit(t[1]), zlit(t[2])))
    univ = ob['univ']
    dump = llit(univ, lambda c: 'None' if c not in ob['final'] else '(Some (%s, %s))' % (zlit(ob['final'][c][0]), zlit(ob['final'][c][1])))
    log = llit(ob['log'], lambda cs: llit([tuple(c) for c in cs], alit))
    return '(%s, %s, %s, %s, %s, %s, (%s, %s, %s), %s)' % (
        m, ev, llit([outcome_of(h['script'], k) for k in range(len(h['script']))], oclit), tbl, c0, llit(list(zip(h['events'], ob['steps'])), lambda es: evlit(es[0], es[1])),
        llit(ob['steps'], oblit), dump, log, llit(univ, alit))


def jsonable(h):
    return json.loads(json.dumps(h))


def run(ctx):
    rng = ctx.rng
    hs = load_corpus() + fixed_histories()
    for _ in range(ctx.n(150, 2400)):
        hs.append(gen_history(rng, ctx.quick))
    terms, descr = [], []
    for h in hs:
        try:
            ob = run_history(ctx, h)
        except Exception as e:  # noqa
            import traceback
            ctx.problem('harness', 'history could not be run on the implementation: %r' % (e,),
                        {'history': jsonable(h), 'trace': traceback.format_exc()[-1500:]})
            continue
        reqs = [s for s in ob['steps'] if s['kind'] in ('req', 'race')]
        hit = any(not s['calls'] and s['res'][0] == 'served' and s['coords'] for s in reqs)
        miss = any(s['calls'] for s in ob['steps'] if s['kind'] in ('req', 'seed'))
        failed = any(h['script'][k][0] == 'err' for k in range(min(len(ob['log']), len(h['script']))))
        ctx.case(repr(sorted(jsonable(h).items())), (hit and miss) or failed,
                 {'history': jsonable(h), 'upstream_log': ob['log'],
                  'results': [s.get('res', s.get('ans')) for s in ob['steps'] if s['kind'] != 'silent']})
        ctx.count('backend=' + h['backend'])
        ctx.count('tz=' + h.get('tz', 'UTC'))
        ctx.count('pre_store_filter=%s' % bool(h.get('filter')))
        ctx.count('sources=%d' % (2 if h.get('overlay') else 1))
        ctx.count('source=%s' % ('real WMSSource' if h.get('wms') else 'synthetic'))
        ctx.count('dimensions=%s' % bool(h.get('dims')))
        ctx.count('reference_file=%s' % ('symlink' if h.get('ref_link') else 'file'))
        ctx.count('meta=%s' % h['meta'])
        ctx.count('upstream_calls=%d' % min(len(ob['log']), 6))
        kind = 'none'
        if h['rule'] is not None:
            kind = 'time' if h['rule'].get('time') is not None else ('mtime' if h['rule'].get('mtime') else 'relative')
        elif h['expire'] is not None:
            kind = 'expire_timestamp'
        ctx.count('initial_rule=' + kind)
        ctx.count('race_events=%d' % min(3, sum(1 for s in ob['steps'] if s['kind'] == 'race')))
        ctx.count('seed_events=%d' % min(3, sum(1 for s in ob['steps'] if s['kind'] == 'seed')))
        for s in reqs:
            ctx.count('request=' + (s['res'][0] if s['res'][0] == 'served' else 'raised-' + s['res'][1]))
        oracle(ctx, h, ob)
        terms.append(case_term(h, ob))
        descr.append({'history': jsonable(h), 'implementation': {
            'steps': [{k: v for k, v in s.items() if k not in ('before', 'after', 'mid', 'rule', 'expire', 'ref')} for s in ob['steps']],
            'final_cache': sorted([list(c), list(v)] for c, v in ob['final'].items()), 'upstream_log': ob['log']}})
    hardlink_scenario(ctx)
    cascade_scenario(ctx)
    bulk_stream(ctx)
    loader_stream(ctx)
    ctx.corr_check('history', 'Expiry', CASE_TYPE, terms, CHECKER, lambda i: descr[i], shard=60)
