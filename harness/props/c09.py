"""C09  Serving requests never touches files outside the cache and lock directories.

Model: coq/theories/PathConf.v, lemmas: PathConf_proofs.v, theorems: coq/props/P_C09.v.

Tie (a) translator: translator/specs/pathconf.py regenerates gen/Gen_pathconf.v (escape table of _path_component; the ASTs of
dimensions_part and TileLocker.lock_filename are pinned, their string constants extracted); gen/Gen_path.v (C05) gives the six layouts.
Tie (b) correspondence, model evaluated by vm_compute inside Coq on the same inputs:
  sanitise     mapproxy.cache.path._path_component(s)                   vs  path_component / encode
  dims         mapproxy.cache.path.dimensions_part(dict)                vs  dimensions_part py_lower
  tilepath     path.tile_location_<layout>(Tile, root, ext, dimensions) vs  tile_path (rendering of gen/Gen_path.v)
  filecache    FileCache(root, ext, directory_layout).tile_location / .level_location (the METHODS, every layout, hostile
               dimension names and values)                              vs  tile_path / file_level_location
  levelpath    path.level_location(level, root, dimensions)             vs  level_location
  lockname     TileLocker(lock_dir, _, id).lock_filename(tile)          vs  lock_filename
  multiapp     Request.pop_path + DirectoryConfLoader.filename_from_app_name vs app_filename (pop_path p)
  demostatic   the file name DemoServer.handle opens for /demo/static/  vs  demo_static_filename
  ensuredir    os.mkdir / os.chmod calls of mapproxy.util.fs.ensure_directory (audit events, scratch directory with k existing
               levels, with and without directory_permissions)          vs  ensure_dir_ops
  tmpname      temporary file of mapproxy.util.fs.write_atomic (audit)  vs  name ++ tmp_suffix r
  singlecolourloc  FileCache._single_color_tile_location(colour), every byte value, all layouts / roots  vs  single_color_location
  linktext     text of the symlink FileCache.store_tile makes for a single colour tile (tiles below 0..3 dimension directories,
               stored in varying order by one FileCache object)         vs  relpath_comps
  (fsops also runs TileLocker.lock with a usable lock directory and under the fault "lock directory cannot be created")
  wmsdims      directory below the cache root in which the real WSGI app stores the tiles of a WMS GetMap with
               attacker-chosen TIME/ELEVATION/DIM_* parameters          vs  dimensions_part py_lower
Oracle (independent of the model; ctx.fail with the concrete input):
  * every component the sanitiser / dimensions_part emits is non-empty, has no '/', '\\', NUL and is not '.' / '..';
    the text resolves (posixpath.normpath) below the root; escaping is reversible and two different values of the
    same dimension keys never share a directory;
  * tile / level / lock / multiapp / demo file names resolve below their root;
  * the real WSGI application (WMS, WMTS KVP+REST, TMS, KML, demo, multiapp; file caches of all layouts, sqlite,
    mbtiles, geopackage, compact caches) is run under sys.addaudithook with attacker-style requests: every audited
    file-system path (open, os.mkdir, os.rename, os.remove, os.rmdir, os.symlink, os.link, os.listdir, os.scandir,
    os.chmod, os.utime, os.truncate, sqlite3.connect, shutil.*) must resolve below the cache / lock directories;
    reads (never writes) are also accepted below the template directory and for lazily imported python modules.
"""
import json
import os
import posixpath
import re
import sys
import threading

import common
from common import bytes_lit, zlit, slit, llit, olit

ID = 'C09'
TECHNIQUE = ('Coq proof (POSIX path resolution, sanitiser safety and injectivity for arbitrary code-point lists) + '
             'correspondence check of the executable model against the path-building code + audit-hook oracle on the real WSGI app')
LEVEL_TEXT = ('Theorems over the Gallina model of _path_component / dimensions_part / NoCaseMultiDict / posixpath.join / the six '
              'tile_location layouts (rendered from the generated Gen_path.v) / level_location / TileLocker.lock_filename / '
              'multiapp file names / demo static file names and of POSIX path resolution, for arbitrary strings (lists of '
              'integers) as dimension keys and values, arbitrary integers as coordinates and arbitrary request paths; the model is '
              'tied to the code by differential runs on attacker-style inputs and the request-to-path dataflow is observed on the '
              'real WSGI application with an interpreter audit hook.')
LEVEL_NOTE = ('Trusted: Coq kernel, the hand-written model PathConf.v, Gen_path.v (generated, C05), the correspondence harness and '
              'the audit hook (CPython raises no audit event for stat/access/readlink: existence tests are not observed). '
              'Not proved: that every file-system access of serving goes through the modelled path builders (that dataflow is '
              'observed by the audit-hook oracle, not proved); symbolic links inside the cache directory; Windows path '
              'semantics (drive letters); str.lower outside the alphabet of the check (the theorems hold for every lower function).')
DESIGN_REF = 'DESIGN.md section 5, C09'
RULE = ('case = one call of a path builder with attacker-style text / coordinates, or one HTTP request to the real app; '
        'non-trivial = the input contains at least one of / \\ NUL % . or a non-ASCII code point, or a negative / >= 2^31 coordinate, '
        'or (requests) is not the warm-up request; distinct by full input')
TRUSTED = ['translator/specs/pathconf.py: escape table of _path_component extracted from the AST, ASTs of dimensions_part and TileLocker.lock_filename pinned',
           'model PathConf.v hand-written from mapproxy/cache/path.py, request/base.py, cache/base.py, multiapp.py, service/demo.py, posixpath.py',
           'Gen_path.v generated from mapproxy/cache/path.py by translator/specs/path.py (C05)',
           'sys.addaudithook events as the observation of file-system access']
ASSUMPTIONS = ['POSIX path semantics (separator /, no drive letters)',
               'no symbolic link below the cache / lock directories points outside them',
               'file_ext, lock_cache_id (prefix + md5 hex digest) and configured directory names contain no separator',
               'the cache root itself is configured by the operator (not request-derived)']
EXPLANATION = ('confinement of resolve(join(root, components)) proved for all safe components; sanitiser proved to make every '
               'component safe and to be injective; real app observed under an audit hook with attacker-style requests')
GEN = ['Gen_path.v', 'Gen_pathconf.v']

MODEL = 'Gen_path Gen_pathconf PathConf'

# --------------------------------------------------------------------------- attacker-style text

SPECIAL = ['/', '\\', '\0', '%', '.', '..', '-', '_', ' ', ':', '~', '*', '?', '"', "'", '\n', '\r', '\t', '|', '<', '>', '&', ';', '$', '`',
           '\u00e9', '\u00c9', '\u0130', '\u212a', '\u00df', '\uff0f', '\uff0e', '\u2215', '\u202e', '\U0001f600', '\u03a9', '\u042f',
           '\x7f', '\x01', '\u00ff', '\ud7ff']
FRAGMENTS = ['..', '../', '/..', '..\\', '%2e', '%2E%2E', '%2f', '%2F', '%5C', '%5c', '%00', '%25', '%252F', '%c0%af', 'etc', 'passwd',
             'tmp', 'x', 'a', 'B', '0', '1', '2020-08-25T00:00:00Z', 'default', 'C:', 'con', 'nul', '....//', './', '/./', '//',
             'time', 'dim_', 'DIM_', 'secret', 'outside']
SEEDS = ['x%2F/../../..', '%25/../x', '..%5C/..', '%00/\0', '', '.', '..', '...', '../', '../..', '../../../etc/passwd', '/etc/passwd', '/', '//', '/abs/olute', '..\\..\\x', '\\', '\\\\srv\\share',
         '%2e%2e%2f', '%2F', '%252F', '%00', 'a\0b', '\0', ' ', '-', '--', 'a/b', 'a%2Fb', 'a%252Fb', 'a%b', 'a%25b', '....//', 'A' * 300,
         'C:\\x', 'C:', '~root', '$HOME', '${x}', '`id`', '2020-08-25T00:00:00Z', 'default', '..%2F..', '.%2E/', '/../', '../' * 12 + 'x',
         '\uff0e\uff0e\uff0f', '..\u2215..', 'a\nb', 'caf\u00e9', '\u0130stanbul', '%', '%%', '%2', '%2F%2F', '/%2F/', '%5C', '\\%5C', '\0%00',
         'x/', '/x', 'x/.', 'x/..', './x', '.x', '..x', 'x..', '.-', '-.']
KEYS = ['time', 'TIME', 'Time', 'tIME', 'elevation', 'ELEVATION', 'Elevation', 'dim_x', 'DIM_X', 'Dim_x', 'dim_', 'DIM_', 'dim_a-b', 'dim_a',
        'dim_/../../y', 'DIM_/../../Y', 'dim_..', 'dim_\\', 'dim_\0', 'dim_%2F', 'dim_%', 'dim_\u00c9', 'DIM_\u0130', 'd\u0130m_x', 'dim_\u212a',
        'dim_reference_time', 'DIM_REFERENCE_TIME', 'dim_level']


def gen_text(rng, maxlen=24):
    r = rng.random()
    if r < 0.30:
        return rng.choice(SEEDS)
    if r < 0.40:
        return rng.choice(SEEDS) + rng.choice(SEEDS)
    n = rng.choice([1, 1, 2, 2, 3, 4, 5, 7, maxlen])
    out = []
    for _ in range(n):
        k = rng.random()
        if k < 0.45:
            out.append(rng.choice(SPECIAL))
        elif k < 0.85:
            out.append(rng.choice(FRAGMENTS))
        else:
            out.append(chr(rng.choice([rng.randrange(1, 128), rng.randrange(160, 256), rng.randrange(0x391, 0x3a1),
                                       rng.randrange(0x410, 0x430), rng.randrange(0x4e00, 0x4e80), rng.randrange(0x1f600, 0x1f640)])))
    return ''.join(out)


def gen_key(rng, wms_only=False):
    r = rng.random()
    if r < 0.55:
        return rng.choice(KEYS)
    if r < 0.85 or wms_only:
        return rng.choice(['dim_', 'DIM_', 'Dim_', 'dIM_']) + gen_text(rng, 6)
    return gen_text(rng, 6)


def gen_dims(rng, wms_only=False):
    n = rng.choice([1, 1, 1, 2, 2, 3, 4])
    d = {}
    for _ in range(n):
        d[gen_key(rng, wms_only)] = gen_text(rng)
    return d


def cps(s):
    return [ord(c) for c in s]


def strlit(s):
    return bytes_lit(cps(s))


def dimslit(d):
    return '[' + '; '.join('(%s, %s)' % (strlit(k), strlit(v)) for k, v in d.items()) + ']'


def interesting(s):
    return any(c in '/\\\0%.' or ord(c) > 127 for c in s)


UNSAFE = ('/', '\\', '\0')


def component_problem(c):
    """why a single path component is not safe on any platform (None = safe)"""
    if c == '':
        return 'empty'
    if c in ('.', '..'):
        return 'dot-segment'
    for u in UNSAFE:
        if u in c:
            return 'contains-%s' % {'/': 'slash', '\\': 'backslash', '\0': 'nul'}[u]
    return None


def below(root, p, nul_ok=False):
    """does the text p, as the OS resolves it (no symlinks), name something strictly below root?
    nul_ok: a name with an embedded NUL is refused by every system call (ValueError) and reaches no file."""
    if '\0' in p:
        return nul_ok
    r = posixpath.normpath(root)
    q = posixpath.normpath(p)
    return q.startswith(r.rstrip('/') + '/')


_UNESC = re.compile('%(25|2F|5C|00)')


def unescape(s):
    return _UNESC.sub(lambda m: {'25': '%', '2F': '/', '5C': '\\', '00': '\0'}[m.group(1)], s)


def call(f, *a, **kw):
    try:
        return ('ok', f(*a, **kw))
    except Exception as e:  # noqa: an unexpected exception is an observation
        return ('raised', type(e).__name__)


def obs_lit(o):
    """option str: Some text / None when the implementation raised or returned a non-string"""
    if o[0] == 'ok' and isinstance(o[1], str):
        return '(Some %s)' % strlit(o[1])
    return 'None'


# --------------------------------------------------------------------------- stream: sanitiser

def stream_sanitise(ctx, corpus):
    from mapproxy.cache import path as mpath
    rng = ctx.rng
    texts = list(corpus.get('sanitise', [])) + list(SEEDS) + [c for c in SPECIAL]
    for _ in range(ctx.n(500, 4000)):
        texts.append(gen_text(rng, rng.choice([8, 24, 60])))
    # twins that collide under a non-injective escaping
    for s in list(texts[:200]):
        if any(c in s for c in '/\\\0%'):
            texts.append(s.replace('/', '%2F'))
            texts.append(s.replace('\\', '%5C').replace('\0', '%00'))
            texts.append(s.replace('%', '%25'))
    seen, uniq = set(), []
    for t in texts:
        if t not in seen:
            seen.add(t)
            uniq.append(t)
    terms, descr, outputs = [], [], {}
    for s in uniq:
        o = call(mpath._path_component, s)
        ctx.case(('sanitise', s), interesting(s), {'stream': 'sanitise', 'input': s, 'output': o[1]})
        ctx.count('sanitise')
        rep = {'function': 'mapproxy.cache.path._path_component', 'input': s, 'input_code_points': cps(s), 'output': o[1]}
        if o[0] != 'ok' or not isinstance(o[1], str):
            ctx.fail('sanitiser,raised', '_path_component(%r) raised %s' % (s, o[1]), rep)
        else:
            out = o[1]
            for u in UNSAFE:
                if u in out:
                    ctx.fail('sanitiser,unsafe-character', '_path_component(%r) = %r still contains %r' % (s, out, u), rep)
                    break
            else:
                if unescape(out) != s:
                    ctx.fail('sanitiser,not-reversible', '_path_component(%r) = %r does not decode to its input' % (s, out), rep)
                elif out in outputs and outputs[out] != s:
                    ctx.fail('sanitiser,collision', '_path_component maps %r and %r to %r' % (outputs[out], s, out),
                             dict(rep, other_input=outputs[out]))
                outputs.setdefault(out, s)
        terms.append('(%s, %s)' % (strlit(s), obs_lit(o)))
        descr.append(rep)
    ctx.corr_check('sanitise', MODEL, 'str * option str', terms,
                   'fun c => opt_eqb str_eqb (Some (path_component (fst c))) (snd c) && opt_eqb str_eqb (Some (encode (fst c))) (snd c)',
                   lambda i: descr[i])


# --------------------------------------------------------------------------- stream: dimensions_part

def canon_dims(d):
    """what NoCaseMultiDict makes of the dict: lower-cased keys, first value"""
    out = {}
    for k, v in d.items():
        out.setdefault(k.lower(), v)
    return out


def oracle_dims_part(ctx, d, out, seen, where):
    rep = {'function': where, 'dimensions': d, 'dimension_items_code_points': [[cps(k), cps(v)] for k, v in d.items()], 'output': out}
    comps = out.split('/')
    canon = canon_dims(d)
    for c in comps:
        why = component_problem(c)
        if why:
            ctx.fail('dimensions,' + why, '%s(%r) = %r has the component %r (%s)' % (where, d, out, c, why), rep)
            return
    if not below('/cache/root', posixpath.join('/cache/root', out, '00')):
        ctx.fail('dimensions,escapes-root', '%s(%r) = %r resolves outside the cache directory' % (where, d, out), rep)
        return
    if len(comps) != len(canon):
        ctx.fail('dimensions,component-count', '%s(%r) = %r has %d components for %d dimensions' % (where, d, out, len(comps), len(canon)), rep)
        return
    key = tuple(sorted(canon))
    prev = seen.setdefault((key, out), canon)
    if prev != canon:
        ctx.fail('dimensions,collision', 'dimension values %r and %r (same dimension names) share the directory %r' % (prev, canon, out),
                 dict(rep, other_dimensions=prev))


def stream_dims(ctx, corpus):
    from mapproxy.cache import path as mpath
    rng = ctx.rng
    cases = [dict(d) for d in corpus.get('dims', [])]
    cases += [{'time': '../../../x'}, {'DIM_/../../y': '1'}, {'time': 'a/b'}, {'time': 'a%2Fb'}, {'time': 'a%252Fb'}, {'TIME': 'a', 'time': 'b'},
              {'time': 'b', 'TIME': 'a'}, {'dim_b': '1', 'dim_a': '2', 'time': '3', 'elevation': '4', 'zeta': '5'}, {'time': ''}, {'': ''},
              {'': '..'}, {'.': '.'}, {'dim_x': '\0'}, {'dim_x': '\\..\\..'}, {'d\u0130m_x': '1', 'dim_y': '2'}, {'DIM_\u0130': '/'},
              {'time': '.'}, {'time': '..'}, {'elevation': '/'}, {'/': '/'}, {'..': '..'}, {'a': 'b', 'A': 'c'},
              {'time': 'x%2F/../../../../../escaped'}, {'DIM_%25/../../../y': '1'}, {'elevation': '%5C\\..\\..'}, {'dim_x': '%00/../..\0'},
              {'time': 'a%2F/b'}, {'time': 'a%252F%2Fb'}]
    for _ in range(ctx.n(450, 3500)):
        d = gen_dims(rng)
        cases.append(d)
        if rng.random() < 0.3:
            # same names, one value replaced by an "already escaped" twin
            k = rng.choice(list(d))
            d2 = dict(d)
            d2[k] = rng.choice([d[k].replace('/', '%2F'), d[k].replace('%', '%25'), d[k].replace('\\', '%5C'), d[k] + '%00', d[k].replace('\0', '%00')])
            cases.append(d2)
    terms, descr, seen = [], [], {}
    for d in cases:
        o = call(mpath.dimensions_part, d)
        nontriv = any(interesting(k) or interesting(v) for k, v in d.items())
        ctx.case(('dims', tuple(d.items())), nontriv, {'stream': 'dims', 'dimensions': d, 'output': o[1]})
        ctx.count('dims n=%d' % len(d))
        if o[0] != 'ok' or not isinstance(o[1], str):
            ctx.fail('dimensions,raised', 'dimensions_part(%r) raised %s' % (d, o[1]),
                     {'function': 'mapproxy.cache.path.dimensions_part', 'dimensions': d})
        else:
            oracle_dims_part(ctx, d, o[1], seen, 'mapproxy.cache.path.dimensions_part')
        terms.append('(%s, %s)' % (dimslit(d), obs_lit(o)))
        descr.append({'function': 'mapproxy.cache.path.dimensions_part', 'dimensions': d,
                      'dimension_items_code_points': [[cps(k), cps(v)] for k, v in d.items()], 'output': o[1]})
    ctx.corr_check('dims', MODEL, 'dims * option str', terms,
                   'fun c => opt_eqb str_eqb (Some (dimensions_part py_lower (fst c))) (snd c)', lambda i: descr[i])


# --------------------------------------------------------------------------- stream: tile / level / lock file names

LAYOUTS = ['tc', 'mp', 'tms', 'reverse_tms', 'quadkey', 'arcgis']
LAYOUT_FN = {'tc': 'tile_location_tc', 'mp': 'tile_location_mp', 'tms': 'tile_location_tms', 'reverse_tms': 'tile_location_reverse_tms',
             'quadkey': 'tile_location_quadkey', 'arcgis': 'tile_location_arcgiscache'}
ROOTS = ['/cache/root', '/cache/root/', 'rel/cache', '/', '/c/./d', '/a//b', '']


def gen_coord(rng, zmax=40):
    def one():
        r = rng.random()
        if r < 0.35:
            return rng.randrange(0, 64)
        if r < 0.55:
            return rng.choice([999, 1000, 1001, 9999, 10000, 999999, 1000000, 1000001, 999999999, 10 ** 9, 2 ** 31 - 1, 2 ** 31, 2 ** 32, 2 ** 40 + 123456789])
        if r < 0.75:
            return -rng.choice([1, 2, 9, 10, 999, 1000, 1001, 123456, 1000000, 2 ** 31, 2 ** 33 + 7])
        return rng.randrange(0, 2 ** rng.choice([8, 16, 24, 31, 40, 45]))
    z = rng.choice([0, 0, 1, 2, 3, 5, 9, 10, 17, 22, 30, zmax, 99, 100, 12345]) if zmax > 40 else rng.choice([0, 0, 1, 2, 3, 5, 9, 10, 17, 22, 30, zmax])
    return one(), one(), z


def stream_paths(ctx, corpus):
    from mapproxy.cache import path as mpath
    from mapproxy.cache.tile import Tile
    from mapproxy.cache.base import TileLocker
    rng = ctx.rng
    terms, descr = [], []
    for i in range(ctx.n(420, 3000)):
        layout = LAYOUTS[i % len(LAYOUTS)]
        x, y, z = gen_coord(rng, 40 if layout == 'quadkey' else 100)
        if layout == 'quadkey' and z > 40:
            z = 40
        root = ROOTS[0] if rng.random() < 0.6 else rng.choice(ROOTS)
        ext = rng.choice(['png', 'jpeg', 'tiff', 'mixed', 'p'])
        d = gen_dims(rng) if rng.random() < 0.7 else (None if rng.random() < 0.5 else {})
        fn = getattr(mpath, LAYOUT_FN[layout], None)
        o = call(fn, Tile((x, y, z)), root, ext, dimensions=d) if fn else ('raised', 'missing')
        rep = {'function': 'mapproxy.cache.path.' + LAYOUT_FN[layout], 'coord': [x, y, z], 'cache_dir': root, 'file_ext': ext, 'dimensions': d,
               'output': o[1]}
        ctx.case(('tilepath', layout, x, y, z, root, ext, tuple((d or {}).items())), bool(d) or min(x, y) < 0 or max(x, y) >= 2 ** 31,
                 dict(rep, stream='tilepath'))
        ctx.count('tilepath ' + layout)
        if o[0] != 'ok' or not isinstance(o[1], str):
            ctx.fail('tilepath,raised', '%s raised %s for %r' % (LAYOUT_FN[layout], o[1], rep), rep)
        elif root and not below(root, o[1]):
            ctx.fail('tilepath,escapes-root', '%s: %r is not below the cache directory %r' % (LAYOUT_FN[layout], o[1], root), rep)
        terms.append('(0, %s, %s, %s, (%s, %s, %s), %s, %s)' % (slit(layout), strlit(root), dimslit(d or {}), zlit(x), zlit(y), zlit(z), slit(ext), obs_lit(o)))
        descr.append(rep)
    for i in range(ctx.n(120, 800)):
        level = rng.choice([0, 1, 2, 9, 10, 22, 99, 100, 12345, -1, -10])
        root = ROOTS[0] if rng.random() < 0.6 else rng.choice(ROOTS)
        d = gen_dims(rng) if rng.random() < 0.8 else None
        o = call(mpath.level_location, level, root, d)
        rep = {'function': 'mapproxy.cache.path.level_location', 'level': level, 'cache_dir': root, 'dimensions': d, 'output': o[1]}
        ctx.case(('levelpath', level, root, tuple((d or {}).items())), bool(d), dict(rep, stream='levelpath'))
        ctx.count('levelpath')
        if o[0] != 'ok' or not isinstance(o[1], str):
            ctx.fail('levelpath,raised', 'level_location raised %s for %r' % (o[1], rep), rep)
        elif root and not below(root, o[1]):
            ctx.fail('levelpath,escapes-root', 'level_location: %r is not below the cache directory %r' % (o[1], root), rep)
        terms.append('(1, "", %s, %s, (%s, 0, 0), "", %s)' % (strlit(root), dimslit(d or {}), zlit(level), obs_lit(o)))
        descr.append(rep)
    for i in range(ctx.n(120, 800)):
        x, y, z = gen_coord(rng, 100)
        lock_dir = rng.choice(['/locks', '/cache/root/tile_locks', 'rel/locks/', '/l//k'])
        cid = rng.choice(['', 'mbtiles-', 'sqlite-', 'gpkg', 'gpkg-', 'compactcache-', 'couchdb-', 'redis-']) + '%032x' % rng.getrandbits(128)
        o = call(lambda: TileLocker(lock_dir, 10, cid).lock_filename(Tile((x, y, z))))
        rep = {'function': 'mapproxy.cache.base.TileLocker.lock_filename', 'coord': [x, y, z], 'lock_dir': lock_dir, 'lock_cache_id': cid, 'output': o[1]}
        ctx.case(('lockname', x, y, z, lock_dir, cid), min(x, y) < 0 or max(x, y) >= 2 ** 31, dict(rep, stream='lockname'))
        ctx.count('lockname')
        if o[0] != 'ok' or not isinstance(o[1], str):
            ctx.fail('lockname,raised', 'lock_filename raised %s for %r' % (o[1], rep), rep)
        elif not below(lock_dir, o[1]) or posixpath.dirname(posixpath.normpath(o[1])) != posixpath.normpath(lock_dir):
            ctx.fail('lockname,escapes-lock-dir', 'lock_filename: %r is not a file directly in the lock directory %r' % (o[1], lock_dir), rep)
        terms.append('(2, "", %s, [(%s, [])], (%s, %s, %s), "", %s)' % (strlit(lock_dir), strlit(cid), zlit(x), zlit(y), zlit(z), obs_lit(o)))
        descr.append(rep)
    # the methods of FileCache (any path construction inside cache/file.py itself is covered here), every layout, hostile names and values
    from mapproxy.cache.file import FileCache
    hostile = [{'DIM_/../../../../x': '1'}, {'dim_/../../../../x': '../../../../y'}, {'TIME': '../../../../x'}, {'elevation': '/abs'},
               {'dim_..': '..'}, {'DIM_\\..\\..': '\\..\\x'}, {'dim_a/../../..': 'a/b', 'time': '2020-01-01'}, {'dim_\0': '\0'},
               {'/../../../..': 'v'}, {'..': '..'}, {'': '/../../../..'},
               {'TIME': 'x%2F/../../../../../escaped'}, {'DIM_%25/../../../../n': '%5C/../../../../v'}]
    for i in range(ctx.n(360, 2400)):
        layout = LAYOUTS[i % len(LAYOUTS)]
        x, y, z = gen_coord(rng, 40)
        root = ROOTS[0] if rng.random() < 0.7 else rng.choice(ROOTS[:6])
        ext = rng.choice(['png', 'jpeg'])
        d = hostile[(i // len(LAYOUTS)) % len(hostile)] if i < 6 * len(hostile) else (gen_dims(rng) if rng.random() < 0.85 else None)

        def impl():
            return FileCache(root, ext, directory_layout=layout).tile_location(Tile((x, y, z)), dimensions=d)
        o = call(impl)
        rep = {'function': "FileCache(cache_dir, file_ext, directory_layout).tile_location(Tile(coord), dimensions=...)", 'directory_layout': layout,
               'coord': [x, y, z], 'cache_dir': root, 'file_ext': ext, 'dimensions': d, 'output': o[1]}
        ctx.case(('filecache.tile_location', layout, x, y, z, root, ext, tuple((d or {}).items())), bool(d), dict(rep, stream='filecache'))
        ctx.count('filecache.tile_location ' + layout)
        if o[0] != 'ok' or not isinstance(o[1], str):
            ctx.fail('filecache,raised', 'FileCache.tile_location raised %s for %r' % (o[1], rep), rep)
        elif not below(root, o[1]):
            ctx.fail('filecache,tile-escapes-cache-dir', 'FileCache(%r, directory_layout=%r).tile_location(dimensions=%r) = %r is not below the cache directory'
                     % (root, layout, d, o[1]), rep)
        terms.append('(0, %s, %s, %s, (%s, %s, %s), %s, %s)' % (slit(layout), strlit(root), dimslit(d or {}), zlit(x), zlit(y), zlit(z), slit(ext), obs_lit(o)))
        descr.append(rep)
    for i in range(ctx.n(150, 900)):
        layout = LAYOUTS[i % len(LAYOUTS)]
        level = rng.choice([0, 1, 2, 9, 10, 22, 99, 100, 12345])
        root = ROOTS[0] if rng.random() < 0.7 else rng.choice(ROOTS[:6])
        d = hostile[(i // len(LAYOUTS)) % len(hostile)] if i < 6 * len(hostile) else (gen_dims(rng) if rng.random() < 0.85 else None)

        def impl2():
            c = FileCache(root, 'png', directory_layout=layout)
            if c.level_location is None:
                return None
            return c.level_location(level, dimensions=d)
        o = call(impl2)
        if o[0] == 'raised' and o[1] == 'NotImplementedError':
            o = ('ok', None)      # quadkey: no level directories
        rep = {'function': "FileCache(cache_dir, 'png', directory_layout).level_location(level, dimensions=...)", 'directory_layout': layout,
               'level': level, 'cache_dir': root, 'dimensions': d, 'output': o[1]}
        ctx.case(('filecache.level_location', layout, level, root, tuple((d or {}).items())), bool(d), dict(rep, stream='filecache'))
        ctx.count('filecache.level_location ' + layout)
        if o[0] != 'ok':
            ctx.fail('filecache,raised', 'FileCache.level_location raised %s for %r' % (o[1], rep), rep)
        elif isinstance(o[1], str) and not below(root, o[1]):
            ctx.fail('filecache,level-escapes-cache-dir', 'FileCache(%r, directory_layout=%r).level_location(%r, dimensions=%r) = %r is not below the cache directory'
                     % (root, layout, level, d, o[1]), rep)
        terms.append('(3, %s, %s, %s, (%s, 0, 0), "", %s)' % (slit(layout), strlit(root), dimslit(d or {}), zlit(level), obs_lit(o)))
        descr.append(rep)
    # legend cache: LegendCache.load computes the file name from legend_hash(identifier, scale)
    from mapproxy.cache.legend import LegendCache, Legend, legend_hash
    scales = [None, 1000.0, 0.5, 25000, float('nan'), float('inf'), -1.0, 1e300, 0.0, '1:25000', '../../../x', '1/../../../../x', '/abs', '..', '', 'a\\..\\b',
              '%2e%2e%2f', 'x' * 300]
    for i in range(ctx.n(90, 600)):
        ident = 'http://upstream.invalid/service?' + gen_text(rng, 6) + rng.choice(['', 'layer', '/../x'])
        scale = scales[i % len(scales)] if i < 2 * len(scales) else rng.choice(scales + [gen_text(rng, 6), rng.random() * 1e6])
        root = rng.choice(['/cache/root/legends', '/cache/root/legends/', 'rel/legends'])
        ext = rng.choice(['png', 'jpeg'])

        def impl3():
            lg = Legend(id=ident, scale=scale)
            LegendCache(cache_dir=root, file_ext=ext).load(lg)
            return legend_hash(ident, scale), lg.location
        o = call(impl3)
        if o[0] == 'raised' and o[1] in ('UnicodeEncodeError',):
            continue     # refused before any file name exists
        rep = {'function': 'LegendCache(cache_dir, file_ext).load(Legend(id, scale)) -> legend.location', 'identifier': ident, 'scale': repr(scale),
               'cache_dir': root, 'file_ext': ext, 'output': o[1]}
        ctx.case(('legend', ident, repr(scale), root, ext), isinstance(scale, str), dict(rep, stream='legend'))
        ctx.count('legend location')
        h = ''
        if o[0] != 'ok' or not isinstance(o[1][1], str):
            ctx.fail('legend,raised', 'LegendCache.load raised %s for %r' % (o[1], rep), rep)
            lo = ('raised', None)
        else:
            h, loc = o[1]
            lo = ('ok', loc)
            if not re.match(r'^[0-9a-f]{32}$', str(h)):
                ctx.fail('legend,name-is-not-a-digest', 'legend_hash(%r, %r) = %r is not an md5 hex digest: request text reaches the file name' % (ident, scale, h), rep)
            if not below(root, loc) or posixpath.dirname(posixpath.normpath(loc)) != posixpath.normpath(root):
                ctx.fail('legend,escapes-legend-dir', 'legend for scale %r is kept at %r, not directly in the legend cache directory %r' % (scale, loc, root), rep)
        if all(ord(c) < 0x110000 for c in str(h)):
            terms.append('(5, "", %s, [(%s, [])], (0, 0, 0), %s, %s)' % (strlit(root), strlit(str(h)), slit(ext), obs_lit(lo)))
            descr.append(rep)
    checker = ("fun c => let '(kind, layout, root, dm, xyz, ext, out) := c in let '(x, y, z) := xyz in "
               "opt_eqb str_eqb (model_path kind layout root dm x y z ext) out")
    defs = ('Definition model_path (kind : Z) (layout : string) (root : str) (dm : dims) (x y z : Z) (ext : string) : option str :=\n'
            '  if kind =? 0 then match location_funcs layout with Some f => Some (tile_path py_lower f root dm x y z ext) | None => None end\n'
            '  else if kind =? 1 then Some (level_location py_lower root dm x)\n'
            '  else if kind =? 3 then file_level_location py_lower layout root dm x\n'
            '  else if kind =? 5 then Some (legend_location root (match dm with (h, _) :: _ => h | [] => [] end) ext)\n'
            '  else Some (lock_filename root (match dm with (cid, _) :: _ => cid | [] => [] end) x y z).\n')
    ctx.corr_check('paths', MODEL, 'Z * string * str * dims * (Z * Z * Z) * string * option str', terms, checker,
                   lambda i: descr[i], defs=defs)


# --------------------------------------------------------------------------- stream: multiapp and demo static names

# instance names as servers that pass the raw (or doubly encoded) request path deliver them
ENCODED_NAMES = ['/..%2Foutside%2Fevil/service', '/..%2foutside%2fevil/service', '/%2e%2e%2Foutside%2Fevil/service', '/%2E%2E/outside/evil/service',
                 '/..%252Foutside%252Fevil/service', '/%252e%252e%252Foutside%252Fevil/service', '/..%5Coutside%5Cevil/service', '/..%c0%afoutside%c0%afevil/x',
                 '/mapproxy%2F..%2F..%2Foutside%2Fevil/service', '/%2Fetc%2Fpasswd/x', '/..%2F..%2F..%2Fetc%2Fpasswd%00/x', '/..%2Fprivate%2Finternal/service',
                 '/%2e%2e/x', '/%2e/x', '/.%2e/x', '/%252e%252e/x', '/evil%2Eyaml/x', '/..%00/x', '/%00', '/..%2F', '/%2F', '/%2F%2F']


def multiapp_handle_impl(p):
    """run the real MultiMapProxy.handle with a loader that records the instance name it is asked for"""
    from mapproxy.request.base import Request
    from mapproxy.multiapp import MultiMapProxy, ConfLoader
    asked = []

    class Rec(ConfLoader):
        def app_available(self, app_name):
            asked.append(app_name)
            return False

        def available_apps(self):
            return []

        def needs_reload(self, app_name, timestamps):
            return True

        def app_conf(self, app_name):
            asked.append(app_name)
            return None
    env = {'PATH_INFO': p, 'SCRIPT_NAME': '', 'REQUEST_METHOD': 'GET', 'SERVER_NAME': 'localhost', 'SERVER_PORT': '80', 'HTTP_HOST': 'localhost',
           'wsgi.url_scheme': 'http', 'QUERY_STRING': ''}
    MultiMapProxy(Rec(), list_apps=False).handle(Request(env))
    return asked[0] if asked else None


def stream_names(ctx, corpus):
    from mapproxy.request.base import Request
    from mapproxy.multiapp import DirectoryConfLoader
    rng = ctx.rng
    paths = list(corpus.get('request_paths', []))
    paths += ['/app/service', '/../x', '/..', '/../../etc/passwd', '//app//x', '', '/', '/app', 'app', '/./x', '/.', '/%2e%2e/x', '/a\\..\\b/x', '/a\0b/c',
              '/demo/static/site.css', '/demo/static/../../../etc/passwd', '/demo/static/..', '/demo/static/.../x', '/demo/static//etc/passwd',
              '/demo/static/%2e%2e/x', '/demo/static/.\\./x', '/demo/static/a/./b', '/demo/static/']
    paths += ENCODED_NAMES
    for _ in range(ctx.n(300, 2500)):
        segs = [gen_text(rng, 5) if rng.random() < 0.6 else rng.choice(['app', 'demo', 'static', '..', '.', '', 'x.yaml', 'service']) for _ in range(rng.choice([1, 2, 3, 4]))]
        p = rng.choice(['/', '/', '//', '', '/demo/static/', '/demo/static/']) + '/'.join(segs)
        paths.append(p)
    terms, descr = [], []
    base = '/conf/dir'
    tdir = '/tmpl/dir'
    for p in paths:
        def impl():
            env = {'PATH_INFO': p, 'SCRIPT_NAME': ''}
            name = Request(env).pop_path()
            return name, DirectoryConfLoader(base).filename_from_app_name(name)
        o = call(impl)
        rep = {'function': 'Request.pop_path + DirectoryConfLoader.filename_from_app_name', 'path': p, 'path_code_points': cps(p), 'output': o[1]}
        ctx.case(('multiapp', p), interesting(p), dict(rep, stream='multiapp'))
        ctx.count('multiapp')
        if o[0] != 'ok':
            ctx.fail('multiapp,raised', 'pop_path/filename_from_app_name raised %s for %r' % (o[1], p), rep)
            fo = o
        else:
            name, fn = o[1]
            fo = ('ok', fn)
            # MultiMapProxy.handle only asks the loader for non-empty names
            if name and '\0' not in fn and (not below(base, fn) or posixpath.dirname(posixpath.normpath(fn)) != base):
                ctx.fail('multiapp,escapes-config-dir', 'request path %r selects the configuration file %r outside %r' % (p, fn, base), rep)
        terms.append('(0, %s, %s)' % (strlit(p), obs_lit(fo)))
        descr.append(rep)
        # the name MultiMapProxy.handle really asks its loader for
        o3 = call(multiapp_handle_impl, p)
        rep3 = {'function': 'MultiMapProxy.handle -> loader.app_available(name)', 'path': p, 'path_code_points': cps(p), 'output': o3[1]}
        ctx.case(('multiapp.handle', p), interesting(p), dict(rep3, stream='multiapp.handle'))
        ctx.count('multiapp.handle')
        if o3[0] != 'ok':
            ctx.fail('multiapp,raised', 'MultiMapProxy.handle raised %s for %r' % (o3[1], p), rep3)
        elif o3[1] is not None:
            fn3 = DirectoryConfLoader(base).filename_from_app_name(o3[1])
            if '\0' not in fn3 and (not below(base, fn3) or posixpath.dirname(posixpath.normpath(fn3)) != base):
                ctx.fail('multiapp,escapes-config-dir', 'PATH_INFO %r makes MultiMapProxy look for the instance %r = configuration file %r outside %r'
                         % (p, o3[1], fn3, base), rep3)
        terms.append('(2, %s, %s)' % (strlit(p), obs_lit(o3)))
        descr.append(rep3)
        if p.startswith('/demo/static/'):
            o2 = demo_static_impl(p, tdir)
            rep2 = {'function': 'DemoServer.handle static file name (os.path.isfile argument)', 'path': p, 'path_code_points': cps(p), 'output': o2[1]}
            ctx.case(('demostatic', p), interesting(p), dict(rep2, stream='demostatic'))
            ctx.count('demostatic')
            if o2[0] == 'ok' and isinstance(o2[1], str) and not (below(tdir, o2[1], nul_ok=True) or posixpath.normpath(o2[1]) == tdir):
                ctx.fail('demo,static-escapes-template-dir', 'request path %r makes the demo service look at %r outside %r' % (p, o2[1], tdir), rep2)
            terms.append('(1, %s, %s)' % (strlit(p), obs_lit(o2)))
            descr.append(rep2)
    checker = ("fun c => let '(kind, p, out) := c in if kind =? 0 then opt_eqb str_eqb (Some (app_filename %s (pop_path p))) out "
               "else if kind =? 2 then opt_eqb str_eqb (match pop_path p with [] => None | n => Some n end) out "
               "else opt_eqb str_eqb (demo_static_filename %s p) out" % (strlit(base), strlit(tdir)))
    ctx.corr_check('names', MODEL, 'Z * str * option str', terms, checker, lambda i: descr[i])


def demo_static_impl(p, tdir):
    """run DemoServer.handle for a /demo/static/ path with base_config().template_dir = tdir and report the file
    name it tests with os.path.isfile (None: refused before any file-system access)"""
    from mapproxy.service import demo
    from mapproxy.request.base import Request
    from mapproxy.config import base_config
    seen = []
    real_isfile = demo.os.path.isfile

    class _Path(object):
        def __getattr__(self, n):
            return getattr(posixpath, n)

        def isfile(self, fn):
            seen.append(fn)
            return False

    class _Os(object):
        path = _Path()

        def __getattr__(self, n):
            return getattr(os, n)

    cfg = base_config()
    old_t = cfg.template_dir
    old_os = demo.os
    try:
        cfg.template_dir = tdir
        demo.os = _Os()
        srv = demo.DemoServer.__new__(demo.DemoServer)
        try:
            srv.handle(Request({'PATH_INFO': p, 'SCRIPT_NAME': ''}))
        except Exception as e:  # noqa
            if not seen:
                return ('raised', type(e).__name__)
    finally:
        demo.os = old_os
        cfg.template_dir = old_t
    del real_isfile
    if not seen:
        return ('ok', None)
    return ('ok', str(seen[0]))


# --------------------------------------------------------------------------- stream: util/fs.py under the audit hook

def stream_fsops(ctx, corpus):
    """ensure_directory / write_atomic of mapproxy.util.fs run for real in a scratch directory; the os.mkdir / os.chmod / open /
    os.rename calls they make (audit events) are compared with ensure_dir_ops / tmp_suffix and judged directly: nothing that
    existed before the call may be touched, the temporary file is a sibling of its target."""
    from mapproxy.util import fs
    from mapproxy.cache import path as mpath
    rng = ctx.rng
    audit = Audit.get()
    base = os.path.realpath(ctx.tmpdir('c09fsops'))
    names = ['a', 'cache_data', '02', '000', 'time-2020', 'x.y', '...', '-', ' ', 'caf\u00e9']
    terms, descr, terms2, descr2 = [], [], [], []
    ncase = ctx.n(160, 1200)
    for i in range(ncase):
        n = rng.choice([1, 1, 2, 3, 4, 6])
        comps = []
        for _ in range(n):
            c = rng.choice(names) if rng.random() < 0.6 else mpath._path_component('time-' + gen_text(rng, 5))[:60]
            if c in ('', '.', '..') or '/' in c or '\0' in c:
                c = 'n'
            comps.append(c)
        k = rng.randrange(0, n + 1) if i >= 2 * 7 else (i % 7) % (n + 1)
        perm = rng.choice([None, None, '755', '700', '777'])
        case_dir = os.path.join(base, 'e%d' % i)
        os.makedirs(os.path.join(case_dir, *comps[:k]))
        before = {}
        for j in range(k + 1):
            dpath = os.path.join(case_dir, *comps[:j])
            os.chmod(dpath, 0o750)
            before[dpath] = os.stat(dpath).st_mode & 0o7777
        target = os.path.join(case_dir, *(comps + ['tile.png']))
        with audit.record() as rec:
            o = call(fs.ensure_directory, target, perm)
        ops = []
        for kind, event, paths in rec.events:
            if event in ('os.mkdir', 'os.chmod'):
                ops.append((event == 'os.chmod', os.path.normpath(_fs_text(paths[0]))))
        rep = {'function': 'mapproxy.util.fs.ensure_directory(file_name, directory_permissions)', 'file_name': '<scratch>/' + '/'.join(comps + ['tile.png']),
               'existing_before_the_call': '<scratch>/' + '/'.join(comps[:k]), 'directory_permissions': perm,
               'calls': [('chmod' if c else 'mkdir', os.path.relpath(p_, case_dir)) for c, p_ in ops], 'result': o[1] if o[0] != 'ok' else 'ok'}
        ctx.case(('ensure_directory', tuple(comps), k, perm), True, dict(rep, stream='fsops'))
        ctx.count('fsops ensure_directory perm=%s' % bool(perm))
        if o[0] != 'ok':
            ctx.fail('fsops,raised', 'ensure_directory raised %s: %r' % (o[1], rep), rep)
        created = set(p_ for c, p_ in ops if not c)
        for c, p_ in ops:
            if p_ in before or not (p_ == case_dir or p_.startswith(case_dir + '/')):
                ctx.fail('fsops,pre-existing-directory-touched', 'ensure_directory(%s, %r) with %s already existing calls %s on the pre-existing directory %s'
                         % (rep['file_name'], perm, rep['existing_before_the_call'], 'chmod' if c else 'mkdir', os.path.relpath(p_, base)), rep)
                break
            if c and p_ not in created:
                ctx.fail('fsops,chmod-of-a-directory-not-created', 'ensure_directory chmods %s which it did not create' % os.path.relpath(p_, base), rep)
                break
        else:
            for dpath, mode in before.items():
                if os.stat(dpath).st_mode & 0o7777 != mode:
                    ctx.fail('fsops,pre-existing-directory-touched', 'ensure_directory(%s, %r) changed the mode of the pre-existing directory %s from %o to %o'
                             % (rep['file_name'], perm, os.path.relpath(dpath, base), mode, os.stat(dpath).st_mode & 0o7777), rep)
                    break

        def dlit(p_):
            rel = os.path.relpath(p_, case_dir)
            parts = [] if rel == '.' else rel.split('/')
            return '[' + '; '.join(strlit(x) for x in reversed(parts)) + ']'
        obs = '[' + '; '.join('(%s, %s)' % (common.blit(c), dlit(p_)) for c, p_ in ops) + ']' if o[0] == 'ok' else '[(true, [[0]])]'
        terms.append('(%d%%nat, %s, %s, %s)' % (k, common.blit(bool(perm)), '[' + '; '.join(strlit(x) for x in reversed(comps)) + ']', obs))
        descr.append(rep)
        # write_atomic into the directory just made
        name = rng.choice(['tile.png', '000.png', 'a', '.png', 'x.tmp-1', '-'])
        tfile = os.path.join(os.path.dirname(target), name)
        with audit.record() as rec:
            o = call(fs.write_atomic, tfile, b'data')
        opened = [_fs_text(p_[0]) for kd, ev, p_ in rec.events if ev == 'open' and kd == 'write']
        renamed = [[_fs_text(x) for x in p_] for kd, ev, p_ in rec.events if ev == 'os.rename']
        others = [(ev, [_fs_text(x) for x in p_]) for kd, ev, p_ in rec.events if kd == 'write' and ev not in ('open', 'os.rename')]
        rep2 = {'function': 'mapproxy.util.fs.write_atomic(filename, data)', 'filename': '<scratch>/' + os.path.relpath(tfile, base),
                'opened_for_writing': opened, 'renamed': renamed, 'other_modifying_calls': others, 'result': o[1] if o[0] != 'ok' else 'ok'}
        ctx.case(('write_atomic', i, name), True, dict(rep2, stream='fsops'))
        ctx.count('fsops write_atomic')
        tmpbase, r = None, None
        if o[0] != 'ok' or len(opened) != 1 or len(renamed) != 1 or others:
            ctx.fail('fsops,write-atomic-unexpected-calls', 'write_atomic(%s): %r' % (rep2['filename'], rep2), rep2)
        else:
            t = opened[0]
            if os.path.dirname(os.path.normpath(t)) != os.path.dirname(tfile) or renamed[0] != [t, tfile]:
                ctx.fail('fsops,temporary-file-not-next-to-target', 'write_atomic(%s) writes its temporary file %s (renamed %r)' % (rep2['filename'], t, renamed[0]), rep2)
            m = re.match(r'^(.*)\.tmp-(\d+)$', os.path.basename(t))
            if m and m.group(1) == name and str(int(m.group(2))) == m.group(2):
                tmpbase, r = os.path.basename(t), int(m.group(2))
        terms2.append('(%s, %s, %s)' % (strlit(name), zlit(r if r is not None else -1), strlit(tmpbase if tmpbase is not None else '?')))
        descr2.append(rep2)
    # ---- TileLocker.lock: with a usable lock directory and with the fault "lock directory cannot be created"
    import tempfile
    from mapproxy.cache.base import TileLocker
    from mapproxy.cache.tile import Tile
    old_tmp = tempfile.tempdir
    try:
        for i in range(ctx.n(24, 120)):
            ldir_root = os.path.join(base, 'lk%d' % i)
            os.makedirs(ldir_root)
            systmp = os.path.join(ldir_root, 'system-tmp')
            os.makedirs(systmp)
            tempfile.tempdir = systmp
            fault = i % 2 == 1
            if fault:
                with open(os.path.join(ldir_root, 'volume'), 'w') as f:
                    f.write('x')
                lock_dir = os.path.join(ldir_root, 'volume', 'tile_locks')
            else:
                lock_dir = os.path.join(ldir_root, rng.choice(['tile_locks', 'a/b/tile_locks']))
            coord = gen_coord(rng, 30)
            locker = TileLocker(lock_dir, 2, 'cafe%028x' % i)
            want = locker.lock_filename(Tile(coord))

            def impl4():
                lk = locker.lock(Tile(coord))
                with lk:
                    return sorted(os.listdir(lock_dir)) if os.path.isdir(lock_dir) else None
            with audit.record() as rec:
                o = call(impl4)
            writes = [(ev, [os.path.normpath(_fs_text(x)) for x in p_]) for kd, ev, p_ in rec.events if kd == 'write']
            rep = {'function': 'TileLocker(lock_dir, 2, id).lock(Tile(coord)) used as context manager', 'coord': list(coord),
                   'lock_dir': os.path.relpath(lock_dir, base), 'fault': 'the parent of lock_dir is a regular file (ENOTDIR)' if fault else None,
                   'tempfile.gettempdir()': os.path.relpath(systmp, base), 'result': o[1] if o[0] != 'ok' else 'ok',
                   'modifying_calls': [(ev, [os.path.relpath(x, base) for x in ps]) for ev, ps in writes]}
            ctx.case(('tilelocker', i, fault), True, dict(rep, stream='fsops'))
            ctx.count('fsops tilelocker fault=%s' % fault)
            for ev, ps in writes:
                for x in ps:
                    anc_ok = ev == 'os.mkdir' and (lock_dir == x or lock_dir.startswith(x + '/'))
                    if not (x == lock_dir or x.startswith(lock_dir + '/') or anc_ok):
                        ctx.fail('fsops,lock-file-outside-lock-dir', 'TileLocker.lock(%r) with lock_dir %s%s: %s of %s' % (
                            list(coord), rep['lock_dir'], ' (fault: cannot be created)' if fault else '', ev, os.path.relpath(x, base)), rep)
                        break
                else:
                    continue
                break
            if os.listdir(systmp):
                ctx.fail('fsops,lock-file-outside-lock-dir', 'TileLocker.lock left %r in tempfile.gettempdir()' % os.listdir(systmp), rep)
            if not fault and o[0] == 'ok' and o[1] != [os.path.basename(want)]:
                ctx.fail('fsops,lock-file-name', 'while the lock is held lock_dir contains %r, expected %r' % (o[1], os.path.basename(want)), rep)
    finally:
        tempfile.tempdir = old_tmp
    # ---- FileCache with link_single_color_images: tiles at different depths (dimension directories), deepest first
    from io import BytesIO
    from PIL import Image
    from mapproxy.cache.file import FileCache
    from mapproxy.image import ImageSource
    terms3, descr3 = [], []
    # FileCache._single_color_tile_location(colour): a function of cache_dir, colour and file_ext alone (every byte value, RGB / RGBA / LA)
    terms4, descr4 = [], []
    colours = [(254, 0, 4), (0, 0, 0), (255, 255, 255), (9, 10, 15), (16, 17, 159), (160, 200, 30, 0), (1, 2, 3, 255), (7,), (128, 255)]
    colours += [(v, (v * 7) % 256, 255 - v) for v in range(0, 256, 5)]
    for k, colour in enumerate(colours):
        layout = LAYOUTS[k % len(LAYOUTS)]
        croot = ROOTS[k % 6]
        ext = ['png', 'jpeg', 'tiff'][k % 3]
        o = call(lambda: FileCache(croot, ext, directory_layout=layout, link_single_color_images=True)._single_color_tile_location(colour))
        rep = {'function': 'FileCache(cache_dir, file_ext, directory_layout, link_single_color_images=True)._single_color_tile_location(color)',
               'cache_dir': croot, 'file_ext': ext, 'directory_layout': layout, 'color': list(colour), 'output': o[1]}
        ctx.case(('singlecolourloc', croot, ext, layout, colour), True, dict(rep, stream='fsops'))
        ctx.count('fsops single colour location')
        if o[0] != 'ok' or not isinstance(o[1], str):
            ctx.fail('fsops,raised', '_single_color_tile_location raised %s: %r' % (o[1], rep), rep)
        elif not below(croot, o[1]) or posixpath.dirname(posixpath.normpath(o[1])) != posixpath.normpath(posixpath.join(croot, 'single_color_tiles')):
            ctx.fail('fsops,single-colour-file-not-in-single_color_tiles-of-the-cache-dir',
                     '_single_color_tile_location(%r) of FileCache(%r) = %r is not a file directly in <cache_dir>/single_color_tiles' % (colour, croot, o[1]), rep)
        terms4.append('(%s, [%s], %s, %s)' % (strlit(croot), '; '.join(zlit(v) for v in colour), slit(ext), obs_lit(o)))
        descr4.append(rep)
    dimsets = [{'time': '2020', 'elevation': '100', 'dim_run': 'a'}, {'time': '2020', 'elevation': '100'}, {'time': '2020'}, None, {}, {'time': '../../..'}]
    for i in range(ctx.n(12, 60)):
        # deep below the scratch directory: a file placed 'n directories above the tile' is still inside the scratch directory
        cdir = os.path.join(base, 'sc%d' % i, 'd1', 'd2', 'd3', 'd4', 'd5', 'd6', 'cache')
        layout = ['tc', 'mp', 'tms', 'reverse_tms', 'arcgis', 'quadkey'][i % 6]
        cache = FileCache(cdir, 'png', directory_layout=layout, link_single_color_images=True)
        order = list(dimsets) if i < 6 else rng.sample(dimsets, len(dimsets))
        history = []
        for j, d in enumerate(order):
            coord = (j, i % 3, 2)
            colour = (10 * (i % 5), 20, 30)
            b = BytesIO()
            Image.new('RGB', (8, 8), colour).save(b, 'PNG')
            b.seek(0)
            tile = Tile(coord, ImageSource(b))
            with audit.record() as rec:
                o = call(cache.store_tile, tile, dimensions=d)
            history.append({'store_tile': list(coord), 'dimensions': d})
            links = [p_ for kd, ev, p_ in rec.events if ev == 'os.symlink']
            rep = {'function': "FileCache(cache_dir, 'png', directory_layout, link_single_color_images=True).store_tile(single colour tile, dimensions=...)",
                   'directory_layout': layout, 'history': list(history), 'result': o[1] if o[0] != 'ok' else 'ok',
                   'symlink_calls': [[os.path.relpath(_fs_text(x), base) for x in p_] for p_ in links]}
            ctx.case(('singlecolour', i, j), True, dict(rep, stream='fsops'))
            ctx.count('fsops single colour link')
            if o[0] != 'ok':
                ctx.fail('fsops,raised', 'store_tile raised %s: %r' % (o[1], rep), rep)
                continue
            loc = tile.location
            real = cache._single_color_tile_location(colour)
            terms4.append('(%s, [%s], "png", (Some %s))' % (strlit(cdir), '; '.join(zlit(v) for v in colour), strlit(real)))
            descr4.append(dict(rep, cache_dir='<scratch>/' + os.path.relpath(cdir, base), color=list(colour), single_colour_file='<scratch>/' + os.path.relpath(real, base)))
            if not os.path.islink(loc):
                ctx.fail('fsops,single-colour-tile-not-linked', 'tile %r is not a link' % (loc,), rep)
                continue
            text = os.readlink(loc)
            target = os.path.normpath(os.path.join(os.path.dirname(loc), text))
            written = sorted(set(os.path.normpath(_fs_text(x)) for kd, ev, p_ in rec.events if kd == 'write' for x in p_ if _fs_text(x)))
            stray = [x for x in written if not (x == cdir or x.startswith(cdir + '/') or cdir.startswith(x + '/'))]
            if stray or not (target == cdir or target.startswith(cdir + '/')):
                ctx.fail('fsops,link-in-cache-points-outside-the-cache-dir', 'FileCache(%s, directory_layout=%r, link_single_color_images=True): after %r the tile %s is the link %r '
                         'which resolves to %s; created / written outside the cache directory: %r' % (
                             os.path.relpath(cdir, base), layout, history, os.path.relpath(loc, base), text, os.path.relpath(target, base),
                             [os.path.relpath(x, base) for x in stray]), dict(rep, outside_cache_dir=[os.path.relpath(x, base) for x in stray]))
            elif target != os.path.normpath(real):
                ctx.fail('fsops,single-colour-file-not-in-single_color_tiles-of-the-cache-dir', 'after %r the tile %s is the link %r which resolves to %s (single colour file: %s)' % (
                    history, os.path.relpath(loc, base), text, os.path.relpath(target, base), os.path.relpath(real, base)), rep)
            comps = lambda p_: [x for x in os.path.relpath(p_, cdir).split('/') if x != '.']   # noqa (quadkey: the tile lies in cache_dir itself)
            terms3.append('(%s, %s, %s)' % ('[' + '; '.join(strlit(x) for x in comps(real)) + ']',
                                           '[' + '; '.join(strlit(x) for x in comps(os.path.dirname(loc))) + ']',
                                           '[' + '; '.join(strlit(x) for x in text.split('/')) + ']'))
            descr3.append(rep)
    ctx.corr_check('linktext', MODEL, 'list str * list str * list str', terms3,
                   "fun c => let '(target, tile_dir, text) := c in list_eqb str_eqb (relpath_comps target tile_dir) text", lambda i: descr3[i])
    ctx.corr_check('singlecolourloc', MODEL, 'str * list Z * string * option str', terms4,
                   "fun c => let '(cache_dir, color, ext, out) := c in opt_eqb str_eqb (Some (single_color_location cache_dir color ext)) out", lambda i: descr4[i])
    ctx.corr_check('ensuredir', MODEL, 'nat * bool * list str * list (bool * list str)', terms,
                   "fun c => let '(k, perm, d, obs) := c in "
                   "list_eqb (pair_eqb Bool.eqb (list_eqb str_eqb)) "
                   "(map (fun o => match o with Mkdir x => (false, x) | Chmod x => (true, x) end) "
                   "(ensure_dir_ops (fun x => Nat.leb (List.length x) k) perm d)) obs", lambda i: descr[i])
    ctx.corr_check('tmpname', MODEL, 'str * Z * str', terms2,
                   "fun c => let '(name, r, obs) := c in str_eqb (List.app name (tmp_suffix r)) obs", lambda i: descr2[i])


# --------------------------------------------------------------------------- corpus

def load_corpus():
    d = os.path.join(common.VERIF, 'corpus', ID)
    out = {}
    if os.path.isdir(d):
        for fn in sorted(os.listdir(d)):
            if fn.endswith('.json'):
                try:
                    j = json.load(open(os.path.join(d, fn)))
                except (OSError, ValueError):
                    continue
                for k, v in j.items():
                    if isinstance(v, list):
                        out.setdefault(k, []).extend(v)
    return out


def run(ctx):
    corpus = load_corpus()
    only = os.environ.get('C09_STREAMS')   # development aid: e.g. C09_STREAMS=wsgi,dims ; default: all streams
    for stream in (stream_sanitise, stream_dims, stream_paths, stream_names, stream_fsops, stream_wsgi):
        if only and stream.__name__[len('stream_'):] not in only.split(','):
            ctx.notes.append('stream %s skipped (C09_STREAMS)' % stream.__name__)
            continue
        try:
            stream(ctx, corpus)
        except common.Broken:
            raise
        except Exception as e:  # noqa
            import traceback
            ctx.problem('harness', '%s raised %r' % (stream.__name__, e), traceback.format_exc())


# --------------------------------------------------------------------------- stream: the real WSGI application under an audit hook

WRITE_EVENTS = {'os.mkdir', 'os.rmdir', 'os.remove', 'os.rename', 'os.symlink', 'os.link', 'os.chmod', 'os.chown', 'os.utime',
                'os.truncate', 'os.mkfifo', 'os.mknod', 'shutil.rmtree', 'shutil.move', 'shutil.copyfile', 'shutil.copymode',
                'shutil.copystat', 'shutil.copytree', 'shutil.chown', 'tempfile.mkstemp', 'tempfile.mkdtemp', 'sqlite3.connect'}
READ_EVENTS = {'os.listdir', 'os.scandir', 'glob.glob', 'glob.glob/2', 'pathlib.Path.glob', 'pathlib.Path.rglob', 'os.walk', 'os.fwalk'}
TWO_PATHS = {'os.rename', 'os.link', 'shutil.move', 'shutil.copyfile', 'shutil.copymode', 'shutil.copystat', 'shutil.copytree'}
EXEC_EVENTS = {'subprocess.Popen', 'os.exec', 'os.posix_spawn', 'os.spawn', 'os.system', 'os.startfile', 'os.fork', 'os.forkpty'}


class Audit(object):
    """one interpreter-wide audit hook (hooks cannot be removed); records only while `active`."""
    installed = None

    def __init__(self):
        self.active = False
        self.events = []
        self.lock = threading.Lock()

    @classmethod
    def get(cls):
        if cls.installed is None:
            cls.installed = cls()
            sys.addaudithook(cls.installed.hook)
        return cls.installed

    def hook(self, event, args):
        if not self.active:
            return
        if event in ('socket.connect', 'socket.getaddrinfo', 'socket.gethostbyname', 'socket.gethostbyaddr'):
            with self.lock:
                self.events.append(('network', event, repr(args[-1])[:200]))
            raise RuntimeError('network access blocked by the C09 harness')
        if event == 'open':
            path, mode, flags = (list(args) + [None, None, None])[:3]
            if isinstance(path, int):
                return
            write = False
            if isinstance(mode, str) and any(c in mode for c in 'wax+'):
                write = True
            if isinstance(flags, int) and flags & (os.O_WRONLY | os.O_RDWR | os.O_CREAT | os.O_TRUNC | os.O_APPEND):
                write = True
            with self.lock:
                self.events.append(('write' if write else 'read', 'open', [_abs_now(path)]))
        elif event == 'os.symlink':
            # the link text is interpreted relative to the directory of the link
            src, dst = _fs_text(args[0]), _fs_text(args[1])
            with self.lock:
                dst = _fs_text(_abs_now(dst))
                self.events.append(('write', event, [os.path.join(os.path.dirname(dst or ''), src or ''), dst]))
        elif event in WRITE_EVENTS:
            n = 2 if event in TWO_PATHS else 1
            with self.lock:
                self.events.append(('write', event, [_abs_now(a) for a in args[:n]]))
        elif event in READ_EVENTS:
            with self.lock:
                self.events.append(('read', event, [_abs_now(a) for a in args[:1]]))
        elif event in EXEC_EVENTS:
            with self.lock:
                self.events.append(('exec', event, [repr(args)[:200]]))
        elif event == 'urllib.Request':
            with self.lock:
                self.events.append(('url', event, [args[0]]))

    def record(self):
        audit = self

        class _R(object):
            def __enter__(self):
                with audit.lock:
                    audit.events = []
                audit.active = True
                return self

            def __exit__(self, *a):
                audit.active = False
                with audit.lock:
                    self.events = list(audit.events)
                    audit.events = []
        return _R()


def _abs_now(p):
    """a relative name means what it means at the moment of the call: remember the working directory"""
    t = _fs_text(p)
    if t is None or t == '' or os.path.isabs(t) or '\0' in t or t == ':memory:' or t.startswith('file:'):
        return p
    try:
        return os.path.join(os.getcwd(), t)
    except OSError:
        return p


def _fs_text(p):
    if isinstance(p, bytes):
        return p.decode('utf-8', 'surrogateescape')
    try:
        return os.fspath(p) if not isinstance(p, str) else p
    except TypeError:
        return None


CACHES = [  # name, yaml of the cache backend, layout (None: not a file cache)
    ('c_tc', 'type: file\n      directory_layout: tc', 'tc'),
    ('c_mp', 'type: file\n      directory_layout: mp', 'mp'),
    ('c_tms', 'type: file\n      directory_layout: tms', 'tms'),
    ('c_rtms', 'type: file\n      directory_layout: reverse_tms', 'reverse_tms'),
    ('c_quad', 'type: file\n      directory_layout: quadkey', 'quadkey'),
    ('c_arc', 'type: file\n      directory_layout: arcgis', 'arcgis'),
    ('c_link', 'type: file\n      directory_layout: tc', 'tc'),
    ('c_mb', 'type: mbtiles', None),
    ('c_sq', 'type: sqlite', None),
    ('c_gpkg', 'type: geopackage\n      table_name: tiles', None),
    ('c_cmp1', 'type: compact\n      version: 1', None),
    ('c_cmp2', 'type: compact\n      version: 2', None),
]
TIMES = ['2020-01-01', '2020-01-02T00:00:00Z']


LINK_LAYOUTS = [('c_lkmp', 'mp'), ('c_lktms', 'tms'), ('c_lkrtms', 'reverse_tms'), ('c_lkquad', 'quadkey'), ('c_lkarc', 'arcgis')]
LINK_DEEP = ('lk', 'd1', 'd2', 'd3', 'd4', 'd5', 'd6', 'd7')   # deeper than any layout: a file placed 'n directories above the tile' stays in the scratch root


def make_config(root, perms=False, relative=False, only_file=False, link_layouts=False):
    """relative: every path of the configuration is relative (to the directory of the configuration file, <root>/conf);
    perms: directory_permissions / file_permissions are configured"""
    base = os.path.join(root, 'conf') if relative else root
    cache_root = os.path.join(base, 'cache_data')

    def cfg(p):   # the text written into the configuration
        return os.path.relpath(p, base) if relative else p

    def fcfg(p):  # a relative mbtiles / geopackage `filename` is relative to cache.base_dir, not to the configuration file
        return os.path.relpath(p, cache_root) if relative else p
    y = ['services:', '  demo:', '  tms:', '    use_grid_names: false', '  kml:', '  wmts:', '    restful: true', '    kvp: true',
         "    restful_template: '/{Layer}/{TileMatrixSet}/{Time}/{TileMatrix}/{TileCol}/{TileRow}.{Format}'",
         '    featureinfo_formats:', '      - mimetype: text/plain', '        suffix: txt',
         '  wms:', "    srs: ['EPSG:3857', 'EPSG:4326']", "    image_formats: ['image/png', 'image/jpeg']", '    md:', '      title: C09',
         'sources:', '  src:', '    type: wms', '    wms_opts:', '      featureinfo: true', '      legendgraphic: true', '    req:',
         '      url: http://upstream.invalid/service', '      layers: up', "    forward_req_params: ['time', 'elevation', 'dim_x']",
         '  src_fwd:', '    type: wms', '    req:', '      url: http://upstream.invalid/direct', '      layers: direct', '      transparent: true',
         "    forward_req_params: ['vendor', 'cql_filter']",
         'globals:', '  cache:', '    base_dir: %s' % cfg(cache_root), '    lock_dir: %s' % cfg(os.path.join(base, 'locks')),
         '    tile_lock_dir: %s' % cfg(os.path.join(base, 'tile_locks')), '    meta_size: [1, 1]', '    meta_buffer: 0',
         '    link_single_color_images: false'] + (["    directory_permissions: '755'", "    file_permissions: '644'"] if perms else []) + [
         '  http:', '    hide_error_details: false',
         'caches:']
    dirs = {}
    caches = [c for c in CACHES if c[2] is not None or not only_file]
    for name, backend, layout in caches:
        y += ['  %s:' % name, '    grids: [GLOBAL_MERCATOR]', '    sources: [src]', '    format: image/png']
        if name == 'c_link':
            y += ['    link_single_color_images: true']
        if name == 'c_tms':
            y += ['    meta_size: [2, 2]']
        y += ['    cache:', '      ' + backend]
        d = os.path.join(cache_root, name)
        if backend.startswith('type: mbtiles'):
            y += ['      filename: %s' % fcfg(os.path.join(d, 'tiles.mbtiles'))]
        elif backend.startswith('type: geopackage'):
            y += ['      filename: %s' % fcfg(os.path.join(d, 'tiles.gpkg'))]
        else:
            y += ['      directory: %s' % cfg(d)]
        dirs[name] = (d, layout)
    dfwd = os.path.join(cache_root, 'c_fwd')
    y += ['  c_fwd:', '    grids: [GLOBAL_MERCATOR]', '    sources: [src]', '    format: image/png', '    cache:', '      type: file',
          '      directory: %s' % cfg(dfwd)]
    dirs['c_fwd'] = (dfwd, 'tc')
    lk = []
    if link_layouts:
        # link_single_color_images together with every non-default directory_layout (symlink and hardlink flavour)
        for k, (name, layout) in enumerate(LINK_LAYOUTS):
            d = os.path.join(cache_root, *(LINK_DEEP + (name,)))
            y += ['  %s:' % name, '    grids: [GLOBAL_MERCATOR]', '    sources: [src]', '    format: image/png',
                  '    link_single_color_images: %s' % ('hardlink' if k == 4 else 'true'), '    cache:', '      type: file',
                  '      directory_layout: %s' % layout, '      directory: %s' % cfg(d)]
            dirs[name] = (d, layout)
            lk.append(name)
    y += ['layers:', '  - name: l_fwd', '    title: cache and direct source with forwarded vendor parameter', '    sources: [c_fwd, src_fwd]']
    for name in lk:
        y += ['  - name: l_%s' % name[2:], '    title: layer %s' % name, '    sources: [%s]' % name]
    for name, backend, layout in caches:
        y += ['  - name: l_%s' % name[2:], '    title: layer %s' % name, '    sources: [%s]' % name]
        if name in ('c_tc', 'c_tms', 'c_quad', 'c_arc'):
            y += ['    dimensions:', '      time:', '        values: [%s]' % ', '.join('"%s"' % t for t in TIMES), '        default: "%s"' % TIMES[0]]
    return '\n'.join(y) + '\n', dirs


PNG_CACHE = {}


def fake_png(w, h, plain=False):
    key = (w, h, plain)
    if key not in PNG_CACHE:
        from io import BytesIO
        from PIL import Image
        w2, h2 = max(1, min(w, 2048)), max(1, min(h, 2048))
        img = Image.new('RGB', (w2, h2), (200, 30, 40))
        if not plain:
            img.putpixel((0, 0), (1, 2, 3))
        b = BytesIO()
        img.save(b, 'PNG')
        PNG_CACHE[key] = b.getvalue()
    return PNG_CACHE[key]


class FakeUpstream(object):
    def __enter__(self):
        from io import BytesIO
        from urllib.parse import urlsplit, parse_qs
        from mapproxy.client import http
        self.http = http
        self.orig = http.HTTPClient.open
        calls = self.calls = []
        self.force_plain = None
        me = self

        def fake(client, url, data=None, method=None):
            calls.append(url)
            q = dict((k.lower(), v[0]) for k, v in parse_qs(urlsplit(url).query).items())
            req = q.get('request', '').lower()
            if req == 'getfeatureinfo':
                buf, ct = BytesIO(b'info'), 'text/plain'
            else:
                try:
                    w, h = int(q.get('width', 256)), int(q.get('height', 256))
                except ValueError:
                    w = h = 256
                import zlib
                plain = zlib.crc32(q.get('bbox', '').encode()) % 2 == 0   # single-colour answers exercise the symlink code
                if me.force_plain is not None:
                    plain = me.force_plain
                buf, ct = BytesIO(fake_png(w, h, plain)), 'image/png'
            buf.headers = {'Content-type': ct}
            buf.code = 200
            return buf
        http.HTTPClient.open = fake
        return self

    def __exit__(self, *a):
        self.http.HTTPClient.open = self.orig


def wsgi_get(app, path, query='', headers=None):
    from io import BytesIO, StringIO
    env = {'REQUEST_METHOD': 'GET', 'SCRIPT_NAME': '', 'PATH_INFO': path, 'QUERY_STRING': query, 'SERVER_NAME': 'localhost',
           'SERVER_PORT': '80', 'HTTP_HOST': 'localhost', 'SERVER_PROTOCOL': 'HTTP/1.1', 'wsgi.version': (1, 0), 'wsgi.url_scheme': 'http',
           'wsgi.input': BytesIO(b''), 'wsgi.errors': StringIO(), 'wsgi.multithread': False, 'wsgi.multiprocess': False,
           'wsgi.run_once': False, 'REMOTE_ADDR': '127.0.0.1'}
    for k, v in (headers or {}).items():
        env['HTTP_' + k.upper().replace('-', '_')] = v
    status = [None]

    def start_response(s, h, exc_info=None):
        status[0] = s
        return lambda b: None
    try:
        it = app(env, start_response)
        try:
            body = []
            for chunk in it:
                if sum(len(b) for b in body) < 4000000:
                    body.append(bytes(chunk))
        finally:
            if hasattr(it, 'close'):
                it.close()
        return (status[0] or '')[:3], b''.join(body)
    except Exception as e:  # noqa: the application let an exception escape (a WSGI server would answer 500)
        return 'exc:' + type(e).__name__ + ':' + str(e)[:60], b''


WORLD = 20037508.342789244
DIM_RE = re.compile('(?i)^dim_|^(time|elevation)$')   # WMSMapRequest._get_dimensions


def tile_bbox(z, x, y):
    n = 2 ** z
    w = 2 * WORLD / n
    return (-WORLD + x * w, -WORLD + y * w, -WORLD + (x + 1) * w, -WORLD + (y + 1) * w)


def gen_requests(ctx, corpus):
    """list of (service, path, [(key, value)], headers, layer or None)"""
    from urllib.parse import urlencode  # noqa
    rng = ctx.rng
    layers = ['l_' + c[0][2:] for c in CACHES]
    reqs = []

    def atk(maxlen=8):
        return gen_text(rng, maxlen)

    def getmap(layer, dims, z=None, extra=()):
        z = rng.choice([0, 1, 1, 2]) if z is None else z
        x, y = rng.randrange(2 ** z), rng.randrange(2 ** z)
        q = [('SERVICE', 'WMS'), ('VERSION', '1.1.1'), ('REQUEST', 'GetMap'), ('LAYERS', layer), ('STYLES', ''), ('SRS', 'EPSG:3857'),
             ('BBOX', ','.join(repr(v) for v in tile_bbox(z, x, y))), ('WIDTH', '256'), ('HEIGHT', '256'), ('FORMAT', 'image/png')]
        q += list(dims) + list(extra)
        return ('wms', '/service', q, {}, layer)

    # warm-up / plain requests: every backend is written and read once
    for layer in layers:
        reqs.append(getmap(layer, [], z=0))
        reqs.append(('tms', '/tms/1.0.0/%s/EPSG3857/0/0/0.png' % layer, [], {}, layer))
        reqs.append(('wmts', '/wmts/%s/GLOBAL_MERCATOR/%s/00/0/0.png' % (layer, TIMES[0]), [], {}, layer))
    reqs.append(('wms', '/service', [('SERVICE', 'WMS'), ('REQUEST', 'GetCapabilities')], {}, None))
    reqs.append(('wmts', '/wmts/1.0.0/WMTSCapabilities.xml', [], {}, None))
    reqs.append(('tms', '/tms/1.0.0/', [], {}, None))
    reqs.append(('demo', '/demo/', [], {}, None))
    reqs.append(('demo', '/demo/static/site.css', [], {}, None))
    reqs.append(('kml', '/kml/l_tc/EPSG3857/0/0/0.kml', [], {}, 'l_tc'))
    # corpus witnesses (finding F7 and relatives)
    for c in corpus.get('wms_dims', []):
        reqs.append(getmap('l_tc', [tuple(kv) for kv in c], z=1))
    reqs.append(getmap('l_tc', [('TIME', '../../../secret')], z=1))
    reqs.append(getmap('l_tc', [('DIM_/../../../outside/y', '1')], z=1))
    reqs.append(getmap('l_tms', [('TIME', '/' + 'abs')], z=1))
    reqs.append(getmap('l_mp', [('ELEVATION', '..\\..\\x\0y')], z=1))
    # every backend / directory layout gets hostile dimension NAMES and VALUES (deep enough to leave the cache directory if used verbatim)
    up = '../' * 8
    matrix = [[('DIM_/' + up + 'outside/n', '1')], [('TIME', up + 'outside/v')], [('DIM_X', up + 'outside/v'), ('DIM_/' + up + 'outside/n2', 'v/' + up + 'w')],
              [('ELEVATION', '/' + 'outside'), ('TIME', TIMES[0])], [('DIM_..\\..\\x', '..\\..\\y')], [('dim_' + up.rstrip('/'), up.rstrip('/'))],
              [('DIM_\0n', 'v\0')],
              # a value / name that looks already escaped (has %2F, %25, %5C, %00) AND has raw separators
              # (three levels up from <cache_dir>/<dimension directory> is the scratch root, which has a directory 'outside')
              [('TIME', 'x%2F/' + '../' * 3 + 'outside/esc_v')],
              [('DIM_X%5C/' + '../' * 3 + 'outside/esc_n', '%25/' + '../' * 3 + 'outside/esc_v2'), ('ELEVATION', '%00/' + '../' * 3 + 'outside/esc_v3')]]
    for layer in layers:
        for k, dims in enumerate(matrix):
            reqs.append(getmap(layer, dims, z=1 + k % 2))
    # GetLegendGraphic (valid layer and format) with hostile SCALE values, deep enough to leave <base_dir>/legends and <base_dir>
    lscales = ['1000', '1/' + up + 'outside/legend', up + 'outside/legend2', '1:25000', '/outside', 'nan', 'inf', '1e400', '-0', '0x10', '1_000', ' 7 ', '1\0', '..',
               '%2e%2e%2f' * 6 + 'x', '\uff11\uff10', '..\\..\\..\\..\\x']
    for k, sc in enumerate(lscales):
        layer = layers[k % len(layers)]
        reqs.append(('wms', '/service', [('SERVICE', 'WMS'), ('VERSION', '1.1.1'), ('REQUEST', 'GetLegendGraphic'), ('LAYER', layer), ('FORMAT', 'image/png'),
                                          ('SCALE', sc)], {}, None, {'legend': True}))
        reqs.append(('wms', '/service', [('SERVICE', 'WMS'), ('VERSION', '1.3.0'), ('REQUEST', 'GetLegendGraphic'), ('LAYER', 'l_tc'), ('FORMAT', 'image/png'),
                                          ('SLD_VERSION', '1.1.0'), ('SCALE', sc)], {}, None, {'legend': True}))
    for k, fmt in enumerate(['image/x/' + up + 'outside/evil', 'image/png/' + up + 'outside/evil2', 'image/..', 'image/../../../../../x', 'image//outside', 'image/jpeg',
                             'image/gif', 'application/json', 'image/png\0', 'image/' + '%2e%2e%2f' * 6 + 'x', 'image/..\\..\\..\\x', '../../../../x', 'image/png/.']):
        for sc in ('1000', '7'):
            reqs.append(('wms', '/service', [('SERVICE', 'WMS'), ('VERSION', '1.1.1'), ('REQUEST', 'GetLegendGraphic'), ('LAYER', layers[k % len(layers)]),
                                              ('FORMAT', fmt), ('SCALE', sc)], {}, None, {'legend': True}))
    # parameters forwarded to a direct source (forward_req_params) are copied into the dimensions of the whole query: the file cache of
    # the same layer gets them too
    for v in ['x', up + 'outside/vendor', 'a/b', '/outside', '..', 'x\\..\\..', 'v\0', '%2F..%2F..']:
        reqs.append(wms_getmap('l_fwd', [(rng.choice(['VENDOR', 'vendor']), v)], 1, 0, 0))
        reqs.append(wms_getmap('l_fwd', [('CQL_FILTER', v), ('TIME', '2020')], 1, 1, 0))
    nwms = ctx.n(70, 500)
    for i in range(nwms):
        layer = rng.choice(['l_tc'] * 4 + ['l_mp', 'l_tms', 'l_rtms', 'l_quad', 'l_arc', 'l_link', 'l_mb', 'l_sq', 'l_gpkg', 'l_cmp1', 'l_cmp2'])
        nd = rng.choice([1, 1, 2, 3])
        dims = []
        for _ in range(nd):
            k = rng.choice(['TIME', 'time', 'Time', 'ELEVATION', 'elevation', 'DIM_X', 'dim_x', 'DIM_' + atk(5), 'dim_' + atk(5), 'Dim_' + atk(3)])
            v = atk(10) if rng.random() < 0.85 else rng.choice(TIMES)
            dims.append((k, v))
        extra = [('TILED', 'true')] if rng.random() < 0.15 else []
        reqs.append(getmap(layer, dims, extra=extra))
    for i in range(ctx.n(40, 300)):   # other WMS requests with hostile layer names / formats / numbers
        kind = rng.choice(['map', 'fi', 'legend', 'caps'])
        lay = rng.choice([atk(), '../' + rng.choice(layers), rng.choice(layers) + '/../x', rng.choice(layers)])
        q = [('SERVICE', 'WMS'), ('VERSION', rng.choice(['1.1.1', '1.3.0', atk(3)])), ('LAYERS', lay), ('STYLES', ''), ('SRS', rng.choice(['EPSG:3857', 'EPSG:4326', atk(4)])),
             ('BBOX', rng.choice(['-180,-90,180,90', '0,0,10,10', atk(4), 'nan,nan,nan,nan', '-1e308,-1e308,1e308,1e308'])),
             ('WIDTH', rng.choice(['256', '0', '-1', '99999999', atk(3)])), ('HEIGHT', rng.choice(['256', '1', atk(3)])),
             ('FORMAT', rng.choice(['image/png', 'image/../../x', atk(5), 'image/jpeg']))]
        if kind == 'map':
            q.append(('REQUEST', 'GetMap'))
        elif kind == 'fi':
            q += [('REQUEST', 'GetFeatureInfo'), ('QUERY_LAYERS', lay), ('X', rng.choice(['1', atk(2)])), ('Y', '1'), ('INFO_FORMAT', rng.choice(['text/plain', atk(5)]))]
        elif kind == 'legend':
            q += [('REQUEST', 'GetLegendGraphic'), ('LAYER', lay), ('SCALE', rng.choice(['1000', atk(5), '../../x']))]
        else:
            q.append(('REQUEST', rng.choice(['GetCapabilities', atk(5)])))
        reqs.append(('wms', rng.choice(['/service', '/ows', '/wms']), q, {}, None))
    for i in range(ctx.n(60, 400)):   # tile services
        svc = rng.choice(['tms', 'tiles', 'wmts', 'wmtskvp', 'kml'])
        layer = rng.choice(layers + [atk(), '..', '../' + layers[0]])
        num = lambda: rng.choice(['0', '1', '2', '-1', '00', '4294967296', '99999999999999999999', '1e3', '0x10', atk(3), '..', '%2e%2e', ''])  # noqa
        z, x, y = num(), num(), num()
        if rng.random() < 0.4:
            z, x, y = rng.choice(['0', '1']), '0', '0'
        tval = rng.choice([TIMES[0], TIMES[1], 'default', atk(8), '..', '../..'])
        if svc in ('tms', 'tiles'):
            srs = rng.choice(['EPSG3857', 'EPSG900913', atk(4), '..'])
            fmt = rng.choice(['png', 'jpeg', atk(3), 'png/../../x'])
            p = '/%s/%s%s/%s/%s/%s/%s.%s' % (svc, rng.choice(['1.0.0/', '1.0.0/', '', atk(3) + '/']), layer, srs, z, x, y, fmt)
            reqs.append(('tms', p, [('origin', atk(3))] if rng.random() < 0.2 else [], {}, None))
        elif svc == 'kml':
            reqs.append(('kml', '/kml/%s/%s/%s/%s/%s.%s' % (layer, rng.choice(['EPSG3857', atk(4)]), z, x, y, rng.choice(['kml', 'png', atk(3)])), [], {}, None))
        elif svc == 'wmts':
            p = '/wmts/%s/%s/%s/%s/%s/%s.%s' % (layer, rng.choice(['GLOBAL_MERCATOR', atk(5), '..']), tval, z, x, y, rng.choice(['png', atk(3)]))
            reqs.append(('wmts', p, [], {}, None))
        else:
            q = [('SERVICE', 'WMTS'), ('VERSION', '1.0.0'), ('REQUEST', rng.choice(['GetTile', 'GetTile', 'GetFeatureInfo'])), ('LAYER', layer), ('STYLE', ''),
                 ('TILEMATRIXSET', rng.choice(['GLOBAL_MERCATOR', atk(5)])), ('TILEMATRIX', z), ('TILEROW', y), ('TILECOL', x),
                 ('FORMAT', rng.choice(['image/png', 'png', atk(5)])), (rng.choice(['TIME', 'time', 'ELEVATION', 'DIM_X']), tval),
                 ('I', '1'), ('J', '1'), ('INFOFORMAT', 'text/plain')]
            reqs.append(('wmts', '/service', q, {}, None))
    for i in range(ctx.n(40, 250)):   # demo service and static files
        r = rng.random()
        if r < 0.55:
            tail = rng.choice(['../../../../../../etc/passwd', '..', '../secret.txt', atk(10), 'site.css', './site.css', '/etc/passwd', '%2e%2e/x', '.\\..\\x', 'a/../../x',
                               '....//....//x', '../' * 12 + 'etc/passwd', '\0', 'site.css\0.png'])
            reqs.append(('demo', '/demo/static/' + tail, [], {}, None))
        else:
            k = rng.choice(['wms_layer', 'tms_layer', 'wmts_layer', 'wms_capabilities', 'tms_capabilities', 'wmts_capabilities', atk(4)])
            q = [(k, rng.choice(layers + [atk()])), ('format', rng.choice(['png', atk(4)])), ('srs', rng.choice(['EPSG:3857', atk(4)])),
                 ('layer', atk(5)), ('type', rng.choice(['external', 'x']))]
            hdr = {'X-Forwarded-Host': rng.choice(['localhost', atk(6), 'file:///etc/passwd#']), 'X-Script-Name': rng.choice(['', '/' + atk(4), 'file:///etc'])} if rng.random() < 0.5 else {}
            reqs.append(('demo', '/demo/', q, hdr, None))
    return reqs


PLANT_RGB = (7, 77, 177)


def wms_getmap(layer, dims, z, x, y, extra=()):
    q = [('SERVICE', 'WMS'), ('VERSION', '1.1.1'), ('REQUEST', 'GetMap'), ('LAYERS', layer), ('STYLES', ''), ('SRS', 'EPSG:3857'),
         ('BBOX', ','.join(repr(v) for v in tile_bbox(z, x, y))), ('WIDTH', '256'), ('HEIGHT', '256'), ('FORMAT', 'image/png')]
    return ('wms', '/service', q + list(dims) + list(extra), {}, layer)


def gen_sequences(ctx, cache_dirs, root, under):
    """Multi-step request sequences per file-cache layer: a benign dimension value first (so that its directory exists), then
    hostile values derived from it with /../ suffixes (plain, percent-encoded, with a '.' segment, with backslashes).  A tile-shaped
    file of a distinctive colour is planted wherever such a value - taken verbatim or percent-decoded once or twice - would point
    outside the cache directory: a look-up that does not go through the escaped name finds it."""
    from io import BytesIO
    from urllib.parse import unquote
    from PIL import Image
    from mapproxy.cache import path as mpath
    from mapproxy.cache.tile import Tile
    b = BytesIO()
    Image.new('RGB', (256, 256), PLANT_RGB).save(b, 'PNG')
    png = b.getvalue()
    outside = os.path.join(root, 'outside')
    reqs = []
    nplanted = 0
    for cname in ('c_tc', 'c_mp', 'c_tms', 'c_rtms', 'c_link'):
        cdir, layout = cache_dirs[cname]
        layer = 'l_' + cname[2:]
        fn = getattr(mpath, LAYOUT_FN[layout])
        for key, benign in (('TIME', '2020'), ('DIM_X', 'a'), ('ELEVATION', TIMES[0])):
            tag = '%s_%s' % (cname, key.lower())
            up = '/..' * 3     # <cache_dir>/<key>-<benign>/../../.. is the directory above cache_data
            hostile = [benign + up + '/outside/planted/' + tag,
                       benign + up.replace('/', '%2F') + '%2Foutside%2Fplanted%2F' + tag + 'e',
                       benign + '/./' + '../' * 3 + 'outside/planted/' + tag + 'd',
                       benign + up.replace('/', '\\') + '\\outside\\planted\\' + tag + 'b',
                       benign + '%2F' + up + '/outside/planted/' + tag + 't',      # escape-looking token + raw separators
                       benign + '%25%5C%00' + up + '/outside/planted/' + tag + 'u']
            planted = []
            for h in hostile:
                for cand in sorted({h, unquote(h), unquote(unquote(h)), h.replace('\\', '/')}):
                    naive = os.path.join(cdir, key.lower() + '-' + cand)
                    for coord in [(0, 0, 0), (0, 0, 1), (1, 0, 1), (0, 1, 1), (1, 1, 1)]:
                        try:
                            t = os.path.normpath(fn(Tile(coord), naive, 'png'))
                        except Exception:  # noqa
                            continue
                        if under(t, outside) and not os.path.exists(t):
                            os.makedirs(os.path.dirname(t), exist_ok=True)
                            with open(t, 'wb') as f:
                                f.write(png)
                            planted.append(os.path.relpath(t, root))
                            nplanted += 1
            steps = [[(key, benign)]] + [[(key, h)] for h in hostile]
            done = []
            for dims in steps:
                r = wms_getmap(layer, dims, 1, 0, 0)
                reqs.append(r + ({'preceded_by': list(done), 'planted_tile_files_outside_cache_dir': planted[:6]},))
                done.append('/service?' + '&'.join('%s=%s' % kv for kv in r[2]))
    ctx.count('wsgi planted tile files', nplanted)
    return reqs


def gen_multiapp_requests(ctx):
    rng = ctx.rng
    out = [('/mapproxy/service', [('SERVICE', 'WMS'), ('REQUEST', 'GetCapabilities')]), ('/', []), ('/../outside/evil/service', []), ('/..', []),
           ('/outside/evil/service', []), ('//../outside/evil', []), ('/..\\outside\\evil/x', []), ('/mapproxy/../outside/evil/', []),
           ('/evil/service', []), ('/mapproxy.yaml/x', []), ('/./mapproxy/x', []), ('/mapproxy\0/x', [])]
    caps = [('SERVICE', 'WMS'), ('REQUEST', 'GetCapabilities')]
    out += [(p, caps if p.endswith('/service') else []) for p in ENCODED_NAMES]
    for _ in range(ctx.n(30, 200)):
        out.append(('/' + gen_text(rng, 6) + rng.choice(['', '/service', '/demo/', '/../x']), []))
    return out


def stream_wsgi(ctx, corpus):
    """main: absolute configuration, every service / backend, hostile requests, sequences, multiapp;
    linkfirst: fresh application whose first linked single colour tile lies below dimension directories; lockfault: the tile lock
          directory cannot be created (fault);
    perm: the same caches with directory_permissions / file_permissions configured and fresh (not yet existing) cache and lock
          directories - a request may chmod what it creates, nothing that existed before;
    relative: every configured path relative, configuration loaded through a relative file name, working directory changed
          between loading and serving - the directories are those next to the configuration file, whatever the cwd is."""
    terms, descr = [], []
    for variant in ('main', 'perm', 'relative', 'linkfirst', 'lockfault'):
        _stream_wsgi_variant(ctx, corpus, variant, terms, descr)
    if terms:
        ctx.corr_check('wmsdims', MODEL, 'dims * str', terms, 'fun c => str_eqb (dimensions_part py_lower (fst c)) (snd c)', lambda i: descr[i])
    else:
        ctx.problem('harness', 'no WMS GetMap with dimensions reached a file cache: the dataflow tie did not run')


def _stream_wsgi_variant(ctx, corpus, variant, terms, descr):
    import mapproxy
    audit = Audit.get()
    root = os.path.realpath(ctx.tmpdir('c09root' + variant))
    conf_dir = os.path.join(root, 'conf')
    os.makedirs(conf_dir)
    os.makedirs(os.path.join(root, 'outside'))
    os.makedirs(os.path.join(root, 'elsewhere'))
    with open(os.path.join(root, 'secret.txt'), 'w') as f:
        f.write('secret')
    text, cache_dirs = make_config(root, perms=(variant == 'perm'), relative=(variant == 'relative'), link_layouts=(variant == 'linkfirst'))
    if variant == 'lockfault':
        # fault: the volume of the tile lock directory is not there - its parent is a regular file (ENOTDIR for every mkdir below it)
        with open(os.path.join(root, 'lockvolume'), 'w') as f:
            f.write('not a directory')
        text = text.replace('tile_lock_dir: %s' % os.path.join(root, 'tile_locks'), 'tile_lock_dir: %s' % os.path.join(root, 'lockvolume', 'tile_locks'))
        os.makedirs(os.path.join(root, 'system-tmp'))
    conf = os.path.join(conf_dir, 'mapproxy.yaml')
    with open(conf, 'w') as f:
        f.write(text)
    if variant == 'linkfirst':
        for cname, layout in LINK_LAYOUTS:      # the parent of each of these cache directories exists (operator-made), the cache directory not yet
            os.makedirs(os.path.dirname(cache_dirs[cname][0]), exist_ok=True)
    if variant == 'main':
        with open(os.path.join(root, 'outside', 'evil.yaml'), 'w') as f:
            f.write(text.replace(os.path.join(root, 'cache_data'), os.path.join(root, 'outside', 'cache_data')))
    base = conf_dir if variant == 'relative' else root
    write_roots = [os.path.join(base, 'cache_data'), os.path.join(base, 'locks'), os.path.join(base, 'tile_locks')]
    if variant == 'lockfault':
        write_roots[2] = os.path.join(root, 'lockvolume', 'tile_locks')
    pkg_dir = os.path.realpath(os.path.dirname(mapproxy.__file__))
    template_dir = os.path.join(pkg_dir, 'service', 'templates')
    py_roots = sorted(set(os.path.realpath(p) for p in [sys.prefix, sys.base_prefix, sys.exec_prefix, os.path.dirname(pkg_dir)] +
                          [p for p in sys.path if p and os.path.isdir(p)]))
    py_roots = [r for r in py_roots if r.count('/') >= 1 and r != '/']
    data_roots = [template_dir, conf_dir]
    try:
        import pyproj
        data_roots.append(os.path.realpath(pyproj.datadir.get_data_dir()))
    except Exception:  # noqa
        pass
    import mimetypes
    exact_reads = set(os.path.realpath(p) for p in mimetypes.knownfiles)
    sys_path_entries = set(os.path.realpath(p) for p in sys.path if p)   # importlib.metadata lists every entry

    def under(p, r):
        return p == r or p.startswith(r.rstrip('/') + '/')

    def resolve_fs(p, base=None):
        t = _fs_text(p)
        if t is None:
            return None
        if '\0' in t:
            return None   # refused by the system call
        if t == ':memory:' or t.startswith('file::memory:'):
            return None
        if not os.path.isabs(t):
            t = os.path.join(base or os.getcwd(), t)
        return os.path.realpath(t)

    def judge(kind, event, paths, own=None):
        """None or a (signature, text) describing the forbidden access.  own: the directories of the cache the request is for
        (its cache directory or the legend cache, plus the lock directories); default: any configured cache / lock directory"""
        if kind == 'exec':
            return ('wsgi,process-started', '%s %s' % (event, paths[0]))
        if kind == 'url':
            u = str(paths[0])
            if not re.match(r'^https?://', u):
                return ('wsgi,non-http-url-opened', 'urllib request for %r' % u)
            return None
        if kind == 'network':
            return None
        for p in paths:
            rp = resolve_fs(p)
            if rp is None:
                continue
            if any(under(rp, w) for w in (own or write_roots)):
                continue
            if event == 'os.mkdir' and any(under(w, rp) for w in write_roots) and '..' not in (_fs_text(p) or '').split('/'):
                continue    # (attempt to) create a missing ancestor of a configured cache / lock directory
            if own and kind == 'write' and any(under(rp, w) for w in write_roots):
                return ('wsgi,write-in-the-directory-of-another-cache', '%s of %r (%s): not in the directories of the requested cache %r' % (kind, _fs_text(p), event, own[0]))
            if own and kind == 'read' and any(under(rp, w) for w in write_roots) and not os.path.isdir(rp):
                return ('wsgi,read-in-the-directory-of-another-cache', '%s of %r (%s): not in the directories of the requested cache %r' % (kind, _fs_text(p), event, own[0]))
            if own and any(under(rp, w) for w in write_roots):
                continue
            if kind == 'read':
                if any(under(rp, d) for d in data_roots) or rp in exact_reads or rp in sys_path_entries:
                    continue
                if any(under(rp, r) for r in py_roots) and not under(rp, root) and (
                        rp.endswith(('.py', '.pyc', '.so', '.pyi', '.pth', '.typed', '.cfg')) or os.path.isdir(rp) or '__pycache__' in rp
                        or '.egg-info/' in rp or '.dist-info/' in rp):
                    continue
            sig = 'wsgi,%s-outside-cache-and-lock-dirs' % kind
            return (sig, '%s of %r (%s, resolves to %r)' % (kind, _fs_text(p), event, rp))
        return None

    import logging
    logging.disable(logging.CRITICAL)
    old_cwd = os.getcwd()
    import tempfile
    old_tempdir = tempfile.tempdir
    try:
        judge.lock_roots = write_roots[1:]
        _wsgi_requests(ctx, corpus, audit, conf, conf_dir, cache_dirs, judge, under, terms, descr, variant)
        # what the requests left behind: no link inside a cache directory may lead out of it
        nlinks = 0
        for cname, (cdir, layout) in sorted(cache_dirs.items()):
            for dp, dns, fns in os.walk(cdir):
                for fn in dns + fns:
                    lp = os.path.join(dp, fn)
                    if os.path.islink(lp):
                        nlinks += 1
                        target = os.path.realpath(lp)
                        if not under(target, os.path.realpath(cdir)):
                            ctx.fail('wsgi,link-in-cache-points-outside-the-cache-dir',
                                     'after the %s requests the cache %s contains the link %s -> %s which resolves to %s' % (
                                         variant, cname, os.path.relpath(lp, root), os.readlink(lp), target),
                                     {'variant': variant, 'cache': cname, 'link': os.path.relpath(lp, root), 'link_text': os.readlink(lp), 'resolves_to': target,
                                      'requests': 'see harness/props/c09.py _wsgi_requests, variant %s' % variant})
                            break
        ctx.count('wsgi links inside caches (%s)' % variant, nlinks)
    finally:
        tempfile.tempdir = old_tempdir
        os.chdir(old_cwd)
        logging.disable(logging.NOTSET)


def gen_basic_requests(ctx):
    """every backend written and read once through WMS, TMS and WMTS, plus two hostile dimension sets per backend"""
    layers = ['l_' + c[0][2:] for c in CACHES if c[2] is not None] + ['l_' + c[0][2:] for c in CACHES if c[2] is None]
    up = '../' * 8
    reqs = []
    for layer in layers:
        reqs.append(wms_getmap(layer, [], 0, 0, 0))
        reqs.append(('tms', '/tms/1.0.0/%s/EPSG3857/1/0/0.png' % layer, [], {}, layer))
        reqs.append(('wmts', '/wmts/%s/GLOBAL_MERCATOR/%s/01/1/1.png' % (layer, TIMES[0]), [], {}, layer))
        reqs.append(wms_getmap(layer, [('TIME', '2020')], 1, 1, 0))
        reqs.append(wms_getmap(layer, [('DIM_/' + up + 'outside/n', up + 'outside/v')], 1, 0, 1))
    return reqs


def _wsgi_requests(ctx, corpus, audit, conf, conf_dir, cache_dirs, judge, under, terms, descr, variant='main'):
    from urllib.parse import urlencode
    from mapproxy.wsgiapp import make_wsgi_app
    from mapproxy import multiapp
    with FakeUpstream() as upstream:
        root = os.path.dirname(conf_dir)
        history = {}
        if variant == 'main':
            app = make_wsgi_app(conf, reloader=False)
            mapp = multiapp.make_wsgi_app(conf_dir, allow_listing=True)
            reqs = [(app, 'single') + r for r in gen_requests(ctx, corpus)]
            reqs += [(app, 'single') + r for r in gen_sequences(ctx, cache_dirs, root, under)]
            reqs += [(mapp, 'multiapp', 'multiapp', p, q, {}, None) for p, q in gen_multiapp_requests(ctx)]
        elif variant == 'linkfirst':
            # a fresh application (fresh FileCache objects): the FIRST single colour tile that is linked lies below two dimension
            # directories, later ones below one / none; then the tiles are requested again (read through the links).  A tile-shaped file
            # is planted where a link that is two levels too long would point to.
            app = make_wsgi_app(conf, reloader=False)
            from io import BytesIO
            from PIL import Image
            b = BytesIO()
            Image.new('RGB', (256, 256), PLANT_RGB).save(b, 'PNG')
            planted = []
            for up_dir in (root, os.path.join(root, 'cache_data')):
                os.makedirs(os.path.join(up_dir, 'single_color_tiles'), exist_ok=True)
                for name in ('c81e28.png',):
                    with open(os.path.join(up_dir, 'single_color_tiles', name), 'wb') as f:
                        f.write(b.getvalue())
                    planted.append(os.path.relpath(os.path.join(up_dir, 'single_color_tiles', name), root))
            steps = [('l_link', [('TIME', '2020'), ('ELEVATION', '100')], 1, 0, 0), ('l_link', [('TIME', '2020')], 1, 1, 0), ('l_link', [], 1, 0, 1),
                     ('l_link', [], 1, 1, 1), ('l_link', [], 1, 0, 1), ('l_link', [('TIME', '2020')], 1, 1, 0), ('l_link', [], 0, 0, 0), ('l_link', [], 0, 0, 0)]
            # the configuration clause: link_single_color_images with every other directory_layout (tile files lie at other depths
            # below the cache directory than with tc); stored through WMS and TMS, with and without dimension directories, then read again
            for cname, layout in LINK_LAYOUTS:
                lay = 'l_' + cname[2:]
                steps += [(lay, [], 1, 0, 0), (lay, [('TIME', '2020')], 1, 1, 0), (lay, [], 2, 3, 1), (lay, [], 1, 0, 0), (lay, [('TIME', '2020')], 1, 1, 0)]
            reqs, done = [], []
            for lay, dims, z, x, y in steps:
                r = wms_getmap(lay, dims, z, x, y)
                reqs.append((app, 'linkfirst') + r + ({'configuration': 'file cache with link_single_color_images: true; the upstream answers with single colour images',
                                                       'preceded_by': list(done), 'planted_tile_files_outside_cache_dir': planted, 'upstream_single_colour': True},))
                done.append('/service?' + '&'.join('%s=%s' % kv for kv in r[2]))
            for cname, layout in LINK_LAYOUTS:
                lay = 'l_' + cname[2:]
                for tp in ('/tms/1.0.0/%s/EPSG3857/1/0/1.png' % lay, '/tms/1.0.0/%s/EPSG3857/1/0/1.png' % lay):
                    reqs.append((app, 'linkfirst', 'tms', tp, [], {}, lay,
                                 {'configuration': 'file cache with link_single_color_images and directory_layout: %s; the upstream answers with single colour images' % layout,
                                  'preceded_by': list(done), 'upstream_single_colour': True}))
                    done.append(tp)
        elif variant == 'lockfault':
            import tempfile
            old_tmp = tempfile.tempdir
            tempfile.tempdir = os.path.join(root, 'system-tmp')     # what tempfile.gettempdir() answers while this variant runs
            app = make_wsgi_app(conf, reloader=False)
            history = {'fault': 'the parent of tile_lock_dir is a regular file: the lock directory cannot be created (ENOTDIR)',
                       'configuration': 'tile_lock_dir: <root>/lockvolume/tile_locks, <root>/lockvolume is a file; tempfile.gettempdir() = <root>/system-tmp'}
            reqs = [(app, 'lockfault') + r + (history,) for r in gen_basic_requests(ctx)]
        elif variant == 'perm':
            app = make_wsgi_app(conf, reloader=False)
            history = {'configuration': "globals.cache.directory_permissions: '755', file_permissions: '644'; cache and lock directories do not exist yet"}
            reqs = [(app, 'perm') + r + (history,) for r in gen_basic_requests(ctx)]
        else:
            os.chdir(conf_dir)
            try:
                app = make_wsgi_app('mapproxy.yaml', reloader=False)
            except Exception as e:  # noqa
                # report it, and go on with the file caches only (their directories are created by the first request, not at start-up)
                ctx.problem('harness', "make_wsgi_app('mapproxy.yaml') with relative cache paths failed: %r" % (e,))
                with open('mapproxy.yaml', 'w') as f:
                    f.write(make_config(root, relative=True, only_file=True)[0])
                app = make_wsgi_app('mapproxy.yaml', reloader=False)
            # the new working directory belongs to a foreign project that has directories of the same names and tiles of its own
            elsewhere = os.path.join(root, 'elsewhere')
            from io import BytesIO
            from PIL import Image
            from mapproxy.cache import path as mpath
            from mapproxy.cache.tile import Tile
            b = BytesIO()
            Image.new('RGB', (256, 256), PLANT_RGB).save(b, 'PNG')
            for d in ('cache_data', 'locks', 'tile_locks'):
                os.makedirs(os.path.join(elsewhere, d), exist_ok=True)
            for cname, (cdir, layout) in sorted(cache_dirs.items()):
                if layout is None:
                    continue
                for coord in [(0, 0, 0), (0, 0, 1), (1, 0, 1), (0, 1, 1), (1, 1, 1)]:
                    t = getattr(mpath, LAYOUT_FN[layout])(Tile(coord), os.path.join(elsewhere, 'cache_data', cname), 'png')
                    os.makedirs(os.path.dirname(t), exist_ok=True)
                    with open(t, 'wb') as f:
                        f.write(b.getvalue())
            os.chdir(elsewhere)
            history = {'configuration': 'all configured paths relative (base_dir: cache_data, lock_dir: locks, tile_lock_dir: tile_locks, ...)',
                       'history': ["os.chdir(<root>/conf)", "app = make_wsgi_app('mapproxy.yaml')",
                                   "os.chdir(<root>/elsewhere)  # has cache_data/, locks/, tile_locks/ and tiles of its own", 'the request']}
            reqs = [(app, 'relative') + r + (history,) for r in gen_basic_requests(ctx)]
        for r in reqs:
            the_app, which, svc, path, q, hdr, layer = r[:7]
            meta = r[7] if len(r) > 7 else {}
            query = urlencode(q)
            upstream.force_plain = meta.get('upstream_single_colour')
            with audit.record() as rec:
                status, body = wsgi_get(the_app, path, query, hdr)
            events = rec.events
            hostile = interesting(path) or any(interesting(k) or interesting(v) for k, v in q) or any(interesting(v) for v in hdr.values())
            rep = {'app': which, 'service': svc, 'PATH_INFO': path, 'query': q, 'QUERY_STRING': query, 'headers': hdr, 'status': status}
            rep.update(meta)
            if meta:
                ctx.count('wsgi sequence step')
            # content: the answer must never be the image planted outside the cache directory
            if status == '200' and body[:4] in (b'\x89PNG', b'\xff\xd8\xff\xe0', b'\xff\xd8\xff\xdb'):
                try:
                    from io import BytesIO
                    from PIL import Image
                    img = Image.open(BytesIO(body)).convert('RGB')
                    px = img.getpixel((img.size[0] // 2, img.size[1] // 2))
                except Exception:  # noqa
                    px = None
                if px is not None and all(abs(a - b) <= 3 for a, b in zip(px, PLANT_RGB)):
                    ctx.fail('wsgi,answer-is-a-file-from-outside-the-cache-dir',
                             'request %s?%s is answered with the image planted outside the cache directory (after %d earlier request(s))'
                             % (path, query[:300], len(meta.get('preceded_by', []))), rep)
            ctx.case(('wsgi', which, path, query, tuple(sorted(hdr.items()))), hostile, dict(rep, stream='wsgi', fs_events=len(events)))
            ctx.count('wsgi ' + svc)
            ctx.count('wsgi status ' + str(status)[:40])
            ctx.count('wsgi fs events', len(events))
            for kind, event, paths in events:
                ctx.count('wsgi %s event %s %s' % (svc, kind, event))
            base_dir = os.path.dirname(cache_dirs['c_tc'][0])
            lock_roots = judge.lock_roots
            own = None
            if which != 'multiapp' and layer and ('c_' + layer[2:]) in cache_dirs:
                own = [cache_dirs['c_' + layer[2:]][0]] + lock_roots
            elif meta.get('legend'):
                own = [os.path.join(base_dir, 'legends')] + lock_roots
            for kind, event, paths in events:
                bad = judge(kind, event, paths, own)
                if bad:
                    ctx.fail(bad[0], 'request %s?%s (%s): %s' % (path, query[:300], svc, bad[1]),
                             dict(rep, forbidden_access=bad[1], config='harness/props/c09.py make_config'))
                    break
            # dataflow tie: where did the tiles of a WMS GetMap with dimensions go?
            if svc == 'wms' and layer and cache_dirs.get('c_' + layer[2:], (None, None))[1] in ('tc', 'mp', 'tms', 'reverse_tms'):
                cdir, layout = cache_dirs['c_' + layer[2:]]
                depth = {'tc': 7, 'mp': 5, 'tms': 3, 'reverse_tms': 3}[layout]
                dparts = set()
                for kind, event, paths in events:
                    if event in ('open', 'os.rename'):
                        t = _fs_text(paths[-1])
                        if t and t.endswith('.png') and under(os.path.normpath(t), cdir):
                            rel = os.path.relpath(os.path.normpath(t), cdir).split('/')
                            if 'single_color_tiles' not in rel:
                                dparts.add('/'.join(rel[:-depth]))
                dd = [(k, v) for k, v in q if DIM_RE.search(k)]
                if layer == 'l_fwd':    # WMSServer.update_query_with_fwd_params: query.dimensions[p] = params[p] for the forwarded names
                    for fp in sorted(['vendor', 'cql_filter']):
                        vals = [v for k, v in q if k.lower() == fp]
                        if vals:
                            dd = [kv for kv in dd if kv[0].lower() != fp] + [(fp, vals[0])]
                if len(dparts) == 1 and status == '200':
                    got = dparts.pop()
                    ctx.count('wmsdims observed')
                    terms.append('(%s, %s)' % ('[' + '; '.join('(%s, %s)' % (strlit(k), strlit(v)) for k, v in dd) + ']', strlit(got)))
                    descr.append(dict(rep, request_dimensions=dd, observed_dimension_directories=got))
                    seen = {}
                    if dd:
                        # the oracle on what the real request created
                        cd = {}
                        for k, v in dd:
                            cd.setdefault(k, v)
                        oracle_dims_part(ctx, cd, got, seen, 'WMS GetMap -> tile directory')
                elif len(dparts) > 1:
                    ctx.fail('wsgi,tiles-of-one-request-in-several-dimension-directories', 'request %s?%s stored/loaded tiles below %r' % (path, query[:300], sorted(dparts)), rep)
